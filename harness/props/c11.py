"""C11 — allocations are big enough and never overlap while live.

Real code: `memref-to-snax` (size operand of snax.alloc, interpreted), `snax-allocate{mode=static|minimalloc|auto}`
(address constants, lifetimes handed to the solver, inserted deallocs). Model: lean/SnaxVerif/Model/Alloc.lean.
The committed state expects fixes/F12-minimalloc-view-lifetimes.diff applied to $SNAX_REPO
(set C11_VIEWMODE=orig to compare against the model of the pinned commit instead).
"""
import itertools
import os
import random

import compat  # noqa: F401
import leandrv
import snaxrun
from framework import Prop, canon_json

VIEWMODE = os.environ.get("C11_VIEWMODE", "fixed")


def _fc11a_expected():
    """Is fixes/FC11a-minimalloc-start-alignment.diff (repair of finding C11-N1) expected in the code under test?
    Single switch: the status of C11-N1 in known_findings.d/C11.json ("fixed" -> yes); C11_FC11A=0/1 overrides."""
    env = os.environ.get("C11_FC11A")
    if env is not None:
        return env == "1"
    import json
    path = os.path.join(leandrv.VERIF, "known_findings.d", "C11.json")
    try:
        return any(f["id"] == "C11-N1" and f.get("status") == "fixed" for f in json.load(open(path))["findings"])
    except OSError:
        return False


FC11A = _fc11a_expected()


def _finding_fixed(fid, envname):
    env = os.environ.get(envname)
    if env is not None:
        return env == "1"
    import json
    try:
        return any(f["id"] == fid and f.get("status") == "fixed"
                   for f in json.load(open(os.path.join(leandrv.VERIF, "known_findings.d", "C11.json")))["findings"])
    except OSError:
        return False


# is fixes/FC11b-minimalloc-follow-select.diff (repair of C11-N2: arith.select joins VIEW_LIKE_OPS) expected in the
# code under test? Then the converter hands a select to the model as a followed view.
FC11B = _finding_fixed("C11-N2", "C11_FC11B")
SELECT = "arith.select"

# Bit widths of the generated element types. One element occupies ceil(bits / 8) bytes in memory: that is what
# the byte strides of the layout (tsl.get_step_ops), the DMA and the memref lowering use. The table is the
# harness's own (it does not ask the type for its `.size`), so a wrong element size in the code under test shows.
# Sub-byte and odd widths (i1 masks, i4, i12, i20, ...) are legal memref element types and are generated too.
BITS = {"i1": 1, "i4": 4, "i7": 7, "i8": 8, "i12": 12, "i16": 16, "i20": 20, "i24": 24, "i32": 32, "i33": 33, "i64": 64,
        "f16": 16, "bf16": 16, "f32": 32, "f64": 64}
EL = {k: (b + 7) // 8 for k, b in BITS.items()}
# generator weights: whole-byte widths and the others about half each
EL_CHOICES = ["i8", "i16", "i32", "i64", "f16", "bf16", "f32", "f64", "i1", "i4", "i4", "i7", "i12", "i12", "i20", "i24", "i33"]
ERR2EXC = {
    "innerDynamic": "AssertionError", "rankMismatch": "IndexError", "zeroDiv": "ZeroDivisionError",
    "full": "RuntimeError", "notStatic": "RuntimeError", "noMemSpace": "RuntimeError", "unknownMem": "KeyError",
    "noUse": "StopIteration", "firstUseNotCast": "AssertionError", "badSolution": "KeyError",
    "solverFull": "RuntimeError", "misalignedStart": "RuntimeError", "badMode": "RuntimeError",
    "noAlignAttr": "AssertionError",
}
T1 = "!llvm.struct<(!llvm.ptr, !llvm.ptr, i32, !llvm.array<2 x i32>, !llvm.array<2 x i32>)>"
SHAPE = [16, 1]  # shape operands of every generated snax.alloc (%c16, %c1)
M = "memref<16xi8>"
VIEW_TYPES = {"mcast": "memref<?xi8>", "mscast": 'memref<16xi8, "L1">', "lcast": "memref<16xi8, #tsl.tsl<[16] -> (1)>>"}
# the property's notion of "view or cast" (harness side, independent of the list in /repo)
UCAST = "builtin.unrealized_conversion_cast"
VIEW_NAMES = {"memref.subview", "memref.cast", "memref.memory_space_cast", "memref.reinterpret_cast", "snax.layout_cast"}


# ------------------------------------------------------------------------------------------------
# size cases
# ------------------------------------------------------------------------------------------------

def layout_text(dims, offset):
    parts = []
    for t in dims:
        bs = ", ".join("?" if b is None else str(b) for _, b in t)
        ss = ", ".join("?" if s is None else str(s) for s, _ in t)
        parts.append(f"[{bs}] -> ({ss})")
    return ", ".join(parts) + (f", offset: {offset}" if offset else "")


def not_rewritten(case):
    """guards of AllocOpRewrite: memory space "L1", integer/float element type, layout none or tiled-strided"""
    return case.get("space", "L1") != "L1" or case["el"] == "index" or bool(case.get("strided"))


def memref_type_text(case):
    lay = "" if case["dims"] is None else f", #tsl.tsl<{layout_text(case['dims'], case['offset'])}>"
    if case.get("strided"):  # a builtin strided layout (row major): neither of the two layouts the pattern sizes
        st, acc = [], 1
        for n in reversed(case["tshape"]):
            st.insert(0, acc)
            acc *= n
        lay = f", strided<[{', '.join(map(str, st))}]>"
    return (f"memref<{'x'.join('?' if s is None else str(s) for s in case['tshape'])}x{case['el']}{lay}, "
            f"\"{case.get('space', 'L1')}\">")


def eval_index_ops(ops, env=None):
    """Evaluate a list of arith index ops in Z; returns the environment (SSA value -> int)."""
    from xdsl.dialects import arith
    env = {} if env is None else env
    for op in ops:
        if isinstance(op, arith.ConstantOp):
            env[op.result] = op.value.value.data
        elif isinstance(op, arith.MuliOp):
            env[op.result] = env[op.lhs] * env[op.rhs]
        elif isinstance(op, arith.AddiOp):
            env[op.result] = env[op.lhs] + env[op.rhs]
        elif isinstance(op, arith.SubiOp):
            env[op.result] = env[op.lhs] - env[op.rhs]
        elif isinstance(op, arith.DivUIOp):
            env[op.result] = env[op.lhs] // env[op.rhs]
        else:
            raise ValueError(f"unexpected op {op.name} in the layout's bound/step ops")
    return env


def layout_byte_steps(case, rt):
    """The byte strides the compiled code uses for this layout at run time: the layout attribute's own
    get_bound_ops / get_step_ops(in_bytes=True) (what the DMA and memref lowering call), built on constant
    shape operands and evaluated. Independent of how AllocOpRewrite happens to compute the size.
    Returns steps[dim][depth]."""
    from xdsl.dialects import arith, test
    from xdsl.dialects.builtin import IndexType
    from xdsl.parser import Parser
    ty = Parser(snaxrun.ctx(), memref_type_text(case)).parse_attribute()
    lay = ty.layout
    shape_ops = [arith.ConstantOp.from_int_and_width(n, IndexType()) for n in rt]
    ops1, bound_ops = lay.get_bound_ops(list(shape_ops))
    mem = test.TestOp(result_types=[ty])
    ops2, step_ops = lay.get_step_ops(bound_ops, mem.results[0], in_bytes=True)
    env = eval_index_ops(shape_ops + ops1 + ops2)
    return [[env[step_ops[(d, k)].results[0]] for k in range(len(t))] for d, t in enumerate(case["dims"][:len(rt)])]


def reference_byte_steps(dims, el, rt):
    """What the `?` steps of a tiled-strided layout MEAN (the contiguity rule of the layout, harness-side reference,
    independent of snaxc): a static step s is s*el bytes; the dynamic steps lie, innermost first and from the last
    dimension to the first, contiguously on top of the block spanned by the largest static step (first one in
    (dim, depth) order on ties): first `?` = bound*step*el of that stride (el if the layout has no static step), every
    further `?` = previous `?` step * bound of that previous stride. A dynamic outermost bound is extent // inner tile
    (the floor of the code, so that the only deviation on the unchanged tree stays the separately attributed D32)."""
    bounds = []
    for d, t in enumerate(dims[:len(rt)]):
        inner = 1
        for _, b in t:
            inner *= (b or 1)
        bounds.append([rt[d] // inner if b is None else b for _, b in t])
    flat = [(d, k) for d, t in enumerate(dims[:len(rt)]) for k in range(len(t))]
    best, best_step = None, 0
    for (d, k) in flat:
        st = dims[d][k][0]
        if st and st > best_step:
            best, best_step = (d, k), st
    run = el if best is None else bounds[best[0]][best[1]] * best_step * el
    steps = [[None] * len(t) for t in dims[:len(rt)]]
    for (d, k) in reversed(flat):
        st = dims[d][k][0]
        if st is not None:
            steps[d][k] = st * el
        else:
            steps[d][k] = run
            run = run * bounds[d][k]
    return steps


def size_src(case):
    tshape = case["tshape"]
    ndyn = sum(1 for s in tshape if s is None)
    ty = memref_type_text(case)
    lines = ["builtin.module {"]
    for i in range(ndyn):
        lines.append(f'  %d{i} = "test.op"() : () -> index')
    args = ", ".join(f"%d{i}" for i in range(ndyn))
    lines.append(f'  %0 = "memref.alloc"({args}) <{{alignment = 64 : i64, operandSegmentSizes = array<i32: {ndyn}, 0>}}> '
                 f': ({", ".join(["index"] * ndyn)}) -> {ty}')
    lines.append("}")
    return "\n".join(lines)


def interpret_size(module, dyn_values):
    """Evaluate the index arithmetic in front of the snax.alloc in ℤ. Returns dict or None (not rewritten)."""
    from snaxc.dialects import snax
    from xdsl.dialects import arith
    env = {}
    dyn = list(dyn_values)
    subs = {}
    flat = []
    for op in module.body.block.ops:
        if op.name == "test.op":
            for r in op.results:
                env[r] = dyn.pop(0)
        elif isinstance(op, arith.ConstantOp):
            env[op.result] = op.value.value.data
        elif isinstance(op, arith.MuliOp):
            env[op.result] = env[op.lhs] * env[op.rhs]
            if op.lhs in subs:
                flat.append([subs[op.lhs], env[op.rhs]])
        elif isinstance(op, arith.AddiOp):
            env[op.result] = env[op.lhs] + env[op.rhs]
        elif isinstance(op, arith.SubiOp):
            env[op.result] = env[op.lhs] - env[op.rhs]
            subs[op.result] = env[op.lhs]
        elif isinstance(op, arith.DivUIOp):
            env[op.result] = env[op.lhs] // env[op.rhs]
        elif isinstance(op, snax.Alloc):
            return {"rewritten": True, "size": env[op.size], "shapes": [env[s] for s in op.shapes], "flat": flat}
    return None


def digits(bounds, i):
    """mixed-radix digits of i w.r.t. the tile bounds, outermost digit unbounded"""
    out = []
    for k in range(len(bounds)):
        inner = 1
        for b in bounds[k + 1:]:
            inner *= b
        out.append(i // inner if k == 0 else (i % (inner * bounds[k])) // inner)
    return out


def gen_size_case(rng, big=False):
    el = rng.choice(EL_CHOICES)
    rank = rng.choice([1, 1, 2, 2, 3])
    if rng.random() < 0.12:
        tshape = [rng.choice([1, 2, 3, 5, 8, None]) for _ in range(rank)]
        rt = [s if s is not None else rng.choice([1, 2, 7]) for s in tshape]
        case = {"kind": "size", "el": el, "dims": None, "offset": 0, "tshape": tshape, "rt": rt,
                "space": rng.choice(["L1", "L1", "L1", "L3"])}
        q = rng.random()
        if q < 0.1:
            case["el"] = "index"
        elif q < 0.2 and all(n is not None for n in tshape):
            case["strided"] = True
        return case
    # deliberate family: dynamic shape, element wider than one byte, static steps that ascend in (dim, depth) order
    # with small ratios, `?` steps on top (e.g. memref<4x?xi32, [4] -> (1), [?, 4] -> (?, 4)>): the seed of the `?`
    # steps is the LAST static stride, and bytes vs elements matter when it is found
    if rng.random() < 0.1:
        el = rng.choice(["i16", "i32", "i32", "i64", "f32", "f64", "f64", "i20", "i33"])
        rank = rng.choice([2, 2, 3])
        dims, tshape, rt, cur = [], [], [], 1
        for d in range(rank - 1):
            b = rng.choice([2, 3, 4, 4, 8])
            dims.append([[cur, b]])
            tshape.append(b)
            rt.append(b)
            cur *= b * rng.choice([1, 1, 2])
        bi = rng.choice([2, 4, 4, 8])
        dims.append([[None, None], [cur, bi]])
        tshape.append(None)
        rt.append(bi * rng.choice([1, 2, 5, 10]))
        return {"kind": "size", "el": el, "dims": dims, "offset": rng.choice([0, 0, 3]), "tshape": tshape, "rt": rt, "space": "L1"}
    # deliberate family: fully static DENSE layouts (a permutation of a contiguous buffer: no gaps, no `?`) that
    # carry a non-zero layout offset -- the offset is the only thing that makes them larger than prod(shape)*el
    dense = rng.random() < 0.15
    tb = [[rng.choice([1, 2, 2, 3, 4, 8] if not big else [2, 3, 4, 8, 16]) for _ in range(rng.choice([1, 2, 2, 3]))]
          for _ in range(rank)]
    # steps: a random nesting order of all (dim, depth) positions with random gaps (never overlapping)
    pos = [(d, k) for d in range(rank) for k in range(len(tb[d]))]
    rng.shuffle(pos)
    cur = 1
    step = {}
    for (d, k) in pos:
        step[(d, k)] = cur
        cur *= tb[d][k] * (1 if dense else rng.choice([1, 1, 1, 2, 3]))
    dyn_dims = [] if dense else [d for d in range(rank) if rng.random() < 0.3]
    dims = []
    tshape = []
    rt = []
    for d in range(rank):
        inner = 1
        for b in tb[d][1:]:
            inner *= b
        if d in dyn_dims:
            outer = rng.choice([1, 2, 3, 5])
            extent = outer * inner
            if inner > 1 and rng.random() < 0.3:
                extent += rng.randrange(1, inner)  # not a multiple of the inner tile (D32)
            if rng.random() < 0.05:
                extent = rng.randrange(0, inner + 1)
            tshape.append(None)
            rt.append(extent)
        else:
            tshape.append(inner * tb[d][0])
            rt.append(inner * tb[d][0])
        t = []
        for k in range(len(tb[d])):
            s = step[(d, k)]
            # steps above a dynamic bound cannot be static in a real layout: make them `?` (mostly)
            dyn_below = any(dd in dyn_dims and step[(dd, 0)] < s for dd in range(rank))
            if not dense and ((dyn_below and rng.random() < 0.85) or rng.random() < 0.03):
                s = None
            t.append([s, None if (d in dyn_dims and k == 0) else tb[d][k]])
        dims.append(t)
    offset = rng.choice([1, 4, 5, 16, 64, 0]) if dense else rng.choice([0, 0, 0, 1, 5, 64])
    case = {"kind": "size", "el": el, "dims": dims, "offset": offset, "tshape": tshape, "rt": rt, "space": "L1"}
    if dense:
        return case
    r = rng.random()
    if r < 0.02 and rank >= 1 and len(dims[0]) > 1:
        case["dims"][0][1][1] = None  # inner dynamic bound: AssertionError
    elif r < 0.04:
        case["dims"].append([[1, 2]])  # layout has more dimensions than the memref: IndexError
    elif r < 0.06:
        case["space"] = "L3"  # not rewritten
    return case


# ------------------------------------------------------------------------------------------------
# allocation programs (static and minimalloc/auto)
# ------------------------------------------------------------------------------------------------

def mem_name(i, l1=False):
    """name of memory i of a case; with the case flag `l1` memory 0 is the space "L1" (the only one that
    DynamicAllocs rewrites)"""
    return "L1" if (l1 and i == 0) else f"M{i}"


def alloc_text(name, size_name, mem, align, l1=False):
    props = []
    if mem is not None:
        props.append(f'memory_space = "{mem_name(mem, l1) if mem >= 0 else "Nowhere"}"')
    if align is not None:
        props.append(f"alignment = {align} : i64")
    return f'%{name} = "snax.alloc"(%{size_name}, %c16, %c1) <{{{", ".join(props)}}}> : (index, index, index) -> {T1}'


def render_ops(ops, types, ind, lines, l1=False):
    """ops: list of op descriptions (see gen_body); types: value name -> MLIR type (mutated)."""
    pad = "  " * ind
    for op in ops:
        k = op[0]
        if k == "malloc":
            # front end "memref": a memref.alloc with a layout, sized by the real memref-to-snax + canonicalize
            _, n, lay, align = op
            ty = memref_type_text(lay)
            dyn = [i for i, x in enumerate(lay["tshape"]) if x is None]
            for i in dyn:
                lines.append(f'{pad}%md{n}_{i} = "test.op"() : () -> index')
            al = "" if align is None else f"alignment = {align} : i64, "
            lines.append(f'{pad}%m{n} = "memref.alloc"({", ".join(f"%md{n}_{i}" for i in dyn)}) <{{{al}operandSegmentSizes = '
                         f'array<i32: {len(dyn)}, 0>}}> : ({", ".join(["index"] * len(dyn))}) -> {ty}')
            types[f"m{n}"] = ty
        elif k == "alloc":
            _, n, mem, size, align = op
            if size is None:
                lines.append(f'{pad}%s{n} = "test.op"() : () -> index')
            elif size != "arg":
                lines.append(f"{pad}%s{n} = arith.constant {size} : index")
            # size "arg": the size operand is the function argument %n (a block argument, no OpResult)
            lines.append(pad + alloc_text(f"a{n}", "n" if size == "arg" else f"s{n}", mem, align, l1))
            types[f"a{n}"] = T1
        elif k == "cast":
            _, v, src = op
            lines.append(f'{pad}%v{v} = "{UCAST}"(%{src}) : ({types[src]}) -> {M}')
            types[f"v{v}"] = M
        elif k == "sel":
            # double buffering: arith.select between two buffers of the same type
            _, v, a, b = op
            lines.append(f'{pad}%selc{v} = "test.op"() : () -> i1')
            lines.append(f'{pad}%v{v} = "arith.select"(%selc{v}, %{a}, %{b}) : (i1, {M}, {M}) -> {M}')
            types[f"v{v}"] = M
        elif k == "view":
            _, v, kind, src = op
            if kind == "subview":
                lines.append(f'{pad}%v{v} = "memref.subview"(%{src}) <{{static_offsets = array<i64: 0>, static_sizes = array<i64: 16>, '
                             f'static_strides = array<i64: 1>, operandSegmentSizes = array<i32: 1, 0, 0, 0>}}> : ({M}) -> {M}')
                types[f"v{v}"] = M
            else:
                opname = {"mcast": "memref.cast", "mscast": "memref.memory_space_cast", "lcast": "snax.layout_cast"}[kind]
                lines.append(f'{pad}%v{v} = "{opname}"(%{src}) : ({types[src]}) -> {VIEW_TYPES[kind]}')
                types[f"v{v}"] = VIEW_TYPES[kind]
        elif k == "use":
            srcs = op[1]
            lines.append(f'{pad}"test.op"({", ".join("%" + s for s in srcs)}) : ({", ".join(types[s] for s in srcs)}) -> ()')
        elif k == "for" and len(op) == 4:
            # loop that carries a buffer: iter_arg initialised with op[2], the terminator scf.yield forwards op[3]
            n = len(lines)
            lines.append(f'{pad}%r{n} = "scf.for"(%c0, %c16, %c1, %{op[2]}) ({{')
            lines.append(f"{pad}^bb{ind}(%i{n} : index, %acc{n} : {M}):")
            render_ops(op[1], types, ind + 1, lines, l1)
            lines.append(f'{pad}  "scf.yield"(%{op[3]}) : ({M}) -> ()')
            lines.append(f"{pad}}}) : (index, index, index, {M}) -> {M}")
        elif k == "for":
            lines.append(f'{pad}"scf.for"(%c0, %c16, %c1) ({{')
            lines.append(f"{pad}^bb{ind}(%i{len(lines)} : index):")
            render_ops(op[1], types, ind + 1, lines, l1)
            lines.append(f'{pad}  "scf.yield"() : () -> ()')
            lines.append(f"{pad}}}) : (index, index, index) -> ()")
        elif k == "if" and len(op) == 5:
            # conditional with a result: the terminators scf.yield forward the buffers op[3] / op[4]
            n = len(lines)
            lines.append(f'{pad}%cond{n} = "test.op"() : () -> i1')
            lines.append(f'{pad}%r{n} = "scf.if"(%cond{n}) ({{')
            render_ops(op[1], types, ind + 1, lines, l1)
            lines.append(f'{pad}  "scf.yield"(%{op[3]}) : ({M}) -> ()')
            lines.append(f"{pad}}}, {{")
            render_ops(op[2], types, ind + 1, lines, l1)
            lines.append(f'{pad}  "scf.yield"(%{op[4]}) : ({M}) -> ()')
            lines.append(f"{pad}}}) : (i1) -> {M}")
        elif k == "if":
            lines.append(f'{pad}%cond{len(lines)} = "test.op"() : () -> i1')
            lines.append(f'{pad}"scf.if"(%cond{len(lines) - 1}) ({{')
            render_ops(op[1], types, ind + 1, lines, l1)
            lines.append(f'{pad}  "scf.yield"() : () -> ()')
            lines.append(f"{pad}}}, {{")
            render_ops(op[2], types, ind + 1, lines, l1)
            lines.append(f'{pad}  "scf.yield"() : () -> ()')
            lines.append(f"{pad}}}) : (i1) -> ()")
        else:
            raise ValueError(k)


def prog_src(case):
    body = case["body"]
    ret = []
    if body and body[-1][0] == "ret":  # the function returns buffers: the terminator func.return uses them
        ret, body = body[-1][1], body[:-1]
    lines = ["    %c0 = arith.constant 0 : index", "    %c1 = arith.constant 1 : index", "    %c16 = arith.constant 16 : index"]
    types = {}
    render_ops(body, types, 2, lines, bool(case.get("l1")))
    if case.get("blocks", 1) == 2:
        # a function body with two blocks: MiniMallocate returns without doing anything
        lines += ['    "cf.br"() [^tail] : () -> ()', "  ^tail:"]
    rtypes = ", ".join(types[v] for v in ret)
    if ret:
        lines.append(f'    func.return {", ".join("%" + v for v in ret)} : {rtypes}')
    else:
        lines.append("    func.return")
    sig = f"(%n : index){' -> (' + rtypes + ')' if ret else ''} {{"
    fn = lambda name: [f"  func.func public @{name}{sig}"] + lines + ["  }"]  # noqa: E731
    # case flag "twin": the function under observation (@f) is the SECOND function of its module, behind a copy of
    # itself: anything the pass keeps from one function to the next (or from one pass run to the next) shows
    return "\n".join(["builtin.module {"] + (fn("g") if case.get("twin") else []) + fn("f") + ["}"])


def gen_body(rng, mems, mode, big=False, l1=False):
    """A structured random function body: top-level allocs, first-level casts, chains of views, uses at
    any nesting depth, loops and conditionals. Returns the op list."""
    counter = itertools.count()
    allocs = itertools.count()
    malformed = rng.random() < 0.1
    body = []
    visible = []  # stack of lists of (name, kind) with kind in {"M", other type tag}

    def pick(scope_vals, want=None):
        vals = [v for v in scope_vals if want is None or v[1] in want]
        return rng.choice(vals) if vals else None

    def gen_block(depth, scope, n):
        ops = []
        local = list(scope)
        for _ in range(n):
            r = rng.random()
            if (depth == 0 and r < 0.28) or (depth > 0 and r < 0.08):  # nested allocs: static mode places them, MiniMallocate ignores them
                k = next(allocs)
                mem = rng.randrange(len(mems))
                size = rng.choice([1, 8, 16, 16, 24, 40, 64])
                align = rng.choice([1, 2, 4, 8, 8, 16, 64, 3, 10])
                if malformed:
                    q = rng.random()
                    if q < 0.15:
                        mem = None
                    elif q < 0.3:
                        mem = -1
                    elif q < 0.45:
                        size = rng.choice([None, None, "arg"])  # not a constant / not even an op result
                    elif q < 0.7 and mode == "static":
                        align = rng.choice([None, 0])
                    elif q < 0.6:
                        align = None  # minimalloc: alignment 0 goes to the solver; dynamic: AssertionError
                elif mode in ("auto", "dynamic") and rng.random() < 0.12:
                    size = rng.choice([None, "arg"])  # runtime-sized buffers are what the dynamic path is for
                ops.append(["alloc", k, mem, size, align])
                if malformed and rng.random() < 0.15:
                    continue  # alloc without cast
                v = next(counter)
                ops.append(["cast", v, f"a{k}"])
                local.append((f"v{v}", "M"))
                if malformed and rng.random() < 0.15:
                    ops.append(["use", [f"a{k}"]])  # the struct itself is used again: first use is not the cast
            elif r < 0.5:
                src = pick(local)
                if src is None:
                    continue
                v = next(counter)
                other = pick(local, {"M"})
                if src[1] == "M" and other is not None and rng.random() < 0.12:
                    ops.append(["sel", v, src[0], other[0]])  # what pipeline-duplicate-buffers emits for double buffering
                    local.append((f"v{v}", "M"))
                    continue
                if src[1] == "M":
                    kind = rng.choice(["subview", "subview", "subview", "mcast", "mscast", "lcast", "ucast2"])
                else:
                    kind = "ucast2"
                if kind == "ucast2":
                    ops.append(["cast", v, src[0]])
                    local.append((f"v{v}", "M"))
                else:
                    ops.append(["view", v, kind, src[0]])
                    local.append((f"v{v}", "M" if kind == "subview" else kind))
            elif r < 0.85 or depth >= 2:
                k = rng.choice([1, 1, 1, 2, 3])
                srcs = [pick(local) for _ in range(k)]
                srcs = [s[0] for s in srcs if s is not None]
                if srcs:
                    ops.append(["use", srcs])
            elif r < 0.93:
                inner = gen_block(depth + 1, local, rng.randint(1, 3))
                a, b = pick(local, {"M"}), pick(local, {"M"})
                if a is not None and rng.random() < 0.35:
                    ops.append(["for", inner, a[0], b[0]])  # the loop carries a buffer, scf.yield forwards one
                else:
                    ops.append(["for", inner])
            else:
                t, e = gen_block(depth + 1, local, rng.randint(0, 2)), gen_block(depth + 1, local, rng.randint(0, 2))
                a, b = pick(local, {"M"}), pick(local, {"M"})
                if a is not None and rng.random() < 0.35:
                    ops.append(["if", t, e, a[0], b[0]])  # the conditional yields a buffer from either branch
                else:
                    ops.append(["if", t, e])
        if depth == 0:
            # make the tail busy: late uses of early values are what lifetimes are about
            for _ in range(rng.randint(0, 3)):
                s = pick(local)
                if s is not None:
                    ops.append(["use", [s[0]]])
            # deliberate family: lifetimes that end at a terminator -- the function returns buffers (or casts / views)
            # whose last ordinary use lies before later allocations
            if local and rng.random() < 0.3:
                early = local[:max(1, len(local) // 2)]
                rets = [rng.choice(early)[0]] + ([rng.choice(local)[0]] if rng.random() < 0.4 else [])
                ops.append(["ret", rets])
        return ops

    body = gen_block(0, [], rng.randint(3, 28 if big else 14))
    return body


def walk_allocs(ops):
    """the alloc descriptions of a body in walk (pre-)order"""
    for op in ops:
        if op[0] == "alloc":
            yield op
        elif op[0] == "for":
            yield from walk_allocs(op[1])
        elif op[0] == "if":
            yield from walk_allocs(op[1])
            yield from walk_allocs(op[2])
        # ("ret" and the yielded values of for/if define nothing)


def walk_mallocs(ops):
    """the memref.alloc descriptions of a body (front end "memref") in walk order"""
    for op in ops:
        if op[0] == "malloc":
            yield op
        elif op[0] == "for":
            yield from walk_mallocs(op[1])
        elif op[0] == "if":
            yield from walk_mallocs(op[1])
            yield from walk_mallocs(op[2])


def front_size_reqs(case):
    """Lean size requests for the memref.allocs of a front-end "memref" case, in walk order"""
    if case.get("front") != "memref":
        return []
    reqs = []
    for _, _, lay, _ in walk_mallocs(case["body"]):
        if lay["dims"] is None:
            reqs.append({"fn": "c11.size_nolayout", "args": {"el": EL[lay["el"]], "shape": lay["rt"]}})
        else:
            reqs.append({"fn": "c11.size", "args": {"dims": lay["dims"], "offset": lay["offset"], "el": EL[lay["el"]],
                                                    "shape": lay["rt"]}})
    return reqs


def expected_shapes(case, n):
    """shape operands that the memref descriptors must carry, per alloc in walk order"""
    if case.get("front") == "memref":
        return [["dyn" if x is None else x for x in op[2]["tshape"]] for op in walk_mallocs(case["body"])]
    return [SHAPE] * n


def tighten_mems(rng, mems, body):
    """Deliberate family "nearly full memory": the capacity of every memory becomes what a bump allocation of the
    body needs, give or take a few bytes, so that the last buffers fit exactly, only without their alignment
    padding, or not at all (generator-side arithmetic only; nothing of it reaches model or oracle)."""
    cur = [start for start, _ in mems]
    for _, _, mem, size, align in walk_allocs(body):
        if isinstance(mem, int) and 0 <= mem < len(mems) and isinstance(size, int):
            a = align if isinstance(align, int) and align > 0 else 1
            cur[mem] = (cur[mem] + a - 1) // a * a + size
    return [[start, max(1, cur[i] - start + rng.choice([-9, -4, -2, -1, 0, 0, 0, 1, 3, 8]))] for i, (start, _) in enumerate(mems)]


def gen_front_body(rng, big=False):
    """Front end "memref": memref.allocs with random static layouts (occasionally a dynamic shape, a missing
    alignment), uses at top level and in loops, returned buffers. The sizes come from the real memref-to-snax."""
    n = itertools.count()
    live = []
    body = []

    def lay():
        for _ in range(50):
            c = gen_size_case(rng)
            if c["space"] == "L1" and c["el"] != "index" and not c.get("strided") and len(c["tshape"]) == (
                    len(c["dims"]) if c["dims"] is not None else len(c["tshape"])) and all(
                    b is not None or k == 0 for t in (c["dims"] or []) for k, (_, b) in enumerate(t)):
                total = 1
                for x in c["rt"]:
                    total *= max(1, x)
                if total <= 4096 and (rng.random() < 0.06 or all(x is not None for x in c["tshape"])):
                    return c
        return {"kind": "size", "el": "i8", "dims": None, "offset": 0, "tshape": [16], "rt": [16], "space": "L1"}

    for _ in range(rng.randint(3, 12 if big else 8)):
        r = rng.random()
        if r < 0.45 or not live:
            k = next(n)
            body.append(["malloc", k, lay(), rng.choice([None, 1, 8, 64, 64])])
            live.append(f"m{k}")
        elif r < 0.85:
            body.append(["use", [rng.choice(live) for _ in range(rng.choice([1, 1, 2]))]])
        else:
            body.append(["for", [["use", [rng.choice(live)]] for _ in range(rng.randint(1, 2))]])
    for _ in range(rng.randint(0, 2)):
        body.append(["use", [rng.choice(live)]])
    used = {v for op in body if op[0] == "use" for v in op[1]} | {v for op in body if op[0] == "for" for u in op[1] for v in u[1]}
    for v in live:
        if v not in used and rng.random() < 0.9:  # (an unused buffer loses its cast in canonicalize: MiniMallocate raises)
            body.append(["use", [v]])
    if rng.random() < 0.25:
        body.append(["ret", [rng.choice(live)]])
    return body


def gen_mems(rng):
    n = rng.choice([1, 1, 2])
    mems = []
    base = rng.choice([0, 0, 4, 64, 1000, 0x10000000, 0x7FFFFF00, 0x80000000, 12])
    if FC11A and rng.random() < 0.8:
        # with FC11a MiniMallocate refuses a memory whose start is not a multiple of an alignment: keep most
        # starts aligned so that the placement itself stays exercised (the rest exercises the refusal)
        base = rng.choice([0, 64, 960, 0x10000000, 0x7FFFFF00 // 64 * 64, 0x80000000])
    for i in range(n):
        cap = rng.choice([48, 100, 128, 256, 1000, 65536])
        mems.append([base, cap])
        base += cap + rng.choice([0, 8, 4096])
    return mems


def build_ir(case):
    """Parse the case into real xDSL IR with the case's memories registered. Returns (ctx, module, func)."""
    from snaxc.util.snax_memory import SnaxMemory
    from xdsl.dialects import func
    from xdsl.dialects.builtin import StringAttr
    from xdsl.parser import Parser
    from snaxc.tools.configs import SnaxMemoryConfig
    ctx = snaxrun.fresh_ctx()
    for i, (start, cap) in enumerate(case["mems"]):
        name = mem_name(i, bool(case.get("l1")))
        if (i + len(case["mems"])) % 2 == 0:  # also through the constructor the hardware configs use
            ctx.register_memory(SnaxMemory.from_config(SnaxMemoryConfig(name=name, start=start, size=cap)))
        else:
            ctx.register_memory(SnaxMemory(StringAttr(name), cap, start))
    module = Parser(ctx, prog_src(case)).parse_module()
    if case.get("front") == "memref":
        # the neighbouring passes of the real pipeline: memref-to-snax computes the sizes, canonicalize folds them
        from snaxc.transforms.memref_to_snax import MemrefToSNAX
        from xdsl.transforms.canonicalize import CanonicalizePass
        MemrefToSNAX().apply(ctx, module)
        CanonicalizePass().apply(ctx, module)
    f = next(op for op in module.body.block.ops if isinstance(op, func.FuncOp) and op.sym_name.data == "f")
    return ctx, module, f


def number_values(f):
    ids = {}
    for op in f.walk():
        for r in op.results:
            ids[r] = len(ids)
        for reg in op.regions:
            for blk in reg.blocks:
                for a in blk.args:
                    ids[a] = len(ids)
    return ids


def mem_index(alloc):
    ms = alloc.memory_space
    if ms is None:
        return None
    name = ms.data
    if name == "L1":
        return 0  # only generated with the case flag `l1`: memory 0
    return int(name[1:]) if name.startswith("M") and name[1:].isdigit() else 10 ** 6  # unregistered


def req_of(alloc):
    from xdsl.dialects import arith
    from xdsl.ir import OpResult
    size = None
    if isinstance(alloc.size, OpResult) and isinstance(alloc.size.op, arith.ConstantOp):
        size = alloc.size.op.value.value.data
    align = 0 if alloc.alignment is None else alloc.alignment.value.data
    return [mem_index(alloc), size, align]


def node_kind(op):
    if op.name == UCAST:
        return "ucast"
    if op.name in VIEW_NAMES:
        return "view"
    if op.name == SELECT and any(str(o.type).startswith("memref") for o in op.operands):
        return "view" if FC11B else "sel"  # the code follows it only with FC11b
    return "other"


def to_prog(f, ids):
    """Model AST of the function body (see Model/Alloc.lean TopOp)."""
    from snaxc.dialects import snax
    from xdsl.traits import IsTerminator
    prog = []
    for op in f.body.block.ops:
        if isinstance(op, snax.Alloc):
            first = next(iter(op.result.uses), None)
            if first is None:
                fu = None
            elif first.operation.name != UCAST:
                fu = "notcast"
            else:
                fu = ids[first.operation.results[0]]
            prog.append(["alloc", ids[op.result], req_of(op), fu])
        else:
            nodes = [[node_kind(o), [ids[x] for x in o.operands], [ids[r] for r in o.results]] for o in op.walk()]
            prog.append(["op", nodes, bool(op.has_trait(IsTerminator))])
    return prog


class _Capture:
    items = []
    installed = False


def install_capture():
    import minimalloc
    if _Capture.installed:
        return
    orig = minimalloc.Problem.solve

    def solve(self):
        rec = {"bufs": [(b.id, b.start_time, b.end_time, b.size, b.alignment) for b in self.buffers],
               "cap": self.capacity, "sol": None}
        _Capture.items.append(rec)
        res = orig(self)
        rec["sol"] = list(res)
        return res

    minimalloc.Problem.solve = solve
    _Capture.installed = True


def alias_uses(f, alloc, ids, follow_select=True):
    """Oracle side: own transitive walk through casts, views and (the property's full notion of "the buffer is
    still used") arith.select between buffers. Returns (all top-level use indices, those the pinned commit tracks,
    set of alias value ids)."""
    top_index = {op: i for i, op in enumerate(f.body.block.ops)}

    def top_of(op):
        while op is not None and op.parent_op() is not f:
            op = op.parent_op()
        return top_index.get(op, -1)  # -1: a user in another function (twin module, static mode)

    tops_all, tops_orig, aliases = [], [], set()
    work = [(alloc.result, 0)]
    seen = set()
    while work:
        val, lvl = work.pop()
        if val in seen:
            continue
        seen.add(val)
        aliases.add(ids.get(val, -1))
        for use in val.uses:
            o = use.operation
            tops_all.append(top_of(o))
            if lvl == 0 or lvl == 1:
                tops_orig.append(top_of(o))
            if o.name == UCAST or o.name in VIEW_NAMES or (follow_select and o.name == SELECT):
                for r in o.results:
                    # pinned commit: follows only an unrealized cast directly on the alloc result
                    nl = 1 if (lvl == 0 and o.name == UCAST and r is o.results[0]) else 2
                    work.append((r, nl))
    return tops_all, tops_orig, aliases


def contract_ok(bufs, cap, sol):
    """bufs: [(start, end, size, align)], half-open lifespans"""
    if sol is None or len(sol) != len(bufs):
        return False
    for (s, e, sz, al), o in zip(bufs, sol):
        if (al and o % al) or o + sz > cap:
            return False
    for i in range(len(bufs)):
        for j in range(i + 1, len(bufs)):
            (s1, e1, z1, _), (s2, e2, z2, _) = bufs[i], bufs[j]
            if max(s1, s2) < min(e1, e2) and not (sol[i] + z1 <= sol[j] or sol[j] + z2 <= sol[i]):
                return False
    return True


# ------------------------------------------------------------------------------------------------

class C11(Prop):
    id = "C11"
    PARALLEL = True
    exhaustive_thorough = True
    trusted_base = [
        "modelled: memref_to_snax.AllocOpRewrite + tsl.get_bound_ops/get_step_ops(in_bytes); snax_allocate.StaticAllocs, "
        "MiniMallocate (with fix F12), mode dispatch, allocs_are_static, DynamicAllocs (which allocs become runtime calls), "
        "create_memref_struct (Model/Alloc.lean)",
        "the emitted index arithmetic is interpreted in Z by harness/props/c11.py (no 32/64-bit wrap-around)",
        "external solver `minimalloc` (absent here): for the real package the contract stays a hypothesis (SolverContract); the "
        "pass runs here with the first-fit stand-in of harness/compat.py, whose Lean model firstFit is PROVED to satisfy the "
        "contract and to terminate and is tied to the stand-in by equal emitted addresses on every case; the stand-in's answers "
        "are additionally checked against the contract in Python by the oracle",
    ]
    assumptions = [
        "a layout covers its shape on dimensions with a static outermost bound (clause Covers = property C09, defect D22)",
        "aliasing of a buffer arises only through unrealized_conversion_cast, memref.subview/cast/memory_space_cast/"
        "reinterpret_cast and snax.layout_cast; memrefs passed through block arguments, calls, expand/collapse_shape are not followed",
        "MiniMallocate places each function separately: buffers of different functions may share addresses (outside the property text)",
        "alignment 0 handed to a real external solver (alloc without alignment attribute in minimalloc mode) is outside the "
        "contract; the first-fit stand-in and its model treat it as 1",
        "runtime allocation (mode dynamic / auto with a non-constant size): only which allocs become snax_alloc_l1(size, alignment) "
        "calls and how the descriptor is built is modelled; what the runtime allocator returns is outside the property",
        "a function body with more than one block is left unallocated by MiniMallocate (modelled as a no-op, not a violation)",
        "one element of an integer/float type of width w occupies ceil(w / 8) bytes (the convention of the layout's byte strides, "
        "the DMA and xDSL's FixedBitwidthType.size); sub-byte packing and power-of-two padding (i20 in 4 bytes) are not considered",
    ]
    rule = ("size: random TSL layouts (rank<=3, depth<=3, gaps, offsets, dynamic outer bounds/steps) and no-layout memrefs, "
            "a deliberate family of fully static dense layouts with a non-zero offset; element types of whole-byte, sub-byte and odd widths (i1 i4 i7 i12 i20 i24 i33 ...; footprint ceil(bits/8)); "
            "a deliberate family of nearly full memories (capacity = what the body needs +-9 bytes); static/mini: random functions with allocs, casts, view chains, nested uses, 1-2 memories (optionally the space L1), modes "
            "static/minimalloc/auto/dynamic/unsupported, non-constant and block-argument sizes, missing alignments, two-block bodies; non-trivial = layout with "
            "gap/dynamic dim, or >=2 placed buffers; distinct by canonical JSON")

    # -- generators -----------------------------------------------------------------------------
    def cases(self, rng, tier):
        quick = tier == "quick"
        n_size = 260 if quick else 6000
        n_static = 120 if quick else 2500
        n_mini = 340 if quick else 6000
        for _ in range(n_size):
            yield gen_size_case(rng, big=not quick and rng.random() < 0.3)
        for _ in range(n_static):
            mems = gen_mems(rng)
            body = gen_body(rng, mems, "static", big=not quick)
            if rng.random() < 0.45:
                mems = tighten_mems(rng, mems, body)
            c = {"kind": "static", "mode": "static", "mems": mems, "body": body}
            if rng.random() < 0.2:
                c["twin"] = True  # two functions: the bump pointers run on through the module
            yield c
        for _ in range(50 if quick else 1500):
            # the real pipeline order: memref-to-snax, canonicalize, snax-allocate on memref.allocs with layouts
            mode = rng.choice(["static", "minimalloc", "minimalloc", "auto"])
            start = rng.choice([0, 64, 0x10000000, 4096])
            yield {"kind": "static" if mode == "static" else "mini", "mode": mode, "front": "memref", "l1": True,
                   "mems": [[start, rng.choice([512, 4096, 65536, 65536])]], "body": gen_front_body(rng, big=not quick)}
        for _ in range(n_mini):
            mems = gen_mems(rng)
            mode = rng.choice(["minimalloc"] * 10 + ["auto"] * 6 + ["dynamic"] * 3 + ["bogus"])
            case = {"kind": "mini", "mode": mode, "mems": mems}
            if rng.random() < (0.7 if mode in ("auto", "dynamic") else 0.15):
                case["l1"] = True  # memory 0 is the space "L1", the only one DynamicAllocs rewrites
            if mode in ("minimalloc", "auto") and rng.random() < 0.04:
                case["blocks"] = 2
            case["body"] = gen_body(rng, mems, mode, big=not quick)
            if rng.random() < 0.2 and case.get("blocks", 1) == 1:
                case["twin"] = True  # observed as the second function of a two-function module
            if rng.random() < 0.15:
                case["mems"] = tighten_mems(rng, mems, case["body"])  # the solver at the edge of the capacity
            yield case
        if not quick:
            yield from self.exhaustive_small()

    def exhaustive_small(self):
        """Named small space: one-dimensional layouts of depth <= 2 with bounds in {1,2,3,?} x {1,2,3}, steps in {1,2,4,6},
        runtime extents 1..7, i8/i32/i4/i12 (all 4 x 4 x 3 x 16 x 7 combinations, plus depth 1)."""
        for el in ["i8", "i32", "i4", "i12"]:
            for b0 in [1, 2, 3, None]:
                for s0 in [1, 2, 4, 6]:
                    for n in range(1, 8):
                        if b0 is None or b0 == n:
                            yield {"kind": "size", "el": el, "dims": [[[s0, b0]]], "offset": 0,
                                   "tshape": [None if b0 is None else b0], "rt": [n], "space": "L1"}
                    for b1 in [1, 2, 3]:
                        for s1 in [1, 2, 4, 6]:
                            for n in range(1, 8):
                                if b0 is None or b0 * b1 == n:
                                    yield {"kind": "size", "el": el, "dims": [[[s0, b0], [s1, b1]]], "offset": 0,
                                           "tshape": [None if b0 is None else b0 * b1], "rt": [n], "space": "L1"}

    # -- real code ------------------------------------------------------------------------------
    def impl(self, case):
        if case["kind"] == "size":
            out = snaxrun.run_passes(size_src(case), "memref-to-snax")
            dyn = [r for s, r in zip(case["tshape"], case["rt"]) if s is None]
            res = interpret_size(snaxrun.parse(out), dyn)
            return res if res is not None else {"rewritten": False}
        return self.impl_prog(case)

    def impl_prog(self, case):
        from snaxc.dialects import snax
        from snaxc.transforms.snax_allocate import SnaxAllocatePass
        from xdsl.dialects import func, llvm, memref
        install_capture()
        ctx, module, f = build_ir(case)
        ids = number_values(f)
        orig_ops = list(f.body.blocks[0].ops)
        orig_index = {op: i for i, op in enumerate(orig_ops)}
        # static mode keeps one bump pointer per memory for the whole module: with a twin the module is observed
        root = module if (case.get("twin") and case["mode"] == "static") else f
        all_allocs = [op for op in root.walk() if isinstance(op, snax.Alloc)]
        alloc_sizes = [a.size for a in all_allocs]
        alloc_aligns = [None if a.alignment is None else a.alignment.value.data for a in all_allocs]
        top_allocs = [op for op in orig_ops if isinstance(op, snax.Alloc)]
        walk_reqs = [req_of(a) for a in (all_allocs if case["mode"] == "static" else top_allocs)]
        hash2idx = {str(hash(op)): orig_index[op] for op in top_allocs}
        idx2mem = {orig_index[op]: mem_index(op) for op in top_allocs}
        _Capture.items = []
        SnaxAllocatePass(mode=case["mode"]).apply(ctx, module)
        # DynamicAllocs (mode dynamic, or auto with a non-constant size) rewrites the allocs in memory "L1" into
        # calls of snax_alloc_l1(size, alignment) and leaves the others in place
        calls = [op for op in f.walk() if isinstance(op, func.CallOp)]
        n_calls = len(calls)
        call_no = {c: i for i, c in enumerate(calls)}
        dyn = []
        if calls:
            it = iter(calls)
            for a, sz, al in zip(all_allocs, alloc_sizes, alloc_aligns):
                if a.parent_op() is not None:  # still in the IR: left alone
                    dyn.append(None)
                else:
                    c = next(it)
                    dyn.append([c.arguments[1].owner.value.value.data, c.arguments[0] is sz])
        addrs = []
        descr = []
        for op in root.walk():
            if isinstance(op, llvm.IntToPtrOp):
                addrs.append(op.input.owner.value.value.data % 2 ** 32)  # i32 bit pattern read as an unsigned address
        # descriptors: follow the insertvalue chain of every struct that feeds a cast / use
        for op in root.walk():
            if isinstance(op, llvm.UndefOp):
                fields = {}
                cur = op.res
                while True:
                    nxt = [u.operation for u in cur.uses if isinstance(u.operation, llvm.InsertValueOp) and u.index == 0]
                    if not nxt:
                        break
                    iv = nxt[0]
                    fields[tuple(iv.position.get_values())] = iv.value
                    cur = iv.res

                def cst(v):
                    o = v.owner
                    if isinstance(o, llvm.IntToPtrOp):
                        return cst(o.input) % 2 ** 32
                    if o.name == UCAST:
                        return cst(o.operands[0])
                    if isinstance(o, llvm.ExtractValueOp):
                        # pointer k of the pair that the runtime allocator call number i returns
                        ld = o.container.owner
                        return ["ret", call_no[ld.ptr.owner], list(o.position.get_values())[0]]
                    if not hasattr(o, "value"):
                        return "dyn"  # a runtime extent
                    return o.value.value.data
                descr.append([cst(fields[(0,)]), cst(fields[(1,)]), cst(fields[(2,)]),
                              [cst(fields[k]) for k in sorted(k for k in fields if k[0] == 3)]])
        placed = [[r[0], a, r[1], r[2]] for r, a in zip(walk_reqs, addrs)]
        out = {"placed": placed, "descr": descr, "leftover_allocs": sum(1 for op in root.walk() if isinstance(op, snax.Alloc)),
               "runtime_alloc_calls": n_calls, "dyn": dyn}
        if case["mode"] == "static":
            return out
        bufs = []
        mine = [rec for rec in _Capture.items if all(b[0] in hash2idx for b in rec["bufs"])]  # problems of @f only
        for rec in mine:
            for (bid, s, e, sz, al) in rec["bufs"]:
                bufs.append([s, e, sz, al, idx2mem[hash2idx[bid]]])
        bufs.sort()
        deallocs = []
        cur_top = -1
        alloc_iter = iter(orig_index[a] for a in top_allocs)
        for op in f.body.blocks[0].ops:
            if op in orig_index:
                cur_top = orig_index[op]
            elif isinstance(op, llvm.IntToPtrOp):
                cur_top = next(alloc_iter)
            elif isinstance(op, memref.DeallocOp):
                deallocs.append([ids[op.memref], cur_top])
        out["bufs"] = bufs
        out["deallocs"] = sorted(deallocs)
        out["problems"] = [{"bufs": [list(b[1:]) for b in rec["bufs"]], "cap": rec["cap"], "sol": rec["sol"]}
                           for rec in mine]
        return out

    # -- model ----------------------------------------------------------------------------------
    def __init__(self):
        self._cache = {}

    def requests(self, case):
        if case["kind"] == "size":
            if not_rewritten(case):
                return []
            if case["dims"] is None:
                return [{"fn": "c11.size_nolayout", "args": {"el": EL[case["el"]], "shape": case["rt"]}}]
            return [{"fn": "c11.size", "args": {"dims": case["dims"], "offset": case["offset"], "el": EL[case["el"]],
                                                "shape": case["rt"]}}]
        from snaxc.dialects import snax
        ctx, module, f = build_ir(case)
        ids = number_values(f)
        key = canon_json(case)
        root = module if (case.get("twin") and case["mode"] == "static") else f
        all_allocs = [op for op in root.walk() if isinstance(op, snax.Alloc)]
        info = {"n_allocs": len(all_allocs)}
        self._cache[key] = info
        if case["kind"] == "static":
            reqs = [req_of(a) for a in all_allocs]
            return [{"fn": "c11.static", "args": {"mems": case["mems"], "reqs": reqs}},
                    {"fn": "c11.descr", "args": {"addr": 0, "shape": SHAPE}}] + front_size_reqs(case)
        n_blocks = len(f.body.blocks)
        prog = to_prog(f, ids) if n_blocks == 1 else []  # MiniMallocate is a no-op on a multi-block body
        base = {"mode": VIEWMODE, "mems": case["mems"], "prog": prog}
        auto_req = {"fn": "c11.select", "args": {"mode": case["mode"], "sizes": [req_of(a)[1] for a in all_allocs],
                                                 "blocks": n_blocks}}
        dyn_req = {"fn": "c11.dynamic", "args": {"allocs": [
            [a.memory_space is not None and a.memory_space.data == "L1",
             None if a.alignment is None else a.alignment.value.data] for a in all_allocs]}}
        import minimalloc
        if not hasattr(minimalloc, "__file__"):
            # the solver is the first-fit stand-in of harness/compat.py: the model side is the closed Lean function
            # miniMallocateFF (lifetimes + proved first-fit solver + placement); equal addresses tie the stub to it
            return [{"fn": "c11.miniff", "args": dict(base, checked=FC11A)}, auto_req,
                    {"fn": "c11.descr", "args": {"addr": 0, "shape": SHAPE}}, dyn_req] + front_size_reqs(case)
        # a real `minimalloc` package: the solver stays a parameter (FC11a is not modelled on this path).
        # phase 1: everything before the solver is called; then the (external) solver; then placement
        (a1,) = leandrv.run_batch([{"fn": "c11.lifetimes", "args": base}])
        sol = [[] for _ in case["mems"]]
        if "ok" in a1 and "error" not in a1["ok"]:
            bufs = a1["ok"]["bufs"]
            for m, (start, cap) in enumerate(case["mems"]):
                sub = [minimalloc.Buffer(str(i), b[0], b[1], b[2], b[3]) for i, b in enumerate(bufs) if b[4] == m]
                if not sub:
                    continue
                try:
                    pr = minimalloc.Problem(sub, cap)
                    n0 = len(_Capture.items)
                    sol[m] = list(pr.solve())
                    del _Capture.items[n0:]
                except Exception as e:  # the solver refuses (capacity): the pass propagates the exception
                    info["solver_raised"] = type(e).__name__
                    break
        return [{"fn": "c11.mini", "args": dict(base, sol=sol)}, auto_req,
                {"fn": "c11.descr", "args": {"addr": 0, "shape": SHAPE}}, dyn_req] + front_size_reqs(case)

    def model(self, case, answers):
        if case["kind"] == "size":
            if not_rewritten(case):
                return {"rewritten": False}
            a = answers[0]
            if "err" in a:
                return {"model_error": a["err"]}
            r = a["ok"]
            if case["dims"] is None:
                return {"rewritten": True, "size": r, "shapes": case["rt"], "flat": []}
            if "error" in r:
                return {"raised": ERR2EXC.get(r["error"], "model:" + r["error"])}
            flat = [[b, s] for bs, ss in zip(r["bounds"], r["steps"]) for b, s in zip(bs, ss)]
            return {"rewritten": True, "size": r["size"], "shapes": case["rt"][:len(case["tshape"])], "flat": flat}
        info = self._cache.pop(canon_json(case), {})
        for a in answers:
            if "err" in a:
                return {"model_error": a["err"]}
        if case["kind"] == "static":
            r = answers[0]["ok"]
            if isinstance(r, dict) and "error" in r:
                return {"raised": ERR2EXC.get(r["error"], "model:" + r["error"])}
            d = answers[1]["ok"]
            shp = expected_shapes(case, len(r))
            out = {"placed": r, "descr": [[p[1] + d[0], p[1] + d[1], d[2], sh] for p, sh in zip(r, shp)], "leftover_allocs": 0,
                   "runtime_alloc_calls": 0, "dyn": []}
            return self.check_front_sizes(case, answers[2:], out, [p[2] for p in r])
        r, sel, d, dyn = answers[0]["ok"], answers[1]["ok"], answers[2]["ok"], answers[3]["ok"]
        if isinstance(sel, dict):  # unsupported allocation strategy
            return {"raised": ERR2EXC.get(sel["error"], "model:" + sel["error"])}
        if sel == "noop":  # MiniMallocate on a body that is not a single block
            return {"placed": [], "descr": [], "leftover_allocs": info.get("n_allocs", 0), "runtime_alloc_calls": 0,
                    "dyn": [], "bufs": [], "deallocs": []}
        if sel == "dynamic":
            # DynamicAllocs: allocs in "L1" become calls of the runtime allocator, the others are left alone
            if isinstance(dyn, dict):
                return {"raised": ERR2EXC.get(dyn["error"], "model:" + dyn["error"])}
            ncall = sum(1 for x in dyn if x is not None)
            cshapes = [sh for x, sh in zip(dyn, expected_shapes(case, len(dyn))) if x is not None]
            return {"placed": [], "descr": [[["ret", i, 0], ["ret", i, 1], 0, cshapes[i]] for i in range(ncall)],
                    "leftover_allocs": len(dyn) - ncall, "runtime_alloc_calls": ncall,
                    "dyn": ([None if x is None else [x, True] for x in dyn] if ncall else []), "bufs": [], "deallocs": []}
        if "solver_raised" in info:
            return {"raised": info["solver_raised"]}
        if "error" in r:
            return {"raised": ERR2EXC.get(r["error"], "model:" + r["error"])}
        out = {"placed": r["placed"], "descr": [[p[1] + d[0], p[1] + d[1], d[2], d[3]] for p in r["placed"]],
               "leftover_allocs": info.get("n_allocs", 0) - len(r["placed"]), "runtime_alloc_calls": 0, "dyn": [],
               "bufs": sorted(b[:5] for b in r["bufs"]), "deallocs": sorted(r["deallocs"])}
        if "contract" in r and not all(r["contract"]):
            out["contract_violated_by_solver"] = r["contract"]
        if r.get("wellord") is False:
            out["program_not_in_ssa_order"] = True  # hypothesis WellOrd of lifetimes_closed (checked by wellOrdB)
        shp = expected_shapes(case, len(r["placed"]))
        out["descr"] = [[p[1] + d[0], p[1] + d[1], d[2], sh] for p, sh in zip(r["placed"], shp)]
        return self.check_front_sizes(case, answers[4:], out, [p[2] for p in r["placed"]])

    def check_front_sizes(self, case, size_answers, out, placed_sizes):
        """front end "memref": the constant that memref-to-snax + canonicalize leave as the size operand of every
        snax.alloc must be the size the Lean model computes for the layout (ties the neighbouring passes to allocSize)"""
        if case.get("front") != "memref":
            return out
        want = []
        for a in size_answers:
            r = a.get("ok")
            want.append(r["size"] if isinstance(r, dict) and "size" in r else r)
        if want[:len(placed_sizes)] != placed_sizes:
            out["sizes_after_memref_to_snax_and_canonicalize"] = placed_sizes
            out["sizes_of_the_model"] = want
        return out

    def compare(self, case, impl_out, model_out):
        a = dict(impl_out) if isinstance(impl_out, dict) else impl_out
        b = dict(model_out) if isinstance(model_out, dict) else model_out
        if isinstance(a, dict):
            a.pop("msg", None)
            a.pop("problems", None)
        if canon_json(a) == canon_json(b):
            return None
        return "impl and model outputs differ"

    # -- the property on the real code ----------------------------------------------------------
    def oracle(self, case, impl_out):
        if not isinstance(impl_out, dict) or "raised" in impl_out:
            return []  # refusing to allocate is not a violation
        if case["kind"] == "size":
            return self.oracle_size(case, impl_out)
        return self.oracle_prog(case, impl_out)

    def oracle_size(self, case, out):
        if not out.get("rewritten"):
            return []
        el = EL[case["el"]]
        rt = case["rt"][:len(case["tshape"])]
        size = out["size"]
        total = 1
        for n in rt:
            total *= n
        if total == 0:
            return []
        if total <= 20000:
            pts = itertools.product(*[range(n) for n in rt])
        else:
            rng = random.Random(total)
            pts = [tuple(n - 1 for n in rt)] + [tuple(rng.randrange(n) for n in rt) for _ in range(5000)]
        if case["dims"] is None:
            worst = None
            for idx in [tuple(n - 1 for n in rt)]:
                lin = 0
                for i, n in zip(idx, rt):
                    lin = lin * n + i
                if el * lin + el > size:
                    worst = (idx, el * lin + el)
            return [] if worst is None else [{"what": f"no-layout memref: element {worst[0]} ends at byte {worst[1]} > size {size}",
                                              "finding": None}]
        dims = case["dims"]
        # byte strides as the layout's own step ops compute them at run time (not taken from the IR that
        # AllocOpRewrite emitted: the size may be computed by any chain of ops, or be a single constant);
        # tile bounds as declared; for static layouts additionally the repo's own affine map of the layout
        steps = layout_byte_steps(case, rt)
        # ... and as the contiguity rule of the layout defines them (own reference): the size must hold the footprint
        # under BOTH, so a wrong step helper cannot vouch for a size that was computed with it
        ref_steps = reference_byte_steps(dims, el, rt)
        decl = [[b for _, b in t] for t in dims[:len(rt)]]
        amap = None
        if all(s is not None and b is not None for t in dims for s, b in t) and len(dims) == len(rt):
            from snaxc.dialects.tsl import TiledStridedLayoutAttr
            from snaxc.ir.tsl import Stride, TiledStride, TiledStridedLayout
            lay = TiledStridedLayoutAttr(TiledStridedLayout([TiledStride([Stride(s, b) for s, b in t]) for t in dims],
                                                            offset=case["offset"]))
            amap = lay.get_affine_map()
        # indices below floor(extent / inner tile) * inner tile in every dynamic dimension: there the floored
        # outermost bound covers the index, so a violation cannot be blamed on D32
        covered = []
        for d, t in enumerate(dims[:len(rt)]):
            inner = 1
            for _, b in t[1:]:
                inner *= (b or 1)
            covered.append((rt[d] // inner) * inner if (t and t[0][1] is None) else rt[d])
        worst = None
        worst_inside = None
        for idx in pts:
            addr = 0
            raddr = 0
            for d, i in enumerate(idx):
                bs = [1 if b is None else b for b in decl[d]]
                dgs = digits(bs, i)
                for dg, st, rst in zip(dgs, steps[d], ref_steps[d]):
                    addr += dg * st
                    raddr += dg * rst
            if amap is not None:
                a2 = amap.eval(list(idx), [])[0] * el
                if a2 != addr:
                    return [{"what": f"address of {idx}: the layout's step ops give byte {addr}, its affine map {a2}", "finding": None}]
            end = case["offset"] * el + max(addr, raddr) + el
            if end > size and (worst is None or end > worst[1]):
                worst = (idx, end)
            if end > size and worst_inside is None and all(i < c for i, c in zip(idx, covered)):
                worst_inside = (idx, end)
        if worst is None:
            return []
        # attribute to D32 only if every violating index lies in the part of a dynamic dimension that the
        # floored outermost bound does not cover
        d32 = worst_inside is None
        if worst_inside is not None:
            worst = worst_inside
        return [{"what": f"element {list(worst[0])} of runtime shape {rt} ends at byte {worst[1]} but only {size} bytes are allocated "
                         f"(layout {layout_text(dims, case['offset'])}, {case['el']})", "finding": "D32" if d32 else None}]

    def oracle_prog(self, case, out):
        from snaxc.dialects import snax
        res = []
        for i, e in enumerate(out.get("dyn") or []):
            if e is not None and not e[1]:
                res.append({"what": f"runtime allocation {i}: snax_alloc_l1 is not called with the size operand of the snax.alloc",
                            "finding": None})
        if (case["mode"] in ("auto", "dynamic") or case.get("blocks", 1) != 1) and not out["placed"]:
            return res  # nothing was placed statically (runtime allocation, no top-level alloc, or a multi-block body)
        mems = case["mems"]
        ctx, module, f = build_ir(case)
        ids = number_values(f)
        ops = list(f.body.block.ops)
        static = case["mode"] == "static"
        root = module if (static and case.get("twin")) else f
        allocs = [op for op in (root.walk() if static else ops) if isinstance(op, snax.Alloc)]
        placed = out["placed"]
        if len(placed) != len(allocs):
            return [{"what": f"{len(allocs)} allocations but {len(placed)} address constants", "finding": None}]
        if out.get("leftover_allocs") and static:
            res.append({"what": "snax.alloc left in the IR after static allocation", "finding": None})
        info = []
        for a, (mem, addr, size, align) in zip(allocs, placed):
            start, cap = mems[mem]
            if not (start <= addr and addr + size <= start + cap):
                res.append({"what": f"buffer [{addr}, {addr + size}) outside the window [{start}, {start + cap}] of memory {mem}",
                            "finding": None})
            if align and addr % align:
                n1 = (not static) and start % align != 0 and (addr - start) % align == 0
                res.append({"what": f"address {addr} is not a multiple of the alignment {align} (memory start {start})",
                            "finding": "C11-N1" if n1 else None})
            tops_all, tops_orig, aliases = alias_uses(f, a, ids)
            tops_nosel = alias_uses(f, a, ids, follow_select=False)[0]
            top = -1  # (an alloc of the twin function @g in static mode: only its address range matters)
            o = a
            while o is not None and o.parent_op() is not f:
                o = o.parent_op()
            if o is not None:
                top = ops.index(o)
            info.append({"mem": mem, "addr": addr, "size": size, "s": top, "all": tops_all, "orig": tops_orig, "aliases": aliases,
                         "nosel": tops_nosel})
        shapes = expected_shapes(case, len(placed))
        if case.get("front") == "memref":
            # the bytes that the layout of every memref.alloc really touches must fit the size it was placed with
            for (_, n, lay, _), (mem, addr, size, align) in zip(walk_mallocs(case["body"]), placed):
                for v in self.oracle_size(lay, {"rewritten": True, "size": size}):
                    res.append({"what": f"buffer {n} placed at {addr}: " + v["what"], "finding": v["finding"]})
        for d, (mem, a2, s2, al2), sh in zip(out["descr"], [(p[0], p[1], p[2], p[3]) for p in placed], shapes):
            if d != [a2, a2, 0, sh]:
                res.append({"what": f"memref descriptor {d} for a buffer at {a2} with shape {sh}", "finding": None})
        for i in range(len(info)):
            for j in range(len(info)):
                A, B = info[i], info[j]
                if i == j or A["mem"] != B["mem"] or not (A["s"] < B["s"] or (static and i < j)):
                    continue
                overlap = not (A["addr"] + A["size"] <= B["addr"] or B["addr"] + B["size"] <= A["addr"])
                if not overlap:
                    continue
                if static:
                    res.append({"what": f"static mode: buffers {i} [{A['addr']},+{A['size']}) and {j} [{B['addr']},+{B['size']}) overlap",
                                "finding": None})
                    continue
                live_a = [t for t in A["all"] if t >= B["s"]]
                live_b = [t for t in B["all"] if t >= B["s"]]
                if live_a and live_b:
                    only_views = not [t for t in A["orig"] if t >= B["s"]]
                    only_sel = not [t for t in A["nosel"] if t >= B["s"]]
                    res.append({"what": f"buffer {i} (alloc at op {A['s']}, [{A['addr']},+{A['size']})) is still used at op {max(live_a)} ({ops[max(live_a)].name}) "
                                        f"but buffer {j} (alloc at op {B['s']}) got [{B['addr']},+{B['size']})"
                                        + (" — the late use is through an arith.select of the buffer" if only_sel else
                                           " — the late use is through a view / second-level cast" if only_views else ""),
                                "finding": "C11-N2" if only_sel else "D13" if only_views else None})
        for val, after in out.get("deallocs", []):
            owner = [x for x in info if val in x["aliases"]]
            if not owner:
                res.append({"what": f"memref.dealloc of value {val} which is no buffer", "finding": None})
                continue
            A = owner[0]
            late = [t for t in A["all"] if t > after]
            if late:
                only_views = not [t for t in A["orig"] if t > after]
                only_sel = not [t for t in A["nosel"] if t > after]
                res.append({"what": f"memref.dealloc of the buffer allocated at op {A['s']} is inserted after op {after} but it is used at op {max(late)}"
                                    + (" through an arith.select of the buffer" if only_sel else ""),
                            "finding": "C11-N2" if only_sel else "D13" if only_views else None})
        for pr in out.get("problems", []):
            if not contract_ok(pr["bufs"], pr["cap"], pr["sol"]):
                res.append({"what": f"the solver's answer {pr['sol']} violates the assumed contract on {pr['bufs']} (stub defect)", "finding": None})
        return res

    # -- bookkeeping ----------------------------------------------------------------------------
    def nontrivial(self, case, impl_out):
        if not isinstance(impl_out, dict) or "raised" in impl_out:
            return False
        if case["kind"] == "size":
            return bool(impl_out.get("rewritten")) and case["dims"] is not None and len(impl_out.get("flat", [])) >= 2
        return len(impl_out.get("placed", [])) >= 2

    def stats_key(self, case, impl_out):
        k = case["kind"] + (":" + case["mode"] if "mode" in case else "") + (":pipeline" if case.get("front") else "") + (
            ":twin" if case.get("twin") else "")
        if isinstance(impl_out, dict) and "raised" in impl_out:
            return f"{k}:raised:{impl_out['raised']}"
        if case["kind"] == "size":
            if case["dims"] is None:
                return k + ":nolayout"
            if any(s is None for s in case["tshape"]):
                return k + ":dynamic"
            span = 1 + sum((b - 1) * st for t in case["dims"] for st, b in t if st is not None and b is not None)
            total = 1
            for n in case["tshape"]:
                total *= n
            fully_static = all(st is not None and b is not None for t in case["dims"] for st, b in t)
            return k + (":static-dense-offset" if fully_static and span == total and case["offset"] else ":static")
        if case.get("blocks", 1) != 1:
            k += ":multiblock"
        if impl_out.get("runtime_alloc_calls"):
            return k + ":runtime-alloc-calls"
        if case["mode"] in ("auto", "dynamic") and impl_out.get("leftover_allocs") and not impl_out.get("placed"):
            return k + ":nothing-placed"
        reuse = len({(p[0], p[1]) for p in impl_out.get("placed", [])}) < len(impl_out.get("placed", []))
        return k + (":address-reused" if reuse else "")

    def shrink(self, case):
        if case["kind"] == "size":
            if case["dims"] is None:
                return
            for d in range(len(case["dims"])):
                if len(case["dims"]) > 1 and len(case["tshape"]) == len(case["dims"]):
                    yield dict(case, dims=case["dims"][:d] + case["dims"][d + 1:], tshape=case["tshape"][:d] + case["tshape"][d + 1:],
                               rt=case["rt"][:d] + case["rt"][d + 1:])
            if case["offset"]:
                yield dict(case, offset=0)
            if case["el"] != "i8":
                yield dict(case, el="i8")
            return
        body = case["body"]

        def defined(op):
            if op[0] == "malloc":
                return {f"m{op[1]}"}
            if op[0] == "alloc":
                return {f"a{op[1]}"}
            if op[0] in ("cast", "view", "sel"):
                return {f"v{op[1]}"}
            return set()

        def used(ops):
            u = set()
            for op in ops:
                if op[0] == "cast":
                    u.add(op[2])
                elif op[0] == "view":
                    u.add(op[3])
                elif op[0] == "sel":
                    u.update(op[2:4])
                elif op[0] == "use":
                    u.update(op[1])
                elif op[0] == "for":
                    u |= used(op[1]) | set(op[2:])
                elif op[0] == "if":
                    u |= used(op[1]) | used(op[2]) | set(op[3:])
                elif op[0] == "ret":
                    u.update(op[1])
            return u

        for i in range(len(body)):
            rest = body[:i] + body[i + 1:]
            if not (defined(body[i]) & used(rest)):
                yield dict(case, body=rest)
        for i, op in enumerate(body):
            if op[0] == "for":
                yield dict(case, body=body[:i] + op[1] + body[i + 1:])
                if len(op) == 4:
                    yield dict(case, body=body[:i] + [op[:2]] + body[i + 1:])
            if op[0] == "if":
                yield dict(case, body=body[:i] + op[1] + op[2] + body[i + 1:])
                if len(op) == 5:
                    yield dict(case, body=body[:i] + [op[:3]] + body[i + 1:])
            if op[0] == "ret" and len(op[1]) > 1:
                yield dict(case, body=body[:i] + [["ret", op[1][:1]]] + body[i + 1:])
                yield dict(case, body=body[:i] + [["ret", op[1][1:]]] + body[i + 1:])
        if len(case["mems"]) > 1 and not any(op[0] == "alloc" and op[2] not in (0, None, -1) for op in body):
            yield dict(case, mems=case["mems"][:1])


PROP = C11()
