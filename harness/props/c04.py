"""C04 — CSR lowering writes every field to its declared register.

Case kinds
  regmap : an accelerator class x streamer configuration; real `generate_acc_op()` vs Model/RegMap.lean
  lower  : an accfg program (after the real accfg-trace-states/dedup/overlap) x declared accelerators; real
           `convert-accfg-to-csr` vs Model/CsrLower.lean `lowerBlock`, compared as structured IR
  rocc   : a RoCC (gemmini-style) program; real `lower_acc_setup/lower_acc_launch` per op vs `roccSetup/roccLaunch`
           (the inferred previous state is computed by the real `infer_state_of` and passed to the model as data)
Oracle (model independent): distinct addresses / name agreement on the real maps; both IR levels executed on
abstract machines (field-indexed vs address-indexed / instruction-indexed) and compared event by event and at
every launch.
"""
import hashlib
import itertools
import random

import compat  # noqa: F401
import snaxrun
from framework import Prop, canon_json

# --------------------------------------------------------------------------------------------------
# configurations -> real accelerator objects
# --------------------------------------------------------------------------------------------------
REG_OPTS = ["remap", "cmask", "bcast", "transp"]
XDMA_OPTS = ["maxpool", "add", "addlong", "rescale_down", "rescale_up", "cmask", "memset", "transp", "bmask"]


def _opt(name):
    from snaxc.accelerators.streamers import streamers as S
    from snaxc.accelerators.streamers import extensions as E
    from snaxc.accelerators.streamers.extensions.add_extension import AddLongExtension
    return {
        "remap": S.HasAddressRemap, "cmask": S.HasChannelMask, "bmask": S.HasByteMask, "bcast": S.HasBroadcast,
        "transp": E.TransposeExtension, "maxpool": E.MaxPoolExtension, "add": E.AddExtension,
        "addlong": AddLongExtension, "rescale_down": E.RescaleDownExtension, "rescale_up": E.RescaleUpExtension,
        "memset": E.MemSetExtension,
    }[name]()


def build_streamers(cfg):
    from snaxc.accelerators.streamers.streamers import Streamer, StreamerType
    return [Streamer(StreamerType.Reader if t == "r" else StreamerType.Writer, list(td), list(sd), [_opt(o) for o in opts])
            for (t, td, sd, opts) in cfg]


class _FakePE:
    """Duck-typed stand-in for phs.PEOp: SNAXPHSAccelerator.__init__ only reads the symbol name and the switch count."""

    def __init__(self, name, sw):
        from xdsl.dialects.builtin import StringAttr
        self.properties = {"sym_name": StringAttr(name)}
        self._sw = sw

    def get_true_switches(self):
        return self._sw


class _FakeSpec:
    def __init__(self, sc):
        self._sc = sc

    def get_streamer_config(self):
        return self._sc


def build_acc(a):
    """a = {"acc": kind, "cfg": [...], "n": .., "m": .., "k": .., "sw": ..} -> real accelerator object"""
    from snaxc.accelerators.streamers.streamers import StreamerConfiguration, StreamerSystemType
    kind = a["acc"]
    if kind == "hwpe":
        from snaxc.accelerators.snax_hwpe_mult import SNAXHWPEMultAccelerator
        return SNAXHWPEMultAccelerator()
    if kind == "gemmini":
        from snaxc.accelerators.gemmini import GemminiAccelerator
        return GemminiAccelerator()
    sts = build_streamers(a["cfg"])
    if kind == "alu":
        from snaxc.accelerators.snax_alu import SNAXAluAccelerator
        return SNAXAluAccelerator(StreamerConfiguration(sts))
    if kind == "gemmx":
        from snaxc.accelerators.snax_gemmx import SNAXGEMMXAccelerator
        return SNAXGEMMXAccelerator(StreamerConfiguration(sts), a["m"], a["n"], a["k"])
    if kind == "xdma":
        from snaxc.accelerators.snax_xdma import SNAXXDMAAccelerator
        return SNAXXDMAAccelerator(StreamerConfiguration(sts, StreamerSystemType.DmaExt))
    if kind == "phs":
        from snaxc.accelerators.snax_phs import SNAXPHSAccelerator
        return SNAXPHSAccelerator(_FakePE("snax_phs_pe", a["sw"]), _FakeSpec(StreamerConfiguration(sts)))
    raise ValueError(kind)


def lean_cfg(a):
    """the configuration as Model/RegMap.lean's `Streamer` records (flags computed with the real isinstance tests)"""
    from snaxc.accelerators.streamers import streamers as S
    from snaxc.accelerators.streamers.extensions import TransposeExtension
    from snaxc.accelerators.streamers.extensions.streamer_extension import StreamerExtension
    out = []
    for st in build_streamers(a.get("cfg", [])):
        def has(c):
            return any(isinstance(o, c) for o in st.opts)
        out.append([st.temporal_dim, st.spatial_dim, has(S.HasAddressRemap), has(S.HasChannelMask), has(S.HasByteMask),
                    has(S.HasBroadcast), has(TransposeExtension),
                    [[o.name, o.csr_length] for o in st.opts if isinstance(o, StreamerExtension)]])
    return out


def acc_op_tables(op):
    f = [[k, v.value.data] for k, v in op.field_items()]
    l = [[k, v.value.data] for k, v in op.launch_field_items()]
    return f, l, op.barrier.value.data


def gen_cfg(rng, xdma=False, nmax=3):
    cfg = []
    ns = 2 if xdma else rng.randint(1, nmax)
    for _ in range(ns):
        td = [rng.choice("nir") for _ in range(rng.randint(1, 6))]
        sd = [rng.choice([2, 4, 8]) for _ in range(rng.randint(0 if rng.random() < 0.1 else 1, 2))]
        pool = XDMA_OPTS if xdma else REG_OPTS
        opts = [o for o in pool if rng.random() < 0.5]
        if rng.random() < 0.15:
            rng.shuffle(opts)
        cfg.append([rng.choice("rw"), td, sd, opts])
    return cfg


def gen_acc(rng, kinds=("alu", "gemmx", "xdma", "phs", "hwpe")):
    kind = rng.choice(kinds)
    a = {"acc": kind}
    if kind in ("alu", "gemmx", "phs"):
        a["cfg"] = gen_cfg(rng)
    if kind == "xdma":
        a["cfg"] = gen_cfg(rng, xdma=True)
    if kind == "gemmx":
        a.update(m=rng.randint(1, 16), n=rng.randint(1, 16), k=rng.randint(1, 16))
    if kind == "phs":
        a["sw"] = rng.randint(0, 8)
    return a


# --------------------------------------------------------------------------------------------------
# program generator (accfg level, MLIR text)
# --------------------------------------------------------------------------------------------------
ARGS = ["%x", "%y", "%z"]
FUNC_HEAD = ("func.func private @g() -> ()\n"
             "func.func @f(%x : i32, %y : i32, %z : i32, %c0 : i1, %c1 : i1, %lb : index, %ub : index, %st : index) {\n"
             "  %lv = arith.constant 1 : i5\n  %lw = arith.constant 0 : i5\n")


class ProgGen:
    def __init__(self, rng, accs, vtype="i32", pairs=False, carry=False):
        # accs: list of (name, [field names used], [launch field names]); pairs: RoCC style, a setup configures
        # whole instructions (both .rs1 and .rs2), as every accfg producer in the compiler does
        self.r = rng
        self.accs = accs
        self.n = 0
        self.vtype = vtype
        self.pairs = pairs
        self.carry = carry

    def fresh(self, p="v"):
        self.n += 1
        return f"%{p}{self.n}"

    def setup_launch(self, vals, ind, force=()):
        """force: values that must be configured by this setup (results of a preceding loop / conditional)"""
        name, fields, lfields = self.r.choice(self.accs)
        st = f'!accfg.state<"{name}">'
        tk = f'!accfg.token<"{name}">'
        k = self.r.randint(1, min(len(fields), 4)) if self.r.random() < 0.7 else len(fields)
        fs = self.r.sample(fields, k) if self.r.random() < 0.5 else fields[:k]
        if self.pairs:
            ins = sorted({f[:-4] for f in fs})
            fs = [f for f in fields if f[:-4] in ins]
        out = []
        s = self.fresh("s")
        params = []
        force = list(force)
        if force:
            fs = (fs + [f for f in fields if f not in fs])[:max(len(fs), min(len(fields), len(force)))]
        for f in fs:
            if force:
                params.append(f'"{f}" = {force.pop(0)} : {self.vtype}')
            elif self.r.random() < 0.12:
                params.append(f'"{f}" = {self.r.choice(["%lb", "%ub", "%st"])} : index')
            else:
                params.append(f'"{f}" = {self.r.choice(vals)} : {self.vtype}')
        out.append(f'{ind}{s} = accfg.setup "{name}" to ({", ".join(params)}) : {st}')
        if self.r.random() < 0.85:
            t = self.fresh("t")
            lfields = list(lfields)
            if len(lfields) > 1 and self.r.random() < 0.4:
                self.r.shuffle(lfields)      # param_names need not follow the declaration order
            lvs = [self.r.choice(["%lv", "%lv", "%lw"]) for _ in lfields]
            if len(lfields) > 1 and self.r.random() < 0.5:
                lvs[0], lvs[1] = "%lv", "%lw"
            names = ", ".join(f'"{f}"' for f in lfields)
            tys = ", ".join(["i5"] * len(lfields) + [st])
            out.append(f'{ind}{t} = "accfg.launch"({", ".join(lvs + [s])}) <{{param_names = [{names}], '
                       f'accelerator = "{name}"}}> : ({tys}) -> {tk}')
            out.append(f'{ind}"accfg.await"({t}) : ({tk}) -> ()')
        return out

    def block(self, vals, depth, ind, nst):
        return self.block_v(vals, depth, ind, nst)[0]

    def carried_if(self, vals, depth, ind):
        """scf.if with 1..3 data results of the value type, used by a setup right after it"""
        n = self.r.choice([1, 2, 2, 3])
        res = [self.fresh("q") for _ in range(n)]
        tys = ", ".join([self.vtype] * n)
        out = [f'{ind}{", ".join(res)} = scf.if {self.r.choice(["%c0", "%c1"])} -> ({tys}) {{']
        for last in (False, True):
            body, bv = self.block_v(vals, depth - 1, ind + "  ", self.r.randint(0, 3))
            out += body
            out.append(f'{ind}  scf.yield {", ".join(self.r.choice(bv) for _ in range(n))} : {tys}')
            out.append(f"{ind}}}" if last else f"{ind}}} else {{")
        return out, res

    def carried_for(self, vals, depth, ind):
        """scf.for walking 1..3 values of the value type next to whatever state the tracer adds"""
        n = self.r.choice([1, 2, 2, 3])
        res = [self.fresh("r") for _ in range(n)]
        args = [self.fresh("a") for _ in range(n)]
        inits = self.r.sample(vals, n) if len(vals) >= n and self.r.random() < 0.8 else [self.r.choice(vals) for _ in range(n)]
        tys = ", ".join([self.vtype] * n)
        i = self.fresh("i")
        ii = self.fresh()
        out = [f'{ind}{", ".join(res)} = scf.for {i} = %lb to %ub step %st iter_args('
               + ", ".join(f"{a} = {v}" for a, v in zip(args, inits)) + f") -> ({tys}) {{",
               f"{ind}  {ii} = arith.index_cast {i} : index to {self.vtype}"]
        nxt = []
        for a in args:
            v = self.fresh()
            out.append(f"{ind}  {v} = arith.addi {a}, {self.r.choice(vals + [ii] + args)} : {self.vtype}")
            nxt.append(v)
        body, bv = self.block_v(vals + [ii] + args + nxt, depth - 1, ind + "  ", self.r.randint(1, 3))
        out += body
        ys = [v if self.r.random() < 0.8 else self.r.choice(bv) for v in nxt]
        out.append(f'{ind}  scf.yield {", ".join(ys)} : {tys}')
        out.append(f"{ind}}}")
        return out, res

    def block_v(self, vals, depth, ind, nst):
        """-> (lines, values defined at the top level of the block, usable by its terminator)"""
        out = []
        vals = list(vals)
        for _ in range(nst):
            k = self.r.random()
            if self.carry and depth > 0 and k < 0.22:
                lines, res = (self.carried_for if k < 0.12 else self.carried_if)(vals, depth, ind)
                out += lines
                vals += res
                if self.r.random() < 0.8:
                    out += self.setup_launch(vals, ind, force=res)
            elif k < 0.5:
                out += self.setup_launch(vals, ind)
            elif k < 0.58:
                v = self.fresh()
                a, b = self.r.choice(vals), self.r.choice(vals)
                out.append(f"{ind}{v} = arith.addi {a}, {b} : {self.vtype}")
                vals.append(v)
            elif k < 0.64:
                out.append(f"{ind}func.call @g() : () -> ()")
            elif k < 0.68:
                out.append(f'{ind}func.call @g() {{"accfg.effects" = #accfg.effects<none>}} : () -> ()')
            elif k < 0.84 and depth > 0:
                c = self.r.choice(["%c0", "%c1"])
                out.append(f"{ind}scf.if {c} {{")
                out += self.block(vals, depth - 1, ind + "  ", self.r.randint(0, 3))
                out.append(f"{ind}}} else {{")
                out += self.block(vals, depth - 1, ind + "  ", self.r.randint(0, 2))
                out.append(f"{ind}}}")
            elif depth > 0:
                i = self.fresh("i")
                ii = self.fresh()
                out.append(f"{ind}scf.for {i} = %lb to %ub step %st {{")
                out.append(f"{ind}  {ii} = arith.index_cast {i} : index to {self.vtype}")
                out += self.block(vals + [ii], depth - 1, ind + "  ", self.r.randint(1, 4))
                out.append(f"{ind}}}")
        return out, vals

    def program(self):
        body = self.block(ARGS, 2, "  ", self.r.randint(2, 5))
        head = FUNC_HEAD if self.vtype == "i32" else FUNC_HEAD.replace("%x : i32, %y : i32, %z : i32", "%x : i64, %y : i64, %z : i64")
        return head + "\n".join(body) + "\n  func.return\n}\n"


def carries_state_and_data(mlir):
    """some scf.for / scf.if of the program carries the accelerator state next to >= 2 data results"""
    import re
    for ln in mlir.split("\n"):
        if "scf.for" in ln or "scf.if" in ln:
            m = re.search(r"-> \((.*)\) \{", ln)
            if m and "!accfg.state" in m.group(1) and len(re.findall(r"\bi(32|64)\b", m.group(1))) >= 2:
                return True
    return False


def decl_text(name, fields, launch, barrier):
    def d(items):
        return ", ".join(f'"{k}" = {v} : i32' for k, v in items)
    return (f'"accfg.accelerator"() <{{name = @{name}, fields = {{{d(fields)}}}, launch_fields = {{{d(launch)}}}, '
            f'barrier = {barrier} : i32}}> : () -> ()\n')


ACC_NAME = {"alu": "snax_alu", "gemmx": "snax_gemmx", "hwpe": "snax_hwpe_mult", "xdma": "snax_xdma", "phs": "snax_phs_pe",
            "gemmini": "gemmini"}
STYLE = {"alu": "poll3", "gemmx": "poll3", "xdma": "poll3", "phs": "poll3", "hwpe": "poll1"}


# --------------------------------------------------------------------------------------------------
# IR <-> model JSON
# --------------------------------------------------------------------------------------------------
class ConvError(Exception):
    pass


def h32(s):
    return int(hashlib.sha1(s.encode()).hexdigest()[:7], 16)


def _is_state(t):
    from snaxc.dialects import accfg
    return isinstance(t, accfg.StateType)


def _is_tok(t):
    from snaxc.dialects import accfg
    return isinstance(t, accfg.TokenType)


def name_values(module):
    """give every unnamed SSA value a deterministic name hint (walk order); returns the set of data value names"""
    data = set()
    n = 0
    seen = set()

    def visit(v):
        nonlocal n
        if v.name_hint is None or v.name_hint in seen:
            n += 1
            v.name_hint = f"u{n}x"
        seen.add(v.name_hint)
        if not (_is_state(v.type) or _is_tok(v.type)):
            data.add(v.name_hint)
    for op in module.walk():
        for r in op.results:
            visit(r)
        for reg in op.regions:
            for b in reg.blocks:
                for a in b.args:
                    visit(a)
    return data


def var_id(v, data):
    if v.name_hint is None or v.name_hint not in data:
        raise ConvError(f"operand without a known data name: {v.name_hint}")
    return h32("v:" + v.name_hint)


def op_sig(op, data):
    ops = [var_id(o, data) for o in op.operands if not (_is_state(o.type) or _is_tok(o.type))]
    res = [(r.name_hint if r.name_hint in data else "?", str(r.type)) for r in op.results if not (_is_state(r.type) or _is_tok(r.type))]
    props = sorted((k, str(v)) for k, v in op.properties.items() if k != "operandSegmentSizes")
    attrs = sorted((k, str(v)) for k, v in op.attributes.items())
    return h32(repr((op.name, ops, res, props, attrs)))


def ctl_tag(op, data):
    """tag of an scf.for / scf.if: the op and its control operands (bounds+step / condition); results, iter
    operands and yields are described positionally by the slots"""
    from xdsl.dialects import scf
    ctl = (op.lb, op.ub, op.step) if isinstance(op, scf.ForOp) else (op.cond,)
    return h32(repr((op.name, [var_id(v, data) for v in ctl])))


def _term(block):
    from xdsl.dialects import scf
    y = block.last_op
    if not isinstance(y, scf.YieldOp):
        raise ConvError("region does not end in scf.yield")
    return y


def _slots(cols, data):
    """cols: per position the tuple of values that must agree on being state / data"""
    out = []
    for vs in cols:
        st = [_is_state(v.type) for v in vs]
        if any(_is_tok(v.type) for v in vs):
            raise ConvError("token carried through control flow")
        if all(st):
            out.append(["s"])
        elif not any(st):
            out.append(["d"] + [var_id(v, data) for v in vs])
        else:
            raise ConvError("state and data mixed in one carried position")
    return out


def for_slots(op, data):
    y = _term(op.body.block)
    n = len(op.results)
    if not (len(op.iter_args) == len(y.operands) == len(op.body.block.args) - 1 == n):
        raise ConvError("scf.for: results / iter_args / block arguments / yield differ in length")
    return _slots(list(zip(op.results, op.body.block.args[1:], op.iter_args, y.operands)), data)


def if_slots(op, data):
    if not op.results and not op.false_region.blocks:
        if _term(op.true_region.block).operands:
            raise ConvError("scf.if: yield without results")
        return []
    yt, ye = _term(op.true_region.block), _term(op.false_region.block)
    if not (len(yt.operands) == len(ye.operands) == len(op.results)):
        raise ConvError("scf.if: results / yields differ in length")
    return _slots(list(zip(op.results, yt.operands, ye.operands)), data)


def n_state(op):
    n = sum(1 for o in op.operands if _is_state(o.type)) + sum(1 for r in op.results if _is_state(r.type))
    for reg in op.regions:
        for b in reg.blocks:
            n += sum(1 for a in b.args if _is_state(a.type))
    return n


def pure_rec(op):
    """side-effect free in xDSL's own sense once the state plumbing is ignored: region-free ops by
    `is_side_effect_free`, scf.if / scf.for when everything nested is.  The greedy driver of the pass erases such
    ops when they are dead, so they are left out of the compared structure on both sides (their preservation is
    checked by executing the IR in the oracle)."""
    from xdsl.dialects import scf
    from xdsl.traits import IsTerminator, is_side_effect_free
    if op.name.startswith("accfg."):
        return False
    if isinstance(op, (scf.IfOp, scf.ForOp)):
        return all(pure_rec(o) or o.has_trait(IsTerminator) for r in op.regions for b in r.blocks for o in b.ops)
    if op.regions:
        return False
    if op.has_trait(IsTerminator):
        return False
    return is_side_effect_free(op)


def src_block(block, data, body=False):
    from snaxc.dialects import accfg
    from xdsl.dialects import builtin, scf
    out = []
    ops = list(block.ops)
    if body:
        _term(block)
        ops = ops[:-1]      # the terminating scf.yield is described by the slots of the parent
    for op in ops:
        if pure_rec(op):
            continue
        if isinstance(op, accfg.SetupOp) and op.accelerator.data in _RACC:
            from snaxc.inference.trace_acc_state import infer_state_of
            prev = None
            if op.in_state is not None:
                prev = [[k, var_id(v, data)] for k, v in infer_state_of(op.in_state).items()]
            out.append(["setupr", op.accelerator.data, [[n, var_id(v, data)] for n, v in op.iter_params()], prev])
        elif isinstance(op, accfg.LaunchOp) and op.accelerator.data in _RACC:
            out.append(["launchr", op.accelerator.data, [[n, var_id(v, data)] for n, v in op.iter_params()]])
        elif isinstance(op, accfg.AwaitOp) and op.token.type.accelerator.data in _RACC:
            out.append(["awaitr", op.token.type.accelerator.data])
        elif isinstance(op, accfg.SetupOp):
            out.append(["setup", op.accelerator.data,
                        [[n, var_id(v, data), isinstance(v.type, builtin.IndexType)] for n, v in op.iter_params()]])
        elif isinstance(op, accfg.LaunchOp):
            ga = launch_group_attrs(op) if op.accelerator.data in _GACC else None
            if ga is not None:
                out.append(["launchg", op.accelerator.data, [[n, var_id(v, data)] for n, v in op.iter_params()],
                            _GACC[op.accelerator.data], ga[0], ga[1], ga[2]])
            else:
                out.append(["launch", op.accelerator.data, [[n, var_id(v, data)] for n, v in op.iter_params()]])
        elif isinstance(op, accfg.AwaitOp):
            out.append(["await", op.token.type.accelerator.data])
        elif isinstance(op, scf.IfOp):
            out.append(["if", ctl_tag(op, data), if_slots(op, data), src_block(op.true_region.block, data, True),
                        src_block(op.false_region.block, data, True) if op.false_region.blocks else []])
        elif isinstance(op, scf.ForOp):
            out.append(["for", ctl_tag(op, data), for_slots(op, data), src_block(op.body.block, data, True)])
        elif op.regions:
            raise ConvError(f"unsupported region op {op.name}")
        else:
            out.append(["op", op_sig(op, data), n_state(op)])
    return out


def _const_val(v):
    from xdsl.dialects import arith
    if isinstance(v.owner, arith.ConstantOp):
        return v.owner.value.value.data, v.owner.value.type
    raise ConvError("address operand is not an arith.constant")


def eval_created(v, data, depth=0):
    """value of a tree of lowering-created constants / shli / ori (pack_bitlist) as an unsigned 32-bit word"""
    from xdsl.dialects import arith
    o = v.owner
    if depth > 16 or not (hasattr(o, "results") and _created(o, data)):
        raise ConvError("computed csr value depends on something the lowering did not create")
    if isinstance(o, arith.ConstantOp):
        return o.value.value.data
    if str(v.type) != "i32":
        raise ConvError("computed csr value is not i32")
    if isinstance(o, arith.ShLIOp):
        return ((eval_created(o.lhs, data, depth + 1) & 0xFFFFFFFF) << eval_created(o.rhs, data, depth + 1)) & 0xFFFFFFFF
    if isinstance(o, arith.OrIOp):
        return (eval_created(o.lhs, data, depth + 1) & 0xFFFFFFFF) | (eval_created(o.rhs, data, depth + 1) & 0xFFFFFFFF)
    raise ConvError(f"unexpected op {o.name} in a computed csr value")


def _created(op, data):
    """op was created by the lowering (its results carry no data name)"""
    return all(r.name_hint not in data for r in op.results)


def tgt_block(block, data, body=False):
    from xdsl.dialects import arith, llvm, scf
    from xdsl.dialects.builtin import IntegerType
    out = []
    ops = list(block.ops)
    if body:
        _term(block)
        ops = ops[:-1]
    for op in ops:
        # (uses by ops that are not in the IR — the replacement accfg.setup RoCC's lower_acc_setup builds and never
        # inserts, cf. DC04b — do not count)
        live_uses = [u for u in op.result.uses if u.operation.parent is not None] if isinstance(op, arith.ConstantOp) else []
        if (isinstance(op, arith.ConstantOp) and _created(op, data) and live_uses
                and all(isinstance(u.operation, llvm.InlineAsmOp) and u.operation.asm_string.data.startswith(".insn r CUSTOM_3")
                        for u in live_uses)):
            if op.value.value.data != 0 or str(op.value.type) != "i64":
                raise ConvError("RoCC default constant is not 0 : i64")
            out.append(["rocc", ["const0"]])
            continue
        if isinstance(op, arith.ConstantOp) and _created(op, data):
            for u in op.result.uses:
                if not (isinstance(u.operation, llvm.InlineAsmOp)
                        or (isinstance(u.operation, (arith.ShLIOp, arith.OrIOp)) and _created(u.operation, data))):
                    raise ConvError("lowering-created constant used by an op the lowering did not create")
            continue
        if isinstance(op, arith.IndexCastOp) and _created(op, data):
            uses = list(op.result.uses)
            if len(uses) != 1 or not isinstance(uses[0].operation, llvm.InlineAsmOp) or uses[0].index != 1:
                raise ConvError("lowering-created index_cast not used as a csrw value")
            if op.result.type != IntegerType(32):
                raise ConvError("index cast to a type other than i32")
            continue
        if pure_rec(op):
            continue
        if isinstance(op, llvm.InlineAsmOp):
            asm = op.asm_string.data
            if asm.startswith(".insn r CUSTOM_3, 0x3, "):
                if not asm.endswith(" ,x0, $0, $1") or op.constraints.data != "r, r":
                    raise ConvError(f"unexpected RoCC asm {asm} / {op.constraints.data}")

                def rv(v):
                    if isinstance(v.owner, arith.ConstantOp) and _created(v.owner, data):
                        return "d0"
                    return var_id(v, data)
                out.append(["rocc", ["insn", int(asm[len(".insn r CUSTOM_3, 0x3, "):].split(" ")[0]),
                                     rv(op.operands_[0]), rv(op.operands_[1])]])
            elif asm == "nop":
                out.append(["nop"])
            elif asm == "csrw $0, $1":
                addr, aty = _const_val(op.operands_[0])
                v = op.operands_[1]
                cons = op.constraints.data
                if isinstance(v.owner, arith.ConstantOp) and _created(v.owner, data):
                    val, vty = _const_val(v)
                    if addr == 965 and val == 0 and cons == "I, K" and str(aty) == "i12" and str(vty) == "i5":
                        out.append(["clear"])
                    elif cons == "I, rK":
                        out.append(["csrwc", addr, val])        # a constant the lowering materialised
                    else:
                        raise ConvError(f"csrw of a lowering-created constant {addr} <- {val} with constraints {cons}")
                    continue
                if isinstance(v.owner, (arith.ShLIOp, arith.OrIOp)) and _created(v.owner, data):
                    if cons != "I, rK":
                        raise ConvError(f"csrw of a computed value with constraints {cons}")
                    out.append(["csrwc", addr, eval_created(v, data)])
                    continue
                cast = False
                if isinstance(v.owner, arith.IndexCastOp) and _created(v.owner, data):
                    cast = True
                    v = v.owner.input
                if cons not in ("I, rK", "I, K"):
                    raise ConvError(f"unexpected constraints {cons}")
                if not op.attributes.get("has_side_effects") and not op.properties.get("has_side_effects"):
                    raise ConvError("csrw without has_side_effects")
                out.append(["csrw", addr, var_id(v, data), cast, cons == "I, K"])
            else:
                raise ConvError(f"unexpected asm {asm}")
        elif isinstance(op, scf.WhileOp):
            b = list(op.before_region.block.ops)
            a = list(op.after_region.block.ops)
            ok = (len(b) == 5 and isinstance(b[0], arith.ConstantOp) and isinstance(b[1], arith.ConstantOp)
                  and isinstance(b[2], llvm.InlineAsmOp) and b[2].asm_string.data == "csrr $0, $1"
                  and b[2].operands_[0] is b[0].result and b[1].value.value.data == 0
                  and isinstance(b[3], arith.CmpiOp) and b[3].predicate.value.data == 1
                  and b[3].lhs is b[2].res and b[3].rhs is b[1].result
                  and isinstance(b[4], scf.ConditionOp) and b[4].condition is b[3].result
                  and len(a) == 1 and isinstance(a[0], scf.YieldOp) and not op.operands and not op.results)
            if not ok:
                raise ConvError("unrecognised scf.while (not the polling barrier)")
            out.append(["poll", b[0].value.value.data])
        elif isinstance(op, scf.IfOp):
            out.append(["if", ctl_tag(op, data), if_slots(op, data), tgt_block(op.true_region.block, data, True),
                        tgt_block(op.false_region.block, data, True) if op.false_region.blocks else []])
        elif isinstance(op, scf.ForOp):
            out.append(["for", ctl_tag(op, data), for_slots(op, data), tgt_block(op.body.block, data, True)])
        elif op.regions:
            raise ConvError(f"unsupported region op {op.name}")
        else:
            out.append(["op", op_sig(op, data), n_state(op)])
    return out


def dominance_ok(module):
    """every operand is defined before its use (block arguments of enclosing regions, earlier ops of enclosing
    blocks).  xDSL's verifier does not check this; the accfg pre-passes can break it (a C06 matter), and such a
    module is not an input of the lowering."""
    def walk(block, defined):
        defined = set(defined) | set(block.args)
        for op in block.ops:
            if any(o not in defined for o in op.operands):
                return False
            for reg in op.regions:
                for b in reg.blocks:
                    if not walk(b, defined):
                        return False
            defined |= set(op.results)
        return True
    return all(walk(b, set()) for reg in module.regions for b in reg.blocks)


def get_func(module, name="f"):
    from xdsl.dialects import func
    for o in module.ops:
        if isinstance(o, func.FuncOp) and o.sym_name.data == name:
            return o
    raise ConvError("no function @f")


def count_states(module):
    n = 0
    for op in module.walk():
        n += n_state(op)
    return n


def make_ctx(accs):
    """snax-opt's context plus the case's accelerators registered under their names (xdma / phs are not in
    snax-opt's default registry)"""
    ctx = snaxrun.fresh_ctx()
    for a in accs:
        name = ACC_NAME[a["acc"]]
        obj = build_acc(a)
        # replace a default registration: SNAXGEMMXAccelerator.lower_acc_launch uses `self.n` and
        # `self.generate_acc_op()` of the REGISTERED instance, which in the compiler is the one the declaration in
        # the module was generated from
        ctx._registered_accelerators[name] = (lambda o: (lambda: o))(obj)
    return ctx


def group_accs(accs):
    """accelerators whose class lowers a launch carrying mult_vals/shift_vals/m per channel group -> array width n"""
    from snaxc.accelerators.snax_gemmx import SNAXGEMMXAccelerator
    out = {}
    for a in accs:
        obj = build_acc(a)
        if isinstance(obj, SNAXGEMMXAccelerator):
            out[ACC_NAME[a["acc"]]] = obj.n
    return out


def launch_group_attrs(op):
    """(m, shift_vals, mult_vals) of a launch op that carries channel-group attributes, else None"""
    if "mult_vals" not in op.attributes:
        return None
    try:
        return (op.attributes["m"].value.data, list(op.attributes["shift_vals"].get_values()),
                list(op.attributes["mult_vals"].get_values()))
    except (KeyError, AttributeError) as e:
        raise ConvError(f"launch with mult_vals but without well-formed m / shift_vals: {e}")


_GACC = {}
_RACC = set()      # names of the module's instruction-configured (RoCC class) accelerators


def module_decls(module, accs):
    from snaxc.dialects import accfg
    styles = {ACC_NAME[a["acc"]]: STYLE.get(a["acc"], "poll3") for a in accs}
    ds = []
    for op in module.ops:
        if isinstance(op, accfg.AcceleratorOp):
            f, l, b = acc_op_tables(op)
            nm = op.name_prop.string_value()
            if nm in styles:
                ds.append({"name": nm, "fields": f, "launch": l, "barrier": b, "style": styles[nm]})
    return ds


# --------------------------------------------------------------------------------------------------
# abstract machines (oracle)
# --------------------------------------------------------------------------------------------------
class Undef(Exception):
    pass


def _val(env, v):
    if v not in env:
        raise Undef(f"use of undefined value %{v.name_hint}")
    return env[v]


def run_ir(block, env, m):
    """executes accfg-level and CSR-level IR; m: dict with 'ev' (event list), 'launch' set of launch addresses"""
    from snaxc.dialects import accfg
    from xdsl.dialects import arith, func, llvm, scf
    for op in block.ops:
        if isinstance(op, arith.ConstantOp):
            env[op.result] = op.value.value.data
        elif isinstance(op, arith.AddiOp):
            env[op.result] = _val(env, op.lhs) + _val(env, op.rhs)
        elif isinstance(op, arith.IndexCastOp):
            env[op.result] = _val(env, op.input)
        elif isinstance(op, arith.ShLIOp):
            env[op.result] = ((_val(env, op.lhs) & 0xFFFFFFFF) << _val(env, op.rhs)) & 0xFFFFFFFF
        elif isinstance(op, arith.OrIOp):
            env[op.result] = (_val(env, op.lhs) & 0xFFFFFFFF) | (_val(env, op.rhs) & 0xFFFFFFFF)
        elif isinstance(op, arith.CmpiOp):
            if op.predicate.value.data != 1:
                raise NotImplementedError("cmpi predicate")
            env[op.result] = int(_val(env, op.lhs) != _val(env, op.rhs))
        elif isinstance(op, (accfg.SetupOp, accfg.LaunchOp)) and m.get("rocc_hook") is not None:
            # hybrid run: the accfg-level program, every setup / launch replaced by what the REAL per-op RoCC lowering
            # emits for it (used when the whole pass cannot be run)
            for o in m["rocc_hook"](op):
                if isinstance(o, llvm.InlineAsmOp) and o.asm_string.data.startswith(".insn r CUSTOM_3, 0x3, "):
                    f7 = int(o.asm_string.data.split(",")[2].strip())
                    vs = []
                    for x in o.operands_:
                        if x in env:
                            vs.append(env[x])
                        elif isinstance(x.owner, arith.ConstantOp):
                            vs.append(x.owner.value.value.data)
                        else:
                            raise Undef(f"use of undefined value %{x.name_hint}")
                    m["ev"].append(("I", f7, vs[0], vs[1]))
            env[op.results[0]] = "state"
        elif isinstance(op, accfg.SetupOp):
            for n, v in op.iter_params():
                m["ev"].append(("F", op.accelerator.data, n, _val(env, v)))
            env[op.out_state] = "state"
        elif isinstance(op, accfg.LaunchOp):
            acc = op.accelerator.data
            ga = launch_group_attrs(op) if acc in m.get("gacc", {}) else None
            if ga is None:
                for n, v in op.iter_params():
                    m["ev"].append(("L", acc, n, _val(env, v)))
            else:
                # reference meaning of a channel-group launch (what the hardware must see): M / temporal_loop_bound
                # = m // groups, the streamer is started once, then every group of n output channels is run with
                # ITS shift words and multipliers in the shift_* / mult_* registers.  Events tagged "G" are writes
                # the launch itself performs; "GEND" closes the op.
                gm, shifts, mults = ga
                n = m["gacc"][acc]
                vals = dict((k, _val(env, v)) for k, v in op.iter_params())
                groups = len(mults) // n
                new_m = gm // groups
                m["ev"].append(("F", acc, "M", new_m, "G"))
                m["ev"].append(("F", acc, "temporal_loop_bound", new_m, "G"))
                m["ev"].append(("L", acc, "launch_streamer", vals["launch_streamer"], "GS"))
                for g in range(groups):
                    sh = shifts[g * n:g * n + n]
                    for j in range(0, len(sh), 4):
                        word = 0
                        for k, x in enumerate(sh[j:j + 4]):
                            word |= ((x & 0xFFFFFFFF) << (8 * k)) & 0xFFFFFFFF
                        m["ev"].append(("F", acc, f"shift_{j // 4}", word, "G"))
                    for j, x in enumerate(mults[g * n:g * n + n]):
                        m["ev"].append(("F", acc, f"mult_{j}", x, "G"))
                    m["ev"].append(("L", acc, "launch_gemmx", vals["launch_gemmx"], "GG"))
                    m["ev"].append(("A", acc))
                m["ev"].append(("GEND", acc))
            env[op.token] = "token"
        elif isinstance(op, accfg.AwaitOp):
            m["ev"].append(("A", op.token.type.accelerator.data))
        elif isinstance(op, llvm.InlineAsmOp):
            asm = op.asm_string.data
            if asm == "nop":
                pass
            elif asm == "csrw $0, $1":
                m["ev"].append(("w", _val(env, op.operands_[0]), _val(env, op.operands_[1])))
            elif asm == "csrr $0, $1":
                m["reads"].append(_val(env, op.operands_[0]))
                m["busy"] = not m.get("busy", False)      # busy on the first read of a pair, idle on the second
                env[op.res] = 1 if m["busy"] else 0
            elif asm.startswith(".insn r CUSTOM_3, 0x3, "):
                f7 = int(asm.split(",")[2].strip())
                m["ev"].append(("I", f7, _val(env, op.operands_[0]), _val(env, op.operands_[1])))
            else:
                raise NotImplementedError(asm)
        elif isinstance(op, scf.WhileOp):
            m["reads"] = []
            m["busy"] = False
            it = 0
            while True:
                r = run_ir(op.before_region.block, env, m)
                it += 1
                if not r[1] or it > 8:
                    break
            m["ev"].append(("poll", tuple(sorted(set(m["reads"]))), it <= 8))
        elif isinstance(op, scf.ConditionOp):
            return ("cond", _val(env, op.condition))
        elif isinstance(op, func.CallOp):
            eff = op.attributes.get("accfg.effects")
            m["ev"].append(("call", op.callee.string_value(), eff is None or eff.data != accfg.EffectsEnum.NONE))
        elif isinstance(op, scf.YieldOp):
            return [("state" if (_is_state(o.type) or _is_tok(o.type)) else _val(env, o)) for o in op.operands]
        elif isinstance(op, scf.IfOp):
            reg = op.true_region if _val(env, op.cond) else op.false_region
            res = run_ir(reg.block, env, m) if reg.blocks else []
            for r_, v in zip(op.results, res or []):
                env[r_] = v
        elif isinstance(op, scf.ForOp):
            lb, ub, st = (_val(env, x) for x in (op.lb, op.ub, op.step))
            carried = [("state" if (_is_state(a.type) or _is_tok(a.type)) else _val(env, a)) for a in op.iter_args]
            i = lb
            while st > 0 and i < ub:
                env[op.body.block.args[0]] = i
                for a, v in zip(op.body.block.args[1:], carried):
                    env[a] = v
                carried = run_ir(op.body.block, env, m) or []
                i += st
            for r_, v in zip(op.results, carried):
                env[r_] = v
        elif isinstance(op, func.ReturnOp):
            return "ret"
        else:
            raise NotImplementedError(op.name)
    return None


ENVS = [(c0, c1, t) for c0 in (0, 1) for c1 in (0, 1) for t in ((0, 0, 1), (0, 2, 1), (1, 7, 3))]


def run_func(f, envidx, gacc=None, rocc_hook=None):
    c0, c1, (lb, ub, st) = ENVS[envidx]
    m = {"ev": [], "gacc": gacc or {}, "rocc_hook": rocc_hook}
    env = dict(zip(f.body.block.args, [11, 22, 33, c0, c1, lb, ub, st]))
    run_ir(f.body.block, env, m)
    return m["ev"]


# --------------------------------------------------------------------------------------------------
class C04(Prop):
    id = "C04"
    PARALLEL = True
    exhaustive_thorough = True
    trusted_base = [
        "modelled: generate_acc_op / streamer field+address helpers of snax_alu, snax_gemmx, snax_xdma, snax_phs, "
        "snax_hwpe_mult, gemmini (Model/RegMap.lean); convert_accfg_to_csr.py + SNAXAccelerator.lower_acc_setup/launch + "
        "SNAXPollingBarrier / SNAXPollingBarrier3 (Model/CsrLower.lean); rocc.py create_pairs/lower_acc_* executable model only",
        "harness converters xDSL IR <-> model JSON (harness/props/c04.py: src_block, tgt_block, lean_cfg), values identified by name hints",
        "oracle interpreters of accfg-level and CSR/RoCC-level IR in harness/props/c04.py (run_ir)",
    ]
    assumptions = [
        "RoCC pairing: no Lean theorem (depends on accfg state inference, C07); correspondence passes the real infer_state_of result to the model as data; the oracle executes both levels",
        "arith.index_cast to i32 is the identity on the values modelled (unbounded integers); CSR address width (12 bit) is not part of the property",
        "SNAXPollingBarrier2 / SNAXPollingBarrier4 are unused by every accelerator class and not modelled",
        "PHS accelerators are instantiated with a duck-typed PE (symbol name + switch count) and template spec (streamer configuration)",
        "launch tokens are not threaded through control flow (accfg.launch verifier: token used by exactly one await)",
    ]
    rule = ("regmap: non-trivial = a streamer accelerator with >= 2 streamers or an option set; lower: non-trivial = the "
            "program contains a loop or if that carries an accfg.state and at least one setup; rocc: a setup with an input "
            "state whose partner operand was retraced or defaulted; distinct by canonical JSON")

    # ------------------------------------------------------------------ generators
    def cases(self, rng, tier):
        quick = tier == "quick"
        # fixed: default configurations and tables
        yield {"kind": "regmap", "acc": "hwpe"}
        yield {"kind": "regmap", "acc": "gemmini"}
        for kind in ("alu", "gemmx", "xdma"):
            yield {"kind": "regmap", "acc": kind, "default": True}
        for _ in range(25 if quick else 400):
            ns = 5 if rng.random() < 0.9 else rng.randint(0, 7)
            yield {"kind": "regmap", "acc": "gemmx", "via_config": {
                "m": rng.randint(1, 16), "n": rng.randint(1, 16), "k": rng.randint(1, 16),
                "streamers": [[rng.randint(0, 6), [rng.choice([2, 4, 8]) for _ in range(rng.randint(0, 2))]] for _ in range(ns)]}}
        n_reg = 150 if quick else 3000
        for _ in range(n_reg):
            a = gen_acc(rng, ("alu", "gemmx", "xdma", "phs"))
            a["kind"] = "regmap"
            yield a
        if not quick:
            # exhaustive small space: <= 2 streamers x tdim 1..3 x sdim 1..2 x every regular option subset (alu),
            # gemmx n in 1..16, phs switches 0..8, xdma every byte-mask/extension subset of one streamer pair
            subs = [list(c) for k in range(len(REG_OPTS) + 1) for c in itertools.combinations(REG_OPTS, k)]
            for td in (1, 2, 3):
                for sd in (1, 2):
                    for o in subs:
                        yield {"kind": "regmap", "acc": "alu", "cfg": [["r", ["n"] * td, [8] * sd, o]]}
                        yield {"kind": "regmap", "acc": "alu", "cfg": [["r", ["n"] * td, [8] * sd, o], ["w", ["n"], [8], o]]}
            for n in range(1, 17):
                yield {"kind": "regmap", "acc": "gemmx", "cfg": [["r", ["n"], [8], ["remap"]]], "m": 8, "n": n, "k": 8}
            for sw in range(0, 9):
                yield {"kind": "regmap", "acc": "phs", "cfg": [["r", ["n"], [8], []]], "sw": sw}
            xs = [list(c) for k in range(5) for c in itertools.combinations(XDMA_OPTS, k)]
            for o in xs:
                yield {"kind": "regmap", "acc": "xdma", "cfg": [["r", ["n", "n"], [8], o], ["w", ["n"], [8], o[::-1]]]}
        # lowering
        n_low = 120 if quick else 2500
        made = 0
        tries = 0
        while made < n_low and tries < n_low * 3:
            tries += 1
            c = self.gen_lower_case(rng)
            if c is not None:
                made += 1
                yield c
        for _ in range(30 if quick else 500):
            c = self.gen_threaded_case(rng)
            if c is not None:
                yield c
        for _ in range(40 if quick else 600):
            c = self.gen_group_case(rng)
            if c is not None:
                yield c
        for _ in range(8 if quick else 60):
            c = self.gen_group_case(rng, malformed=True)
            if c is not None:
                yield c
        for c in self.malformed_cases(rng, 12 if quick else 60):
            yield c
        def twin(c):
            # the same program through the WHOLE pass, compared structurally with lowerBlock (per op above)
            return {"kind": "lower", "accs": [{"acc": "gemmini"}], "mlir": c["mlir"], "pre": "rocc", "envs": c["envs"],
                    **({"edge": True} if c.get("edge") else {})}
        for c in self.rocc_error_cases(rng, 12 if quick else 60):
            yield c
            yield twin(c)
        n_rocc = 60 if quick else 1200
        made = 0
        tries = 0
        while made < n_rocc and tries < n_rocc * 3:
            tries += 1
            c = self.gen_rocc_case(rng)
            if c is not None:
                made += 1
                yield c
                yield twin(c)

    def gen_lower_case(self, rng):
        k = rng.random()
        accs = [gen_acc(rng, ("hwpe",))] if k < 0.3 else [gen_acc(rng, ("alu", "gemmx", "xdma", "phs"))]
        if rng.random() < 0.25:
            other = gen_acc(rng)
            if ACC_NAME[other["acc"]] not in {ACC_NAME[a["acc"]] for a in accs}:
                accs.append(other)
        decls = ""
        pa = []
        for a in accs:
            op = build_acc(a).generate_acc_op()
            f, l, b = acc_op_tables(op)
            name = ACC_NAME[a["acc"]]
            decls += decl_text(name, f, l, b)
            fs = [x[0] for x in f]
            used = rng.sample(fs, min(len(fs), rng.randint(2, 5)))
            pa.append((name, used, [x[0] for x in l]))
        src = decls + ProgGen(rng, pa, carry=rng.random() < 0.6).program()
        passes = rng.choice(["accfg-trace-states,accfg-dedup", "accfg-trace-states,accfg-dedup,accfg-config-overlap",
                             "accfg-trace-states"])
        try:
            pre = snaxrun.run_passes(src, passes)
            pm = snaxrun.parse(pre)
            pm.verify()
            if not dominance_ok(pm):
                self.skipped_dominance = getattr(self, "skipped_dominance", 0) + 1
                return None
        except BaseException:
            return None
        return {"kind": "lower", "accs": accs, "mlir": pre, "pre": passes, "envs": rng.sample(range(len(ENVS)), 4)}

    def gen_threaded_case(self, rng):
        """hand-threaded program (no tracer): a loop and a conditional carry the accelerator state at a RANDOM
        position among 2..3 data values of one type; an epilogue setup uses every surviving result"""
        a = gen_acc(rng, ("hwpe", "alu", "gemmx", "xdma", "phs"))
        f, l, b = acc_op_tables(build_acc(a).generate_acc_op())
        name = ACC_NAME[a["acc"]]
        st, tk = f'!accfg.state<"{name}">', f'!accfg.token<"{name}">'
        fs = rng.sample([x[0] for x in f], min(len(f), 4))
        lf = [x[0] for x in l]

        def launch(s_, t_, ind):
            return [f'{ind}{t_} = "accfg.launch"({", ".join(["%lv"] * len(lf) + [s_])}) <{{param_names = [{", ".join(chr(34) + n + chr(34) for n in lf)}], '
                    f'accelerator = "{name}"}}> : ({", ".join(["i5"] * len(lf) + [st])}) -> {tk}',
                    f'{ind}"accfg.await"({t_}) : ({tk}) -> ()']

        def setup(out_, from_, vals, ind):
            ps = ", ".join(f'"{fld}" = {v} : i32' for fld, v in zip(fs, vals))
            return f'{ind}{out_} = accfg.setup "{name}" ' + (f"from {from_} " if from_ else "") + f"to ({ps}) : {st}"
        nd = rng.choice([2, 2, 3])
        inits = rng.sample(["%x", "%y", "%z"], nd)
        pos = rng.randint(0, nd)           # position of the state among the loop-carried values
        res = [f"%r{k}" for k in range(nd)]
        args = [f"%a{k}" for k in range(nd)]
        nxt = [f"%n{k}" for k in range(nd)]

        def weave(data, s_):
            return data[:pos] + [s_] + data[pos:]
        tys = weave(["i32"] * nd, st)
        lines = [setup("%s0", None, inits, "  ")]
        lines.append(f'  {", ".join(weave(res, "%sr"))} = scf.for %i = %lb to %ub step %st iter_args('
                     + ", ".join(f"{x} = {y}" for x, y in zip(weave(args, "%sa"), weave(inits, "%s0"))) + f') -> ({", ".join(tys)}) {{')
        for k in range(nd):
            lines.append(f'    {nxt[k]} = arith.addi {args[k]}, {rng.choice(["%x", "%y", "%z"] + args)} : i32')
        lines.append(setup("%s1", "%sa", nxt, "    "))
        lines += launch("%s1", "%t1", "    ")
        lines.append(f'    scf.yield {", ".join(weave(nxt, "%s1"))} : {", ".join(tys)}')
        lines.append("  }")
        pos2 = rng.randint(0, nd)
        q = [f"%q{k}" for k in range(nd)]

        def weave2(data, s_):
            return data[:pos2] + [s_] + data[pos2:]
        tys2 = weave2(["i32"] * nd, st)
        lines.append(f'  {", ".join(weave2(q, "%sq"))} = scf.if {rng.choice(["%c0", "%c1"])} -> ({", ".join(tys2)}) {{')
        perm = rng.sample(res, nd)
        lines.append(setup("%s2", "%sr", perm, "    "))
        lines.append(f'    scf.yield {", ".join(weave2(perm, "%s2"))} : {", ".join(tys2)}')
        lines.append("  } else {")
        alt = [rng.choice(res + ["%z"]) for _ in range(nd)]
        lines.append(f'    scf.yield {", ".join(weave2(alt, "%sr"))} : {", ".join(tys2)}')
        lines.append("  }")
        lines.append(setup("%s3", "%sq", q + res, "  "))
        lines += launch("%s3", "%t3", "  ")
        src = decl_text(name, f, l, b) + FUNC_HEAD + "\n".join(lines) + "\n  func.return\n}\n"
        try:
            m = snaxrun.parse(src)
            m.verify()
        except BaseException:
            return None
        return {"kind": "lower", "accs": [a], "mlir": snaxrun.text(m), "pre": "threaded", "envs": rng.sample(range(len(ENVS)), 4)}

    def gen_group_case(self, rng, malformed=False):
        """snax_gemmx kernels with channel-specific quantisation (launch op carrying m / shift_vals / mult_vals,
        2..3 groups of n channels), two or three in sequence or one in a loop, through the real
        accfg-trace-states + accfg-dedup: the second setup loses the shift / mult / M fields it shares with the
        first.  Variants: same scales again, other scales, a plain launch after a channel-group launch."""
        kind = rng.choice(["nchunk", "few", "nofield"]) if malformed else None
        n = rng.choice([6, 3, 5]) if kind == "nchunk" else rng.choice([4, 8])
        a = {"acc": "gemmx", "cfg": gen_cfg(rng, nmax=2), "m": rng.randint(1, 16), "n": n, "k": rng.randint(1, 16)}
        f, l, b = acc_op_tables(build_acc(a).generate_acc_op())
        st, tk = '!accfg.state<"snax_gemmx">', '!accfg.token<"snax_gemmx">'
        ptr = f[0][0]

        def scales(groups):
            return ([rng.randint(0, 40) for _ in range(groups * n)], [rng.randint(-50, 2000) for _ in range(groups * n)])

        def word(ch):
            return sum((x & 0xFFFFFFFF) << (8 * k) for k, x in enumerate(ch)) & 0xFFFFFFFF
        lines = []
        consts = {}

        def cst(v):
            if v not in consts:
                consts[v] = f"%k{len(consts)}"
            return consts[v]

        attr_cut = [None]

        def kernel(idx, ptrval, sh, mu, m_, grouped, ind="  "):
            fields = [f'"{ptr}" = {ptrval} : i32']
            for j in range(n):
                fields.append(f'"mult_{j}" = {cst(mu[j])} : i32')
            for c in range((n + 3) // 4):
                fields.append(f'"shift_{c}" = {cst(word(sh[4 * c:4 * c + 4]))} : i32')
            fields.append(f'"M" = {cst(m_)} : i32')
            fields.append(f'"temporal_loop_bound" = {cst(m_)} : i32')
            if rng.random() < 0.3:
                rng.shuffle(fields)
            attrs = ""
            if grouped:
                mu_a = mu if attr_cut[0] is None else mu[:attr_cut[0]]
                attrs = (" {mult_vals = array<i32: " + ", ".join(map(str, mu_a)) + ">, shift_vals = array<i8: "
                         + ", ".join(map(str, sh)) + f">, m = {m_} : i32}}")
            lp = (["launch_streamer", "launch_gemmx"], "%lv, %lw") if rng.random() < 0.6 else (["launch_gemmx", "launch_streamer"], "%lw, %lv")
            return [f'{ind}%s{idx} = accfg.setup "snax_gemmx" to ({", ".join(fields)}) : {st}',
                    f'{ind}%t{idx} = "accfg.launch"({lp[1]}, %s{idx}) <{{param_names = ["{lp[0][0]}", "{lp[0][1]}"], '
                    f'accelerator = "snax_gemmx"}}>{attrs} : (i5, i5, {st}) -> {tk}',
                    f'{ind}"accfg.await"(%t{idx}) : ({tk}) -> ()']
        g1 = rng.choice([2, 2, 3])
        sh1, mu1 = scales(g1)
        m1 = rng.choice([g1 * rng.randint(1, 9), rng.randint(1, 40)])
        shape = rng.choice(["seq_same", "seq_same", "seq_other", "loop", "loop", "plain_after", "three"])
        if malformed:
            shape = "seq_same"
            if kind == "few":
                attr_cut[0] = max(0, n - 1)
            elif kind == "nofield":
                gone = rng.choice(["M", "temporal_loop_bound", "mult_1", "shift_0"])
                f = [x for x in f if x[0] != gone]
        ptrs = ["%x", "%y", "%z"]
        if shape == "loop":
            lines += kernel(1, "%x", sh1, mu1, m1, True) if rng.random() < 0.5 else []
            lines.append("  scf.for %i = %lb to %ub step %st {")
            lines.append("    %iv = arith.index_cast %i : index to i32")
            lines += kernel(2, "%iv", sh1, mu1, m1, True, "    ")
            lines.append("  }")
        else:
            lines += kernel(1, ptrs[0], sh1, mu1, m1, True)
            if rng.random() < 0.3:
                lines.append('  func.call @g() {"accfg.effects" = #accfg.effects<none>} : () -> ()')
            if shape in ("seq_same", "three"):
                lines += kernel(2, ptrs[1], sh1, mu1, m1, True)
            if shape == "seq_other":
                sh2, mu2 = scales(rng.choice([2, 3]))
                mu2[:n // 2] = mu1[:n // 2]          # shares some registers with the first kernel
                lines += kernel(2, ptrs[1], sh2, mu2, rng.randint(2, 40), True)
            if shape == "plain_after":
                lines += kernel(2, ptrs[1], sh1[:n], mu1[:n], m1, False)
            if shape == "three":
                lines += kernel(3, ptrs[2], sh1, mu1, m1, True)
        body = "".join(f"  {nm} = arith.constant {v} : i32\n" for v, nm in consts.items()) + "\n".join(lines)
        src = decl_text("snax_gemmx", f, l, b) + FUNC_HEAD + body + "\n  func.return\n}\n"
        try:
            pre = snaxrun.run_passes(src, "accfg-trace-states,accfg-dedup")
            pm = snaxrun.parse(pre)
            pm.verify()
            if not dominance_ok(pm):
                return None
        except BaseException:
            return None
        c = {"kind": "lower", "accs": [a], "mlir": pre, "pre": "group:" + shape, "envs": rng.sample(range(len(ENVS)), 4)}
        if malformed:
            c["malformed"] = True
        return c

    def malformed_cases(self, rng, n):
        hw = {"acc": "hwpe"}
        f, l, b = acc_op_tables(build_acc(hw).generate_acc_op())
        d = decl_text("snax_hwpe_mult", f, l, b)
        st = '!accfg.state<"snax_hwpe_mult">'
        tk = '!accfg.token<"snax_hwpe_mult">'

        def prog(field, lfield, acc="snax_hwpe_mult", order=0):
            s_ = f'!accfg.state<"{acc}">'
            t_ = f'!accfg.token<"{acc}">'
            good = (f'  %s0 = accfg.setup "snax_hwpe_mult" to ("A" = %x : i32) : {st}\n'
                    f'  %t0 = "accfg.launch"(%lv, %s0) <{{param_names = ["launch"], accelerator = "snax_hwpe_mult"}}> : (i5, {st}) -> {tk}\n'
                    f'  "accfg.await"(%t0) : ({tk}) -> ()\n')
            bad = (f'  %s1 = accfg.setup "{acc}" to ("{field}" = %x : i32, "B" = %y : i32) : {s_}\n'
                   f'  %t1 = "accfg.launch"(%lv, %s1) <{{param_names = ["{lfield}"], accelerator = "{acc}"}}> : (i5, {s_}) -> {t_}\n'
                   f'  "accfg.await"(%t1) : ({t_}) -> ()\n')
            return d + FUNC_HEAD + (good + bad if order == 0 else bad + good) + "  func.return\n}\n"
        variants = [("Z", "launch", "snax_hwpe_mult"), ("A", "go", "snax_hwpe_mult"), ("A", "launch_x", "snax_hwpe_mult"),
                    ("A", "launch", "snax_nope"), ("Q", "nolaunch", "snax_hwpe_mult"), ("A", "relaunched", "snax_hwpe_mult")]
        for i in range(n):
            fld, lf, acc = variants[i % len(variants)]
            yield {"kind": "lower", "accs": [hw], "mlir": prog(fld, lf, acc, rng.randint(0, 1)), "pre": "", "malformed": True,
                   "envs": [0]}

    def gen_rocc_case(self, rng):
        # a gemmini-style accelerator: random instruction table (funct7 per instruction, .rs1/.rs2 fields)
        if rng.random() < 0.3:
            f, l, b = acc_op_tables(build_acc({"acc": "gemmini"}).generate_acc_op())
        else:
            ni = rng.randint(1, 4)
            f = []
            for i in range(ni):
                f += [[f"k_I{i}.rs1", 9 + i], [f"k_I{i}.rs2", 9 + i]]
            if rng.random() < 0.3:
                rng.shuffle(f)
            l = [["k_GO.rs1", 8], ["k_GO.rs2", 8]]
            b = 0xBAD
        fields = [x[0] for x in f]
        # setups mostly configure whole instructions; sometimes only one operand from the start (never-set partner)
        g = ProgGen(rng, [("gemmini", fields, [x[0] for x in l])], vtype="i64", pairs=rng.random() < 0.75, carry=rng.random() < 0.3)
        src = decl_text("gemmini", f, l, b) + g.program().replace('"accfg.launch"(%lv, %lv', '"accfg.launch"(%x, %y').replace(
            '"accfg.launch"(%lw, %lv', '"accfg.launch"(%y, %x').replace('"accfg.launch"(%lv, %lw', '"accfg.launch"(%z, %x').replace(
            '"accfg.launch"(%lw, %lw', '"accfg.launch"(%z, %z').replace(": (i5, i5, !accfg.state", ": (i64, i64, !accfg.state")
        try:
            pre = snaxrun.run_passes(src, "accfg-trace-states,accfg-dedup")
            pm = snaxrun.parse(pre)
            pm.verify()
            if not dominance_ok(pm):
                self.skipped_dominance = getattr(self, "skipped_dominance", 0) + 1
                return None
        except BaseException:
            return None
        return {"kind": "rocc", "mlir": pre, "envs": rng.sample(range(len(ENVS)), 4)}

    def rocc_error_cases(self, rng, n):
        """hand-threaded RoCC programs on the error / edge paths of rocc.py: launch lacking an operand (assert),
        launch lacking a declared launch instruction (KeyError in combine_pairs_to_ops), retrace of a partner
        that is in no previous state (KeyError in create_pairs), a setup naming an undeclared instruction
        (silently not emitted), a field given twice (last value wins)"""
        st, tk = '!accfg.state<"gemmini">', '!accfg.token<"gemmini">'
        d1 = decl_text("gemmini", [["k_I0.rs1", 9], ["k_I0.rs2", 9], ["k_I1.rs1", 10], ["k_I1.rs2", 10]],
                       [["k_GO.rs1", 8], ["k_GO.rs2", 8]], 0xBAD)
        d2 = decl_text("gemmini", [["k_I0.rs1", 9], ["k_I0.rs2", 9]],
                       [["k_GO.rs1", 8], ["k_GO.rs2", 8], ["k_G2.rs1", 7], ["k_G2.rs2", 7]], 0xBAD)
        head = FUNC_HEAD.replace("%x : i32, %y : i32, %z : i32", "%x : i64, %y : i64, %z : i64")

        def launch(names, vals, s_, t_):
            return (f'  {t_} = "accfg.launch"({", ".join(vals + [s_])}) <{{param_names = [{", ".join(chr(34) + n + chr(34) for n in names)}], '
                    f'accelerator = "gemmini"}}> : ({", ".join(["i64"] * len(vals) + [st])}) -> {tk}\n  "accfg.await"({t_}) : ({tk}) -> ()\n')
        full = '  %s0 = accfg.setup "gemmini" to ("k_I0.rs1" = %x : i64, "k_I0.rs2" = %y : i64) : ' + st + "\n"
        variants = [
            (d1, full + launch(["k_GO.rs1"], ["%x"], "%s0", "%t0")),
            (d2, full + launch(["k_GO.rs1", "k_GO.rs2"], ["%x", "%y"], "%s0", "%t0")),
            (d1, full + f'  %s1 = accfg.setup "gemmini" from %s0 to ("k_I1.rs1" = %z : i64) : {st}\n'
                 + launch(["k_GO.rs1", "k_GO.rs2"], ["%x", "%y"], "%s1", "%t0")),
            (d1, full + f'  %s1 = accfg.setup "gemmini" from %s0 to ("k_NOPE.rs1" = %z : i64, "k_NOPE.rs2" = %z : i64, "k_I0.rs2" = %z : i64) : {st}\n'
                 + launch(["k_GO.rs1", "k_GO.rs2"], ["%x", "%y"], "%s1", "%t0")),
            (d1, f'  %s0 = "accfg.setup"(%x, %y, %z) <{{accelerator = "gemmini", operandSegmentSizes = array<i32: 3, 0>, '
                 f'param_names = ["k_I0.rs1", "k_I0.rs2", "k_I0.rs1"]}}> : (i64, i64, i64) -> {st}\n'
                 + launch(["k_GO.rs1", "k_GO.rs2"], ["%x", "%y"], "%s0", "%t0")),
            (d1, '  %s0 = accfg.setup "gemmini" to ("k_I1.rs2" = %y : i64) : ' + st + "\n"
                 + f'  %s1 = accfg.setup "gemmini" from %s0 to ("k_I1.rs2" = %z : i64, "k_I0.rs1" = %x : i64, "k_I0.rs2" = %x : i64) : {st}\n'
                 + launch(["k_GO.rs2", "k_GO.rs1"], ["%x", "%y"], "%s1", "%t0")),
        ]
        for i in range(n):
            d, body = variants[i % len(variants)]
            src = d + head + body + "  func.return\n}\n"
            try:
                m = snaxrun.parse(src)
                m.verify()
            except BaseException:
                continue
            yield {"kind": "rocc", "mlir": snaxrun.text(m), "envs": [rng.randrange(len(ENVS))], "edge": True}

    # ------------------------------------------------------------------ real code
    def _regmap_acc(self, case):
        if case.get("via_config"):
            # the route a system configuration file takes (config_parser.parse_config -> from_config); dacite is not
            # installed here, so the dataclasses are built directly
            from snaxc.accelerators.snax_gemmx import SNAXGEMMXAccelerator
            from snaxc.tools.configs import GemmxConfig, StreamerConfig
            c = case["via_config"]
            return SNAXGEMMXAccelerator.from_config(GemmxConfig(
                m=c["m"], n=c["n"], k=c["k"], streamers=[StreamerConfig(t, list(sd)) for t, sd in c["streamers"]]))
        if case.get("default") and not case.get("via_config"):
            from snaxc.accelerators.snax_alu import SNAXAluAccelerator
            from snaxc.accelerators.snax_gemmx import SNAXGEMMXAccelerator
            from snaxc.accelerators.snax_xdma import SNAXXDMAAccelerator
            return {"alu": SNAXAluAccelerator, "gemmx": SNAXGEMMXAccelerator, "xdma": SNAXXDMAAccelerator}[case["acc"]]()
        return build_acc(case)

    def _default_as_cfg(self, case):
        """the default configurations expressed as a case configuration (for the model side)"""
        acc = self._regmap_acc(case)
        from snaxc.accelerators.streamers import streamers as S
        from snaxc.accelerators.streamers import extensions as E
        from snaxc.accelerators.streamers.extensions.add_extension import AddLongExtension
        names = [(S.HasAddressRemap, "remap"), (S.HasChannelMask, "cmask"), (S.HasByteMask, "bmask"), (S.HasBroadcast, "bcast"),
                 (E.TransposeExtension, "transp"), (E.MaxPoolExtension, "maxpool"), (AddLongExtension, "addlong"),
                 (E.AddExtension, "add"), (E.RescaleDownExtension, "rescale_down"), (E.RescaleUpExtension, "rescale_up"),
                 (E.MemSetExtension, "memset")]
        cfg = []
        for st in acc.streamer_config.data.streamers:
            opts = []
            for o in st.opts:
                opts.append(next(n for c, n in names if type(o) is c))
            cfg.append([st.type.value, [str(t.value) for t in st.temporal_dims], list(st.spatial_dims), opts])
        d = dict(case, cfg=cfg)
        if case["acc"] == "gemmx":
            d.update(m=acc.m, n=acc.n, k=acc.k)
        return d

    def impl(self, case):
        kind = case["kind"]
        if kind == "regmap":
            acc = self._regmap_acc(case)
            op = acc.generate_acc_op()
            op.verify()
            f, l, b = acc_op_tables(op)
            out = {"fields": f, "launch": l, "barrier": b, "names": list(acc.fields), "lnames": list(acc.launch_fields)}
            if case["acc"] in ("alu", "gemmx", "phs", "xdma"):
                used = {a for _, a in f} | {a for _, a in l} | {b}
                out["reserved"] = [a for a in range(min(used), max(used) + 1) if a not in used]
            return out
        if kind == "lower":
            from snaxc.transforms.convert_accfg_to_csr import ConvertAccfgToCsrPass
            try:
                module = snaxrun.parse(case["mlir"])
                module.verify()
                assert dominance_ok(module)
            except BaseException:
                return {"raised": "InvalidInput"}
            data = name_values(module)
            ctx = make_ctx(case["accs"])
            ConvertAccfgToCsrPass().apply(ctx, module)
            module.verify()
            return {"prog": tgt_block(get_func(module).body.block, data), "states": count_states(module)}
        if kind == "rocc":
            from snaxc.dialects import accfg
            from snaxc.inference.trace_acc_state import infer_state_of  # noqa: F401
            try:
                module = snaxrun.parse(case["mlir"])
                module.verify()
                assert dominance_ok(module)
            except BaseException:
                return {"raised": "InvalidInput"}
            data = name_values(module)
            ctx = snaxrun.fresh_ctx()
            acc_op, acc = ctx.get_acc_op_from_module("gemmini", module)
            out = []
            for op in get_func(module).walk():
                if isinstance(op, accfg.SetupOp):
                    out.append(self._rocc_ops(lambda: acc.lower_acc_setup(op, acc_op), data))
                elif isinstance(op, accfg.LaunchOp):
                    out.append(self._rocc_ops(lambda: acc.lower_acc_launch(op, acc_op), data))
                elif isinstance(op, accfg.AwaitOp):
                    out.append({"ops": [str(o.name) for o in acc.lower_acc_await(acc_op)]})
            return {"ops": out}
        raise ValueError(kind)

    @staticmethod
    def _rocc_ops(thunk, data):
        from xdsl.dialects import arith, llvm
        try:
            ops = thunk()
        except (KeyError, AssertionError) as e:
            return {"raised": type(e).__name__}
        res = []
        for o in ops:
            if isinstance(o, arith.ConstantOp):
                if o.value.value.data != 0 or str(o.value.type) != "i64":
                    raise ConvError("unexpected default constant")
                res.append(["const0"])
            elif isinstance(o, llvm.InlineAsmOp):
                asm = o.asm_string.data
                pre = ".insn r CUSTOM_3, 0x3, "
                if not asm.startswith(pre) or not asm.endswith(" ,x0, $0, $1") or o.constraints.data != "r, r":
                    raise ConvError(f"unexpected RoCC asm {asm}")
                f7 = int(asm[len(pre):].split(" ")[0])

                def rv(v):
                    if isinstance(v.owner, arith.ConstantOp) and v.owner in ops:
                        return "d0"
                    return var_id(v, data)
                res.append(["insn", f7, rv(o.operands_[0]), rv(o.operands_[1])])
            else:
                raise ConvError(f"unexpected op {o.name}")
        return {"ops": res}

    # ------------------------------------------------------------------ model
    def requests(self, case):
        kind = case["kind"]
        if kind == "regmap":
            if case.get("via_config"):
                vc = case["via_config"]
                return [{"fn": "c04.regmap", "args": {"acc": "gemmx_config", "cfg": [], "n": vc["n"], "sw": 0,
                                                      "streamers": [[t, len(sd)] for t, sd in vc["streamers"]]}}]
            c = self._default_as_cfg(case) if case.get("default") else case
            return [{"fn": "c04.regmap", "args": {"acc": case["acc"], "cfg": lean_cfg(c), "n": c.get("n", 0), "sw": c.get("sw", 0)}}]
        if kind == "lower":
            module = snaxrun.parse(case["mlir"])
            data = name_values(module)
            _GACC.clear()
            _GACC.update(group_accs(case["accs"]))
            _RACC.clear()
            _RACC.update(ACC_NAME[a["acc"]] for a in case["accs"] if a["acc"] == "gemmini")
            return [{"fn": "c04.lower", "args": {"decls": module_decls(module, case["accs"]),
                                                  "prog": src_block(get_func(module).body.block, data)}}]
        if kind == "rocc":
            from snaxc.dialects import accfg
            from snaxc.inference.trace_acc_state import infer_state_of
            module = snaxrun.parse(case["mlir"])
            data = name_values(module)
            acc_op = next(o for o in module.ops if isinstance(o, accfg.AcceleratorOp))
            f, l, _ = acc_op_tables(acc_op)
            reqs = []
            for op in get_func(module).walk():
                if isinstance(op, accfg.SetupOp):
                    prev = None
                    if op.in_state is not None:
                        prev = [[k, var_id(v, data)] for k, v in infer_state_of(op.in_state).items()]
                    reqs.append({"fn": "c04.rocc_setup", "args": {"decl": f, "ps": [[n, var_id(v, data)] for n, v in op.iter_params()],
                                                                   "prev": prev}})
                elif isinstance(op, accfg.LaunchOp):
                    reqs.append({"fn": "c04.rocc_launch", "args": {"decl": l, "ps": [[n, var_id(v, data)] for n, v in op.iter_params()]}})
            return reqs
        return []

    def model(self, case, answers):
        kind = case["kind"]
        for a in answers:
            if "err" in a:
                return {"model_error": a["err"]}
        if kind == "regmap":
            m = answers[0]["ok"]
            if "raised" in m:
                return m
            out = {"fields": m["fields"], "launch": m["launch"], "barrier": m["barrier"], "names": m["names"], "lnames": m["lnames"]}
            if case["acc"] in ("alu", "gemmx", "phs", "xdma"):
                out["reserved"] = sorted(m["reserved"])
            return out
        if kind == "lower":
            return answers[0]["ok"]
        if kind == "rocc":
            # awaits lower to nothing for RoCC; positions recomputed from the program
            from snaxc.dialects import accfg
            module = snaxrun.parse(case["mlir"])
            out = []
            it = iter(answers)
            for op in get_func(module).walk():
                if isinstance(op, (accfg.SetupOp, accfg.LaunchOp)):
                    out.append(next(it)["ok"])
                elif isinstance(op, accfg.AwaitOp):
                    out.append({"ops": []})
            return {"ops": out}

    def compare(self, case, impl_out, model_out):
        if isinstance(impl_out, dict) and impl_out.get("raised") == "InvalidInput":
            return None      # not a program (only reachable from the shrinker)
        if (case.get("pre") == "rocc" and isinstance(impl_out, dict) and impl_out.get("raised") == "ValueError"
                and "insertion point must have a parent block" in str(impl_out.get("msg"))
                and self._stateless_partial_uses_ctl_result(snaxrun.parse(case["mlir"]))):
            return None      # DC04b: the real pass crashes (known finding, reported by the oracle); no output to compare
        if isinstance(impl_out, dict) and "raised" in impl_out:
            impl_out = {"raised": impl_out["raised"]}
        if canon_json(impl_out) == canon_json(model_out):
            return None
        return f"{case['kind']}: impl and model outputs differ"

    # ------------------------------------------------------------------ property on the implementation
    def oracle(self, case, impl_out):
        kind = case["kind"]
        bad = []

        def v(what):
            bad.append({"what": what, "finding": None})
        if kind == "regmap":
            if "raised" in impl_out:
                if case.get("via_config") and len(case["via_config"]["streamers"]) < 5 and impl_out["raised"] == "IndexError":
                    return bad      # a gemmx configuration needs its five streamers: not a configuration
                v(f"generate_acc_op raised {impl_out['raised']}: {impl_out.get('msg')}")
                return bad
            f, l, b = impl_out["fields"], impl_out["launch"], impl_out["barrier"]
            if [k for k, _ in f] != impl_out["names"]:
                v(f"declared field names differ from the accelerator's field tuple: {[k for k, _ in f][:40]} vs {impl_out['names'][:40]}")
            if [k for k, _ in l] != impl_out["lnames"]:
                v("declared launch field names differ from the accelerator's launch field tuple")
            if case["acc"] == "gemmini":
                by = {}
                for k, a in f + l:
                    by.setdefault(k[:-4], set()).add(a)
                if any(len(s) != 1 for s in by.values()) or len({next(iter(s)) for s in by.values()}) != len(by):
                    v("RoCC instruction table: operands of one instruction must share funct7, instructions must differ")
                return bad
            addrs = [a for _, a in f] + [a for _, a in l] + [b]
            res = []
            if case["acc"] == "hwpe":
                res = [965]
            else:
                ls = [a for k, a in l if k in ("launch_streamer", "launch_start")]
                res = [ls[0] + 1, ls[0] + 2] if ls else []
                if case["acc"] == "xdma":
                    lo = f[0][1]
                    res += list(range(lo + 4, lo + 2 + 32))
            alla = addrs + res
            if len(set(alla)) != len(alla):
                dup = sorted({a for a in alla if alla.count(a) > 1})
                who = [(k, a) for k, a in f + l if a in dup] + ([("barrier", b)] if b in dup else []) + [("reserved", a) for a in res if a in dup]
                v(f"register map not injective: shared addresses {who[:8]}")
            return bad
        if kind in ("lower", "rocc") and impl_out.get("raised") == "InvalidInput":
            return bad      # not a program (only reachable from the shrinker)
        if kind == "lower" and case.get("pre") == "rocc":
            if "raised" not in impl_out and impl_out.get("states", 0) != 0:
                v(f"{impl_out['states']} accfg.state-typed values survive the lowering")
            if case.get("edge") and "raised" in impl_out:
                return bad      # hand-made error path: an error outcome (compared with the model)
            return bad + self._oracle_rocc(dict(case, kind="rocc"))
        if kind == "lower":
            if "raised" in impl_out:
                if not case.get("malformed"):
                    v(f"lowering raised {impl_out['raised']} on a well-formed program: {impl_out.get('msg', '')[:200]}")
                return bad
            if case.get("malformed"):
                v("the lowering accepted a program that names an undeclared accelerator / field or an ill-formed launch: "
                  "some configured value cannot have reached a declared register")
                return bad
            if impl_out.get("states", 0) != 0:
                v(f"{impl_out['states']} accfg.state-typed values survive the lowering")
            return bad + self._oracle_exec(case)
        if kind == "rocc":
            if "raised" in impl_out:
                v(f"RoCC per-op lowering raised {impl_out['raised']}: {impl_out.get('msg', '')[:200]}")
                return bad
            if case.get("edge") and any("raised" in o for o in impl_out["ops"]):
                return bad      # hand-made error path: an error outcome (compared with the model), nothing to execute
            return bad + self._oracle_rocc(case)
        return bad

    def _oracle_exec(self, case):
        from snaxc.dialects import accfg
        from snaxc.transforms.convert_accfg_to_csr import ConvertAccfgToCsrPass
        bad = []
        before = snaxrun.parse(case["mlir"])
        after = snaxrun.parse(case["mlir"])
        decls = {}
        for op in before.ops:
            if isinstance(op, accfg.AcceleratorOp):
                f, l, b = acc_op_tables(op)
                decls[op.name_prop.string_value()] = (dict(f), dict(l), b)
        ConvertAccfgToCsrPass().apply(make_ctx(case["accs"]), after)
        left = [o.name for o in after.walk() if o.name.startswith("accfg.")]
        if left:
            bad.append({"what": f"accfg ops survive the lowering: {sorted(set(left))}", "finding": None})
            return bad
        declared = set()
        launch_addrs = set()
        for f, l, b in decls.values():
            declared |= set(f.values()) | set(l.values())
            launch_addrs |= set(l.values())
        alla = [a for f, l, b in decls.values() for a in list(f.values()) + list(l.values())]
        overlap = len(set(alla)) != len(alla)
        from snaxc.accelerators.snax import SNAXPollingBarrier
        ctx = make_ctx(case["accs"])
        clearing = {n for n in decls if n in set(ctx.registered_accelerator_names) and isinstance(ctx.get_acc(n), SNAXPollingBarrier)}
        fb, fa = get_func(before), get_func(after)
        gacc = group_accs(case["accs"])
        for e in case["envs"]:
            try:
                ta = run_func(fb, e, gacc)
            except Undef:
                continue
            try:
                tb = run_func(fa, e)
            except Undef as ex:
                bad.append({"what": f"lowered IR uses an undefined value ({ex}) in env {ENVS[e]}", "finding": None})
                break
            grouped = any(ev[0] == "GEND" for ev in ta)
            if grouped and not overlap:
                r = self._observe(ta, tb, decls, launch_addrs, clearing, ENVS[e])
                if r:
                    bad.append(r)
                    break
            exp = []
            for ev in ta:
                if ev[0] == "F":
                    exp.append(("w", decls[ev[1]][0][ev[2]], ev[3]))
                elif ev[0] == "L":
                    exp.append(("w", decls[ev[1]][1][ev[2]], ev[3]))
                elif ev[0] == "A":
                    exp.append(("poll", (decls[ev[1]][2],), True))
                    if ev[1] in clearing:
                        # hardware protocol of the HWPE barrier (docstring of SNAXPollingBarrier): clear 0x3c5 after the poll
                        exp.append(("w", 965, 0))
                elif ev[0] == "GEND":
                    pass
                else:
                    exp.append(ev)
            got = tb
            if got != exp:
                i = next((k for k, (x, y) in enumerate(itertools.zip_longest(got, exp)) if x != y), None)
                bad.append({"what": f"CSR-level event {i} is {got[i] if i < len(got) else None}, the declared map requires "
                                    f"{exp[i] if i < len(exp) else None} (env {ENVS[e]})", "finding": None})
                break
            # register contents at every launch: address-indexed vs field-indexed (accelerators of one module that
            # overlap in address space sit behind different cores: no common register file to compare)
            if overlap or grouped:
                continue
            r = self._observe(ta, tb, decls, launch_addrs, clearing, ENVS[e])
            if r:
                bad.append(r)
                return bad
        return bad

    @staticmethod
    def _observe(ta, tb, decls, launch_addrs, clearing, env):
        """at every write to a launch register the address-indexed register file must hold, for every configured
        field, the value in effect at accfg level.  Inside a channel-group launch the value in effect is the one
        the launch op prescribes for the group being started (M / temporal_loop_bound = m // groups, the group's
        shift words and multipliers); at its streamer launch the shift / mult registers (array configuration,
        programmed per group afterwards) are not yet constrained.  After the op the accfg state is what the
        setups said (that is what accfg-dedup relies on)."""
        regs_f, regs_a, overlay = {}, {}, {}
        group_seen = set()
        ia = 0
        nl = 0
        for ev in ta:
            if ev[0] == "F":
                (overlay if len(ev) > 4 else regs_f)[(ev[1], ev[2])] = ev[3]
            elif ev[0] == "GEND":
                overlay = {}
                group_seen.add(ev[1])
            elif ev[0] == "L":
                nl += 1
                tag = ev[4] if len(ev) > 4 else None
                while ia < len(tb) and not (tb[ia][0] == "w" and tb[ia][1] in launch_addrs):
                    if tb[ia][0] == "w":
                        regs_a[tb[ia][1]] = tb[ia][2]
                    ia += 1
                if ia >= len(tb) or tb[ia][1] != decls[ev[1]][1].get(ev[2]) or tb[ia][2] != ev[3]:
                    return {"what": f"launch write {nl} ({ev[1]}.{ev[2]} <- {ev[3]}) has no counterpart at CSR level "
                                    f"(found {tb[ia] if ia < len(tb) else None}) (env {env})", "finding": None}
                ia += 1
                for key in sorted(set(regs_f) | set(overlay)):
                    acc, fld = key
                    quant = fld.startswith("shift_") or fld.startswith("mult_")
                    if tag == "GS" and quant:
                        continue
                    addr = decls[acc][0].get(fld)
                    if addr is None or (addr == 965 and clearing):
                        continue
                    val = overlay.get(key, regs_f.get(key))
                    if regs_a.get(addr) != val:
                        known = (tag is None and acc in group_seen and (quant or fld in ("M", "temporal_loop_bound")))
                        where = {None: "a launch", "GS": "the streamer launch of a channel-group launch",
                                 "GG": "a launch_gemmx write of a channel-group launch"}[tag]
                        return {"what": f"at {where} (launch write {nl}: {ev[2]}), register {addr} holds {regs_a.get(addr)} but "
                                        f"field {acc}.{fld} is {val} (env {env})", "finding": "DC04c" if known else None}
        return None

    def _oracle_rocc(self, case):
        from snaxc.dialects import accfg
        from snaxc.transforms.convert_accfg_to_csr import ConvertAccfgToCsrPass
        bad = []
        before = snaxrun.parse(case["mlir"])
        after = snaxrun.parse(case["mlir"])
        acc_op = next(o for o in before.ops if isinstance(o, accfg.AcceleratorOp))
        f, l, _ = acc_op_tables(acc_op)
        try:
            ConvertAccfgToCsrPass().apply(snaxrun.fresh_ctx(), after)
        except KeyError as ex:
            # partner operand never set on some path and not recoverable: the code documents this limitation; it is
            # an error outcome, not a wrong instruction
            return bad
        except ValueError as ex:
            if "insertion point must have a parent block" not in str(ex):
                raise
            # DC04b: lower_acc_setup's default branch builds a replacement accfg.setup that is never inserted but
            # keeps uses of its operands; when such an operand is a result of a control-flow op that
            # DeleteAllStates rebuilds, the greedy driver visits the detached op and crashes
            known = self._stateless_partial_uses_ctl_result(before)
            if not known:
                # not the known crash pattern: state the property on a hybrid run (accfg-level program with every
                # setup / launch replaced by what the real per-op lowering emits for it)
                r = self._rocc_hybrid(case, f, l)
                if r:
                    return bad + r
            bad.append({"what": f"convert-accfg-to-csr crashed on a well-formed RoCC program: ValueError: {ex}",
                        "finding": "DC04b" if known else None})
            return bad
        if any(_is_state(r.type) for o in after.walk() for r in o.results) or count_states(after):
            bad.append({"what": "accfg.state values survive the RoCC lowering", "finding": None})
        fb, fa = get_func(before), get_func(after)
        return bad + self._rocc_runs(case, f, l, before, fb, lambda e: run_func(fa, e))

    def _rocc_hybrid(self, case, f, l):
        from snaxc.dialects import accfg
        hyb = snaxrun.parse(case["mlir"])
        acc_op, acc = snaxrun.fresh_ctx().get_acc_op_from_module("gemmini", hyb)

        def hook(op):
            try:
                if isinstance(op, accfg.SetupOp):
                    return acc.lower_acc_setup(op, acc_op)
                return acc.lower_acc_launch(op, acc_op)
            except (KeyError, AssertionError):
                raise Undef("per-op lowering raised")
        fh = get_func(hyb)
        return self._rocc_runs(case, f, l, snaxrun.parse(case["mlir"]), get_func(snaxrun.parse(case["mlir"])),
                               lambda e: run_func(fh, e, rocc_hook=hook), note=" [per-op lowering; the whole pass crashed]")

    def _rocc_runs(self, case, f, l, before, fb, run_lowered, note=""):
        bad = []
        f7_instr = {}
        for k, a in f:
            f7_instr.setdefault(a, k[:-4])
        l7 = {a for _, a in l}
        # the fallback (note != "") looks at every environment: a shrunk case keeps one only
        for e in (list(case["envs"]) + [x for x in range(len(ENVS)) if x not in case["envs"]]) if note else case["envs"]:
            try:
                ta = run_func(fb, e)
            except Undef:
                continue
            try:
                tb = run_lowered(e)
            except Undef as ex:
                if note:
                    continue
                bad.append({"what": f"lowered RoCC IR uses an undefined value ({ex}) in env {ENVS[e]}", "finding": None})
                break
            # accfg level: registers at each launch, launch operands
            regs = {}
            la = []
            cur = None
            clobbered = False
            for ev in ta:
                if ev[0] == "F":
                    regs[ev[2]] = ev[3]
                elif ev[0] == "call" and ev[2]:
                    # an opaque call with accelerator effects leaves every register undefined
                    regs = {}
                    clobbered = True
                elif ev[0] == "L":
                    if cur is None:
                        cur = {}
                    cur[ev[2]] = ev[3]
                    if len(cur) == len(l):
                        la.append((dict(regs, **{"__clobbered": clobbered}), cur))
                        cur = None
            # instruction level
            iregs = {}
            lb = []
            stale = None
            for ev in tb:
                if ev[0] != "I":
                    continue
                if ev[1] in l7:
                    lb.append((dict(iregs), ev[2], ev[3]))
                else:
                    ins = f7_instr.get(ev[1])
                    iregs[ins + ".rs1"] = ev[2]
                    iregs[ins + ".rs2"] = ev[3]
            if len(la) != len(lb):
                bad.append({"what": f"{len(lb)} RoCC launch instructions for {len(la)} launches (env {ENVS[e]})", "finding": None})
                break
            for k, ((ra, lv), (rb, v1, v2)) in enumerate(zip(la, lb)):
                names = sorted((set(ra) | set(rb)) - {"__clobbered"})
                for n in names:
                    if n[:-4] not in f7_instr.values():
                        continue
                    x, y = ra.get(n), rb.get(n)
                    if x is None and (y == 0 or ra["__clobbered"]):
                        continue      # never-set partner: default 0; undefined after a clobbering call
                    if x != y:
                        stale = (f"launch {k}: instruction operand {n} carries {y}, in effect at accfg level: {x} (env {ENVS[e]}){note}",
                                 n if y == 0 else None)
                        break
                lnames = [x[0] for x in l]
                exp = (lv.get(next(n for n in lnames if n.endswith('.rs1'))), lv.get(next(n for n in lnames if n.endswith('.rs2'))))
                if stale is None and (v1, v2) != exp:
                    stale = (f"launch {k}: launch instruction carries {(v1, v2)} instead of {exp}", None)
                if stale:
                    break
            if stale:
                bad.append({"what": stale[0], "finding": "DC04a" if (stale[1] and self._stateless_partial(before, stale[1])) else None})
                break
        return bad

    @staticmethod
    def _stateless_partial_uses_ctl_result(module):
        """a setup WITHOUT input state sets one operand of some instruction only (so defaults are materialised) and
        one of its values is a result of an scf.for / scf.if that carries accelerator state"""
        from snaxc.dialects import accfg
        from xdsl.dialects import scf
        for op in module.walk():
            if isinstance(op, accfg.SetupOp) and op.in_state is None:
                names = {n for n, _ in op.iter_params()}
                partial = any(len({n[:-4] + ".rs1", n[:-4] + ".rs2"} & names) == 1 for n in names)
                ctl = any(isinstance(v.owner, (scf.ForOp, scf.IfOp)) and any(_is_state(r.type) for r in v.owner.results)
                          for _, v in op.iter_params())
                if partial and ctl:
                    return True
        return False

    @staticmethod
    def _stateless_partial(module, field):
        """the program has a setup WITHOUT input state that configures only one operand of `field`'s instruction"""
        from snaxc.dialects import accfg
        ins = field[:-4]
        for op in module.walk():
            if isinstance(op, accfg.SetupOp) and op.in_state is None:
                names = {n for n, _ in op.iter_params()}
                if len({ins + ".rs1", ins + ".rs2"} & names) == 1:
                    return True
        return False

    # ------------------------------------------------------------------ bookkeeping
    def nontrivial(self, case, impl_out):
        kind = case["kind"]
        if kind == "regmap":
            return len(case.get("cfg", [])) >= 2 or any(s[3] for s in case.get("cfg", [])) or bool(case.get("default"))
        if kind == "lower":
            return ("iter_args" in case["mlir"] or "-> (!accfg.state" in case["mlir"]) and "accfg.setup" in case["mlir"]
        if kind == "rocc":
            return " from %" in case["mlir"]
        return True

    def stats_key(self, case, impl_out):
        k = case["kind"] + (":edge" if case.get("edge") else "")
        if k == "regmap":
            k += ":" + case["acc"] + (":via_config" if case.get("via_config") else "")
        elif k == "lower":
            k += ":" + "+".join(a["acc"] for a in case["accs"]) + (":malformed" if case.get("malformed") else "")
            if carries_state_and_data(case["mlir"]):
                k += ":state+2data"
            if str(case.get("pre", "")).startswith("group:") or case.get("pre") == "rocc":
                k += ":" + case["pre"]
        if isinstance(impl_out, dict) and "raised" in impl_out:
            k += ":raised:" + impl_out["raised"]
        return k

    def shrink(self, case):
        if case["kind"] == "regmap" and case.get("cfg"):
            cfg = case["cfg"]
            if len(cfg) > 1 and case["acc"] != "xdma":
                for i in range(len(cfg)):
                    yield dict(case, cfg=cfg[:i] + cfg[i + 1:])
            for i, s in enumerate(cfg):
                if len(s[1]) > 1:
                    yield dict(case, cfg=cfg[:i] + [[s[0], s[1][:-1], s[2], s[3]]] + cfg[i + 1:])
                if len(s[2]) > 1:
                    yield dict(case, cfg=cfg[:i] + [[s[0], s[1], s[2][:-1], s[3]]] + cfg[i + 1:])
                for j in range(len(s[3])):
                    yield dict(case, cfg=cfg[:i] + [[s[0], s[1], s[2], s[3][:j] + s[3][j + 1:]]] + cfg[i + 1:])
        elif case["kind"] in ("lower", "rocc"):
            # drop one line of the function body that is not structural
            lines = case["mlir"].split("\n")
            for i, ln in enumerate(lines):
                t = ln.strip()
                # (calls with effects are not removed: the state plumbing of the traced program depends on them)
                if (t.startswith("func.call") and "effects<none>" in t) or (t.startswith("%") and "arith.addi" in t):
                    yield dict(case, mlir="\n".join(lines[:i] + lines[i + 1:]))
            if len(case.get("envs", [])) > 1:
                for e in case["envs"]:
                    yield dict(case, envs=[e])


PROP = C04()
