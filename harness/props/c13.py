"""C13 — cross-core dependencies are separated by a cluster barrier.

case  = an abstract function (buffers, statements: copy / linalg.generic / dart.operation on three accelerators /
        all-cores use / alloc / dealloc / subview / barrier / scf.if / scf.for, nested)
impl  = the REAL `insert-sync-barrier` applied to the rendered MLIR; the output IR converted to the model's block
        form (operation ids, classes evaluated by the real dispatching rules, SSA values, barrier positions)
model = Lean `insertBarriers` on the block form derived from the abstract function (classes as the generator
        knows them) -> must be the same block, barrier for barrier
        + the REAL `snax-to-func` on that output (every barrier becomes one call of @snax_cluster_hw_barrier at the
        same position, deallocs are erased) vs Lean `lowerB`
oracle= the property on the real code, independent of the model: `insert-sync-barrier`, `dispatch-regions` and then
        `snax-to-func` are applied (the order of the real flow); both the dispatched IR and the FINAL lowered code
        (barrier = func.call @snax_cluster_hw_barrier) are checked; the dispatched IR is executed path by path (all branch outcomes; trip counts 0..2 for loops with
        dynamic bounds, the REAL trip count ceil((ub-lb)/step) for loops whose bounds are arith.constant); who runs
        an operation is read off the core guards that dispatch-regions emitted; every barrier must be outside
        every core guard; inside an epoch no two operations of different core sets may touch a common buffer
        with a write.
"""
import itertools
import os
import random

import compat  # noqa: F401
import snaxrun
from framework import Prop

T = "memref<16xi32>"
# which tree the model mirrors: "all" = with F17 + FC13a (common loop) + FC13b (views) [default, what the committed files
# expect], "f17" = F17 only, "orig" = the pinned commit, "d30" = "all" + the OPEN repair proposal fixes/FC13c (D30)
MODEL_FIX = {"fixed": "all"}.get(os.environ.get("C13_MODEL", "all"), os.environ.get("C13_MODEL", "all"))

# ------------------------------------------------------------------------------------------------------------
# abstract programs
#   stmt := ["copy", s, d] | ["gen", a, b, c] | ["dart", acc, a, b, c] | ["use", [bufs]] | ["sync"]
#         | ["call", b] (func.call @ext, all cores, reads+writes b) | ["clear"] (snax.clear_l1)
#         | ["sel", name, ci, x, y] (%name = arith.select %c<ci>, %x, %y: a buffer chosen at run time, as the parity
#           selects of unroll-pipeline; the pass does not follow it: finding DC13b)
#         | ["alloc", name] | ["dealloc", b] | ["sv", name, base(, "cast")] | ["if", then, else|None, ci] | ["for", body, ui]
#           ui = 0|1: dynamic bounds (%lb to %ub<ui> step %st); ui = [lb, ub, step]: three arith.constant index ops
#           in front of the loop (constant trip count = ceil((ub-lb)/step), 0 if empty)
#   buffers are named by strings: "b0".. (function arguments), "m0".. (allocs), "v0".. (subviews)
# classes the generator expects from dispatching_rules.py:
def _dc14a_fixed():
    """an xDMA region whose kernel no extension provides is compute work since the repair of DC14a (C14); 'all' before"""
    import json, os
    f = os.path.join(os.path.dirname(os.path.dirname(os.path.dirname(os.path.abspath(__file__)))), "known_findings.d", "C14.json")
    try:
        return any(e["id"] == "DC14a" and e.get("status") == "fixed" for e in json.load(open(f))["findings"])
    except Exception:
        return False


DART_CLS = {"snax_alu": "cp", "snax_xdma": "dm", "snax_xdma_mul": "cp" if _dc14a_fixed() else "all"}


def render(case):
    """The module: function @f (the one that is compared and executed); with `other`, a second function @g of the same
    module in front of it or behind it - insert-sync-barrier walks the module ONCE and never resets its pending list
    between functions (Lean: C13_module_stateless)."""
    other = case.get("other")
    parts = []
    if any(x[0] == "call" for c in [case] + ([other] if other else []) for x in walk_stmts(c["body"])):
        parts.append(f"func.func private @ext({T}) -> ()\n")
    fn = render_func(case, "f")
    if other:
        g = render_func(other, "g")
        parts += [g, fn] if case.get("pos", "before") == "before" else [fn, g]
    else:
        parts.append(fn)
    return "".join(parts)


def render_func(case, name):
    out = []
    nb = case["nbuf"]
    args = ", ".join(f"%b{i} : {T}" for i in range(nb))
    out.append(f"func.func @{name}({args}, %c0 : i1, %c1 : i1, %lb : index, %ub0 : index, %ub1 : index, %st : index) {{")
    cnt = [0]

    def gen(a, b, c, ind):
        return (f'{ind}linalg.generic {{indexing_maps = [affine_map<(d0) -> (d0)>, affine_map<(d0) -> (d0)>, '
                f'affine_map<(d0) -> (d0)>], iterator_types = ["parallel"]}} ins(%{a}, %{b} : {T}, {T}) outs(%{c} : {T}) {{\n'
                f'{ind}^bb0(%x: i32, %y: i32, %z: i32):\n{ind}  %m = arith.muli %x, %y : i32\n{ind}  linalg.yield %m : i32\n{ind}}}')

    def dart(acc, a, b, c, ind):
        kern = "kernel.mul" if acc == "snax_xdma_mul" else "kernel.add"
        accn = "snax_xdma" if acc.startswith("snax_xdma") else acc
        return (f'{ind}"dart.operation"(%{a}, %{b}, %{c}) <{{patterns = [affine_map<(d0) -> (d0)>, affine_map<(d0) -> (d0)>, '
                f'affine_map<(d0) -> (d0)>], accelerator = "{accn}", operandSegmentSizes = array<i32: 2, 1>}}> ({{\n'
                f'{ind}^bb0(%s0 : !dart.stream<i32>, %s1 : !dart.stream<i32>, %s2 : !dart.stream<i32>):\n'
                f'{ind}  %s3 = "dart.generic"(%s0, %s1) <{{library_call = "{accn}"}}> ({{\n'
                f'{ind}  ^bb1(%p : i32, %q : i32, %r : i32):\n{ind}    %k = {kern} %p, %q : i32, i32 -> i32\n'
                f'{ind}    dart.yield %k : i32\n{ind}  }}) : (!dart.stream<i32>, !dart.stream<i32>) -> !dart.stream<i32>\n'
                f'{ind}  dart.yield %s3 : !dart.stream<i32>\n{ind}}}) : ({T}, {T}, {T}) -> ()')

    def block(stmts, ind):
        for s in stmts:
            k = s[0]
            if k == "copy":
                out.append(f'{ind}"memref.copy"(%{s[1]}, %{s[2]}) : ({T}, {T}) -> ()')
            elif k == "gen":
                out.append(gen(s[1], s[2], s[3], ind))
            elif k == "dart":
                out.append(dart(s[1], s[2], s[3], s[4], ind))
            elif k == "call":
                out.append(f'{ind}func.call @ext(%{s[1]}) : ({T}) -> ()')
            elif k == "clear":
                out.append(f'{ind}"snax.clear_l1"() : () -> ()')
            elif k == "use":
                out.append(f'{ind}"test.op"({", ".join("%" + b for b in s[1])}) : ({", ".join(T for _ in s[1])}) -> ()')
            elif k == "sync":
                out.append(f'{ind}"snax.cluster_sync_op"() : () -> ()')
            elif k == "alloc":
                out.append(f'{ind}%{s[1]} = memref.alloc() : {T}')
            elif k == "dealloc":
                out.append(f'{ind}memref.dealloc %{s[1]} : {T}')
            elif k == "sel":
                out.append(f'{ind}%{s[1]} = arith.select %c{s[2]}, %{s[3]}, %{s[4]} : {T}')
            elif k == "sv" and len(s) > 3 and s[3] == "ucast":
                out.append(f'{ind}%{s[1]} = builtin.unrealized_conversion_cast %{s[2]} : {T} to {T}')
            elif k == "sv" and len(s) > 3 and s[3] == "cast":
                out.append(f'{ind}%{s[1]} = "memref.cast"(%{s[2]}) : ({T}) -> {T}')
            elif k == "sv":
                out.append(f'{ind}%{s[1]} = "memref.subview"(%{s[2]}) <{{static_offsets = array<i64: 0>, static_sizes = array<i64: 16>, '
                           f'static_strides = array<i64: 1>, operandSegmentSizes = array<i32: 1, 0, 0, 0>}}> : ({T}) -> {T}')
            elif k == "if":
                out.append(f"{ind}scf.if %c{s[3] if len(s) > 3 else 0} {{")
                block(s[1], ind + "  ")
                if s[2] is not None:
                    out.append(f"{ind}}} else {{")
                    block(s[2], ind + "  ")
                out.append(f"{ind}}}")
            elif k == "for":
                cnt[0] += 1
                if len(s) > 2 and isinstance(s[2], list):
                    for nm, v in zip(("l", "u", "s"), s[2]):
                        out.append(f"{ind}%k{nm}{cnt[0]} = arith.constant {v} : index")
                    out.append(f"{ind}scf.for %i{cnt[0]} = %kl{cnt[0]} to %ku{cnt[0]} step %ks{cnt[0]} {{")
                else:
                    out.append(f"{ind}scf.for %i{cnt[0]} = %lb to %ub{s[2] if len(s) > 2 else 0} step %st {{")
                block(s[1], ind + "  ")
                out.append(f"{ind}}}")
            else:
                raise ValueError(k)

    block(case["body"], "  ")
    out.append("  func.return")
    out.append("}")
    return "\n".join(out) + "\n"


def abstract_block(case):
    return abstract_prog(case)[0]


def abstract_prog(case):
    """Block form (model JSON) derived from the abstract program alone, and the (view result, source) value pairs."""
    views = []
    eff = []   # [op id, [memref operand values]] of the all-cores operations that access memory (repair FC13c)
    nb = case["nbuf"]
    val = {f"b{i}": i for i in range(nb)}
    val.update({"c0": nb, "c1": nb + 1, "lb": nb + 2, "ub0": nb + 3, "ub1": nb + 4, "st": nb + 5})
    root = {f"b{i}": [f"b{i}"] for i in range(nb)}
    nxt = [nb + 6]
    oid = [0]

    def fresh_id():
        oid[0] += 1
        return oid[0]

    def flat(xs):
        return [y for x in xs for y in (x if isinstance(x, list) else [x])]

    def leaf(cls, vals, reads=(), writes=(), dealloc=False):
        return ["leaf", fresh_id(), cls, sorted(set(vals)), sorted(set(flat(reads))), sorted(set(flat(writes))), bool(dealloc)]

    def V(b):
        return val[b]

    def R(b):  # the buffers a name may denote (one, unless an arith.select lies on the way)
        return [val[x] for x in root[b]]

    def block(stmts):
        res = []
        for s in stmts:
            k = s[0]
            if k == "copy":
                res.append(leaf("dm", [V(s[1]), V(s[2])], [R(s[1])], [R(s[2])]))
            elif k == "gen":
                res.append(leaf("cp", [V(s[1]), V(s[2]), V(s[3])], [R(s[1]), R(s[2])], [R(s[3])]))
            elif k == "dart":
                res.append(leaf(DART_CLS[s[1]], [V(s[2]), V(s[3]), V(s[4])], [R(s[2]), R(s[3])], [R(s[4])]))
            elif k == "call":   # an external function: executed by every core, may read and write its argument
                res.append(leaf("all", [V(s[1])], [R(s[1])], [R(s[1])]))
                eff.append([res[-1][1], [V(s[1])]])
            elif k == "clear":  # snax.clear_l1
                res.append(leaf("all", []))
            elif k == "use":
                res.append(leaf("all", [V(b) for b in s[1]], [R(b) for b in s[1]], []))
                eff.append([res[-1][1], sorted({V(b) for b in s[1]})])
            elif k == "sync":
                res.append(["sync"])
            elif k == "alloc":
                i = fresh_id()
                val[s[1]] = nxt[0]
                root[s[1]] = [s[1]]
                nxt[0] += 1
                res.append(["leaf", i, "all", [val[s[1]]], [], [], False])
            elif k == "dealloc":
                res.append(leaf("all", [V(s[1])], [], [R(s[1])], True))
                eff.append([res[-1][1], [V(s[1])]])
            elif k == "sel":
                i = fresh_id()
                val[s[1]] = nxt[0]
                root[s[1]] = sorted(set(root[s[3]] + root[s[4]]))
                nxt[0] += 1
                res.append(["leaf", i, "all", sorted({val[s[1]], val[f"c{s[2]}"], V(s[3]), V(s[4])}), [], [], False])
            elif k == "sv":
                i = fresh_id()
                val[s[1]] = nxt[0]
                root[s[1]] = root[s[2]]
                views.append([val[s[1]], V(s[2])])
                nxt[0] += 1
                res.append(["leaf", i, "all", sorted({val[s[1]], V(s[2])}), [], [], False])
            elif k == "if":
                l = leaf("all", [val[f"c{s[3] if len(s) > 3 else 0}"]])
                t = block(s[1]) + [leaf("all", [])]
                e = (block(s[2]) + [leaf("all", [])]) if s[2] is not None else []
                res.append(["if", l, t, e])
            elif k == "for":
                if len(s) > 2 and isinstance(s[2], list):
                    kv = []
                    for _ in s[2]:  # arith.constant: an all-cores operation defining one value
                        i = fresh_id()
                        kv.append(nxt[0])
                        res.append(["leaf", i, "all", [nxt[0]], [], [], False])
                        nxt[0] += 1
                    l = leaf("all", kv)
                else:
                    l = leaf("all", [val["lb"], val[f"ub{s[2] if len(s) > 2 else 0}"], val["st"]])
                nxt[0] += 1  # induction variable
                b = block(s[1]) + [leaf("all", [])]
                res.append(["for", l, b])
        return res

    body = block(case["body"])
    body.append(leaf("all", []))  # func.return
    return body, views, eff


# ------------------------------------------------------------------------------------------------------------
# real IR -> block form


class Conv:
    """Numbers operations (pre-order, barriers excluded) and SSA values of a function, before the pass runs;
    converts the function body to the block form afterwards (the same operation objects)."""

    def __init__(self, func_op, ctx):
        from xdsl.dialects import scf
        from snaxc.dialects import snax
        self.scf, self.snax, self.ctx = scf, snax, ctx
        self.func = func_op
        self.val = {}
        self.opid = {}
        self.clears = None
        for a in func_op.body.block.args:
            self.val[a] = len(self.val)
        self._number(func_op.body.block)

    def _number(self, block):
        for op in block.ops:
            if isinstance(op, self.snax.ClusterSyncOp):
                continue
            self.opid[op] = len(self.opid) + 1
            for r in op.results:
                self.val[r] = len(self.val)
            if isinstance(op, (self.scf.ForOp, self.scf.IfOp)):
                for reg in op.regions:
                    for blk in reg.blocks:
                        for a in blk.args:
                            self.val[a] = len(self.val)
                        self._number(blk)

    def roots(self, v, pick=None):
        """The buffers (root SSA values) the value may denote: views are followed to their source; an arith.select
        denotes the operand that `pick(condition)` chooses on this path (both when no path is given)."""
        from xdsl.dialects import arith, memref
        from xdsl.ir import OpResult
        from xdsl.dialects.builtin import UnrealizedConversionCastOp
        while isinstance(v, OpResult) and isinstance(v.op, (memref.SubviewOp, memref.CastOp, UnrealizedConversionCastOp)):
            v = v.op.operands[0]
        if isinstance(v, OpResult) and isinstance(v.op, arith.SelectOp):
            if pick is not None:
                return self.roots(v.op.lhs if pick(v.op.cond) else v.op.rhs, pick)
            out = self.roots(v.op.lhs) + [r for r in self.roots(v.op.rhs)]
            return sorted(set(out), key=lambda r: self.val[r])
        return [v]

    def via_select(self, op):
        """some memref operand of the operation reaches its buffer through an arith.select"""
        from xdsl.dialects import arith, memref
        from xdsl.ir import OpResult
        from xdsl.dialects.builtin import UnrealizedConversionCastOp
        for v in op.operands:
            while isinstance(v, OpResult) and isinstance(v.op, (memref.SubviewOp, memref.CastOp, UnrealizedConversionCastOp)):
                v = v.op.operands[0]
            if isinstance(v, OpResult) and isinstance(v.op, arith.SelectOp):
                return True
        return False

    def cls(self, op):
        from snaxc.util.dispatching_rules import dispatch_to_compute, dispatch_to_dm
        d, c = dispatch_to_dm(op, self.ctx), dispatch_to_compute(op, self.ctx)
        if d and c:
            return "dm+cp"
        return "dm" if d else ("cp" if c else "all")

    def access(self, op, pick=None):
        """(reads, writes) as root SSA values (on the path described by `pick`, see `roots`)."""
        R = lambda vs: [r for v in vs for r in self.roots(v, pick)]  # noqa: E731
        from xdsl.dialects import linalg, memref
        from xdsl.dialects.builtin import MemRefType
        from snaxc.dialects import dart
        if isinstance(op, memref.CopyOp):
            return R([op.source]), R([op.destination])
        if isinstance(op, linalg.GenericOp):
            return R(op.inputs), R(op.outputs)
        if isinstance(op, dart.StreamingRegionOpBase):
            return R(op.inputs), R(op.outputs)
        if isinstance(op, memref.DeallocOp):
            return [], R([op.memref])
        if op.name == "test.op":
            return R([v for v in op.operands if isinstance(v.type, MemRefType)]), []
        if op.name == "func.call" and op.callee.string_value() == "ext":
            bufs = R([v for v in op.operands if isinstance(v.type, MemRefType)])
            return bufs, list(bufs)
        return [], []

    def leaf(self, op):
        from xdsl.dialects import memref
        r, w = self.access(op)
        return ["leaf", self.opid[op], self.cls(op), sorted({self.val[v] for v in [*op.operands, *op.results]}),
                sorted({self.val[v] for v in r}), sorted({self.val[v] for v in w}), isinstance(op, memref.DeallocOp)]

    def top(self, f):
        """Block form of the function body. `snax.clear_l1` is replaced 1:1 by a call of @snax_clear_l1 in snax-to-func:
        the n-th such call stands for the n-th clear_l1 (pre-order)."""
        if self.clears is None:
            self.clears = [self.leaf(op) for op in f.walk() if op.name == "snax.clear_l1"]
        self._clear_it = iter(self.clears)
        return self.block(f.body.block)

    def block(self, block):
        res = []
        for op in block.ops:
            if is_barrier(op):
                res.append(["sync"])
            elif op.name == "func.call" and op.callee.string_value() == "snax_clear_l1":
                nxt = next(self._clear_it, None)
                if nxt is None:
                    raise ValueError("more calls of @snax_clear_l1 than snax.clear_l1 operations")
                res.append(nxt)
            elif isinstance(op, self.scf.IfOp):
                t = self.block(op.true_region.block)
                e = self.block(op.false_region.block) if op.false_region.blocks else []
                res.append(["if", self.leaf(op), t, e])
            elif isinstance(op, self.scf.ForOp):
                res.append(["for", self.leaf(op), self.block(op.body.block)])
            else:
                if op not in self.opid:
                    raise ValueError(f"operation {op.name} appeared during the pass")
                res.append(self.leaf(op))
        return res


def is_barrier(op):
    """A cluster barrier: `snax.cluster_sync_op`, or what snax-to-func lowers it to, `func.call @snax_cluster_hw_barrier`."""
    from xdsl.dialects import func
    from snaxc.dialects import snax
    if isinstance(op, snax.ClusterSyncOp):
        return True
    return isinstance(op, func.CallOp) and op.callee.string_value() == "snax_cluster_hw_barrier"


def lower(ctx, mod):
    """The real `snax-to-func` in place (barriers -> calls of the runtime barrier, deallocs erased)."""
    from snaxc.transforms.snax_to_func import SNAXToFunc
    SNAXToFunc().apply(ctx, mod)
    mod.verify()


def find_func(mod):
    from xdsl.dialects import func
    for o in mod.ops:
        if isinstance(o, func.FuncOp) and o.sym_name.data == "f":
            return o
    raise ValueError("no function f")


def run_real(case, dispatch_cores=None):
    """Parse, verify, number, apply insert-sync-barrier in place; then either snax-to-func (correspondence of the
    lowering, `low`) or dispatch-regions (the oracle continues with snax-to-func itself: the real order of the flow)."""
    from snaxc.transforms.insert_sync_barrier import InsertSyncBarrier
    src = render(case)
    ctx = snaxrun.fresh_ctx()
    from xdsl.parser import Parser
    from snaxc.accelerators.snax_xdma import SNAXXDMAAccelerator
    ctx.register_accelerator("snax_xdma", lambda: SNAXXDMAAccelerator())  # not in the default registry of snax-opt
    try:
        mod = Parser(ctx, src).parse_module()
        mod.verify()
    except Exception as e:  # the INPUT is not a program
        return None, None, {"invalid_input": type(e).__name__}
    f = find_func(mod)
    conv = Conv(f, ctx)
    inp = conv.top(f)
    InsertSyncBarrier().apply(ctx, mod)
    mod.verify()
    if dispatch_cores is not None:
        out_before = conv.top(f)
        struct = Structure(conv, f)
        from snaxc.transforms.dispatch_regions import DispatchRegions
        DispatchRegions(nb_cores=dispatch_cores).apply(ctx, mod)
        mod.verify()
        return mod, conv, {"in": inp, "out": out_before, "struct": struct, "ctx": ctx}
    out = conv.top(f)
    lower(ctx, mod)
    return mod, conv, {"in": inp, "out": out, "low": conv.top(f)}


class Structure:
    """Static facts about the IR after insert-sync-barrier, used only to label a violation."""

    def __init__(self, conv, f):
        self.for_parent = {}
        for op in f.walk():
            if op in conv.opid:
                p = op.parent_op()
                self.for_parent[op] = p if isinstance(p, conv.scf.ForOp) else None


# ------------------------------------------------------------------------------------------------------------
# the machine of the oracle


class Paths:
    """Enumerates decision vectors (branch outcomes of program-level scf.if, trip counts 0..2)."""

    def __init__(self, limit, rng):
        self.limit, self.rng = limit, rng

    def __iter__(self):
        # odometer over the decisions discovered while running; beyond `limit` paths: random vectors
        seen = 0
        stack = [[]]
        while stack and seen < self.limit:
            prefix = stack.pop()
            dec = Decider(prefix)
            yield dec
            seen += 1
            # branch on every decision taken after the prefix
            for i in range(len(prefix), len(dec.taken)):
                for alt in range(dec.arity[i]):
                    if alt != dec.taken[i]:
                        stack.append(dec.taken[:i] + [alt])
        if stack:
            for _ in range(self.limit // 2):
                yield Decider([], self.rng)


class Decider:
    def __init__(self, prefix, rng=None):
        self.prefix, self.rng = list(prefix), rng
        self.taken, self.arity = [], []
        self.by_key = {}

    def choose(self, n, key):
        """Decisions are keyed by the SSA values they depend on: two scf.if on one condition agree, two loops with
        the same bounds run equally often (SSA values are immutable), so only feasible paths are explored."""
        if key in self.by_key:
            return self.by_key[key]
        c = self._choose(n)
        self.by_key[key] = c
        return c

    def _choose(self, n):
        i = len(self.taken)
        if i < len(self.prefix):
            c = self.prefix[i]
        elif self.rng is not None:
            c = self.rng.randrange(n)
        else:
            c = 0
        self.taken.append(c)
        self.arity.append(n)
        return c


def core_guard(op, scf):
    """If `op` is an scf.if emitted by dispatch-regions (condition = cmpi eq(call @snax_cluster_core_idx, const)):
    the core number it selects, else None."""
    from xdsl.dialects import arith, func
    from xdsl.ir import OpResult
    c = op.cond
    if not (isinstance(c, OpResult) and isinstance(c.op, arith.CmpiOp)):
        return None
    cm = c.op
    lhs, rhs = cm.lhs, cm.rhs
    if not (isinstance(lhs, OpResult) and isinstance(lhs.op, func.CallOp) and lhs.op.callee.string_value() == "snax_cluster_core_idx"):
        return None
    if not (isinstance(rhs, OpResult) and isinstance(rhs.op, arith.ConstantOp)):
        return None
    if cm.predicate.value.data != 0:  # eq
        raise ValueError("core guard with an unexpected predicate")
    return rhs.op.value.value.data


def const_trip_count(for_op):
    """The REAL trip count of an scf.for whose lb, ub and step are arith.constant values:
    ceil((ub - lb) / step), 0 for an empty range; None when a bound is not a constant (or the step is not positive)."""
    from xdsl.dialects import arith
    from xdsl.dialects.builtin import IntegerAttr
    from xdsl.ir import OpResult
    vals = []
    for b in (for_op.lb, for_op.ub, for_op.step):
        if not (isinstance(b, OpResult) and isinstance(b.op, arith.ConstantOp) and isinstance(b.op.value, IntegerAttr)):
            return None
        vals.append(b.op.value.value.data)
    lb, ub, step = vals
    if step <= 0:
        return None
    return 0 if ub <= lb else -((lb - ub) // step)


def trace(conv, f, dec, nb_cores):
    """Sequential path through the dispatched function: list of ("sync", cores) | ("op", op, cores, iteration stamp).
    `cores` = frozenset of the cores that execute the operation (intersection of the enclosing core guards)."""
    scf, snax = conv.scf, conv.snax
    allc = frozenset(range(nb_cores))
    ev = []

    def run(block, cores, stamp):
        for op in block.ops:
            if is_barrier(op):
                ev.append(("sync", cores))
            elif isinstance(op, scf.IfOp):
                g = core_guard(op, scf)
                if g is not None:
                    run(op.true_region.block, cores & frozenset([g]), stamp)
                    if op.false_region.blocks:
                        run(op.false_region.block, cores - frozenset([g]), stamp)
                else:
                    ev.append(("op", op, cores, stamp))
                    if dec.choose(2, ("if", op.cond)) == 0:
                        run(op.true_region.block, cores, stamp)
                    elif op.false_region.blocks:
                        run(op.false_region.block, cores, stamp)
            elif isinstance(op, scf.ForOp):
                ev.append(("op", op, cores, stamp))
                n = const_trip_count(op)
                if n is None:  # dynamic bounds: any trip count (0..2 explored)
                    n = dec.choose(3, ("for", op.lb, op.ub, op.step))
                for it in range(n):
                    run(op.body.block, cores, stamp + ((id(op), it),))
            else:
                if op in conv.opid:
                    # a buffer chosen by arith.select: the same decision as an scf.if on that condition
                    ev.append(("op", op, cores, stamp, conv.access(op, lambda c: dec.choose(2, ("if", c)) == 0)))
        return ev

    return run(f.body.block, allc, ())


def check_trace(conv, struct, ev, nb_cores):
    """First violation of the property on one path, or None. -> (what, finding)"""
    allc = frozenset(range(nb_cores))
    epoch = []
    for e in ev:
        if e[0] == "sync":
            if e[1] != allc:
                return (f"a barrier is executed only by cores {sorted(e[1])}: the other cores never arrive (deadlock)", None)
            epoch = []
            continue
        op, cores, stamp = e[1], e[2], e[3]
        r2, w2 = e[4] if len(e) > 4 else ([], [])
        for (op1, cores1, stamp1, r1, w1) in epoch:
            if cores1 == cores:
                continue
            shared = [b for b in w1 if b in r2 or b in w2] + [b for b in r1 if b in w2]
            if not shared:
                continue
            what = (f"op#{conv.opid[op1]} {op1.name} (cores {sorted(cores1)}) and op#{conv.opid[op]} {op.name} (cores {sorted(cores)}) "
                    f"touch buffer v{conv.val[shared[0]]} in the same epoch, one of them writing: no barrier on the path between them")
            return (what, classify(conv, struct, op1, cores1, stamp1, op, cores, stamp, allc))
        epoch.append((op, cores, stamp, r2, w2))
    return None


def classify(conv, struct, op1, cores1, stamp1, op2, cores2, stamp2, allc):
    """Which known defect explains an unsynchronised pair (None = not explained: a new violation)."""
    if cores1 == allc:
        return "D30"       # the dependency starts at an all-cores operation
    v1 = {*op1.operands, *op1.results}
    v2 = {*op2.operands, *op2.results}
    if not (v1 & v2) and (conv.via_select(op1) or conv.via_select(op2)):
        return "DC13b"     # the buffer is chosen at run time by an arith.select, which the pass does not follow
    if not (v1 & v2):
        return "D6"        # the buffer is shared through a view: the two operations share no SSA value (fixed by FC13b)
    # loop-carried: the second event belongs to a later iteration of a loop that contains both
    common = 0
    while common < len(stamp1) and common < len(stamp2) and stamp1[common] == stamp2[common]:
        common += 1
    carried = common < len(stamp1) and common < len(stamp2) and stamp1[common][0] == stamp2[common][0]
    p1, p2 = struct.for_parent.get(op1), struct.for_parent.get(op2)
    if carried and not (p1 is not None and p1 is p2):
        return "DC13a"     # back edge, and the two are not direct children of one scf.for
    return None


# ------------------------------------------------------------------------------------------------------------
# generator


class Gen:
    def __init__(self, rng, nbuf, depth, p_all, p_alias, p_sync, dart):
        self.r, self.nbuf, self.depth = rng, nbuf, depth
        self.p_all, self.p_alias, self.p_sync, self.dart = p_all, p_alias, p_sync, dart
        self.p_sel = 0.12 if rng.random() < 0.12 else 0.0
        self.bufs = [f"b{i}" for i in range(nbuf)]
        self.allocs, self.dead = [], set()
        self.nm = 0

    def pick(self):
        return self.r.choice(self.bufs)

    def stmt(self, depth):
        r = self.r
        k = r.random()
        if depth < self.depth and k < 0.14:
            body = self.block(depth + 1, r.randint(1, 4))
            if r.random() < 0.45:
                return ["for", body, const_bounds(r)]
            return ["for", body, r.randint(0, 1)]
        if depth < self.depth and k < 0.26:
            t = self.block(depth + 1, r.randint(0, 3))
            e = self.block(depth + 1, r.randint(0, 2)) if r.random() < 0.4 else None
            return ["if", t, e, r.randint(0, 1)]
        k = r.random()
        if k < self.p_sync:
            return ["sync"]
        k = r.random()
        if k < self.p_all:
            j = r.random()
            if j < 0.42:
                return ["use", [self.pick() for _ in range(r.randint(1, 2))]]
            if j < 0.47:
                return ["call", self.pick()]
            if j < 0.5:
                return ["clear"]
            if j < 0.7 and depth == 0:
                self.nm += 1
                n = f"m{self.nm}"
                self.bufs.append(n)
                self.allocs.append(n)
                return ["alloc", n]
            live = [a for a in self.allocs if a not in self.dead]
            if live and depth == 0:
                a = r.choice(live)
                self.dead.add(a)
                return ["dealloc", a]
            return ["use", [self.pick()]]
        if r.random() < self.p_sel and depth == 0:
            self.nm += 1
            n = f"s{self.nm}"
            x, y = self.pick(), self.pick()
            self.bufs.append(n)
            return ["sel", n, r.randint(0, 1), x, y]
        if r.random() < self.p_alias and depth == 0:
            self.nm += 1
            n = f"v{self.nm}"
            base = self.pick()
            self.bufs.append(n)
            return ["sv", n, base] + r.choice([[], [], ["cast"], ["ucast"]])
        k = r.random()
        if k < 0.45:
            s, d = self.pick(), self.pick()
            return ["copy", s, d]
        if k < 0.85 or not self.dart:
            return ["gen", self.pick(), self.pick(), self.pick()]
        return ["dart", r.choice(sorted(DART_CLS)), self.pick(), self.pick(), self.pick()]

    def block(self, depth, n):
        return [self.stmt(depth) for _ in range(n)]


def const_bounds(r):
    """[lb, ub, step] of a constant-bound loop: empty ranges, single trips (range < step, = step), ranges that are not
    a multiple of the step (floor and ceil of the trip count differ), exact multiples; at most 4 trips."""
    step = r.choice([1, 2, 2, 3, 3, 4, 5])
    lb = r.choice([0, 0, 1, 2, 5])
    shape = r.random()
    if shape < 0.10:
        span = r.choice([0, -1, -step])                      # empty
    elif shape < 0.25:
        span = r.randint(1, step)                            # one trip
    elif shape < 0.60 and step > 1:
        span = r.randint(step + 1, 2 * step - 1)             # two trips, floor((ub-lb)/step) = 1
    elif shape < 0.75:
        span = 2 * step                                      # two trips, exact
    else:
        span = r.randint(2 * step + 1, 4 * step)             # three or four trips
    return [lb, lb + span, step]


def walk_stmts(stmts):
    for s in stmts:
        yield s
        if s[0] == "for":
            yield from walk_stmts(s[1])
        elif s[0] == "if":
            yield from walk_stmts(s[1])
            if s[2] is not None:
                yield from walk_stmts(s[2])


def gen_case(rng):
    flavour = rng.random()
    p_all = 0.0 if flavour < 0.55 else rng.choice([0.1, 0.25])
    p_alias = 0.0 if flavour < 0.65 else rng.choice([0.1, 0.2])
    g = Gen(rng, rng.randint(2, 4), rng.choice([0, 1, 2, 2, 3]), p_all, p_alias, rng.choice([0.0, 0.08, 0.2]), rng.random() < 0.5)
    body = g.block(0, rng.randint(2, 8))
    return {"kind": "prog", "nbuf": g.nbuf, "body": body}


def gen_kernel(r):
    """Kernel-shaped family: copy-in to a local buffer (DMA core), compute (compute core), copy-out, with the local
    buffers allocated next to their use and DEALLOCATED between producer and consumer / before the copy-out / at the end;
    as a straight line, as the body of a loop (dynamic or constant bounds), inside an scf.if (with and without else),
    and as a loop inside an scf.if; optional pre-existing barrier closing the block."""
    nbuf = r.randint(3, 4)
    b = [f"b{i}" for i in range(nbuf)]
    cnt = [0]

    def kernel():
        cnt[0] += 1
        m1, m2 = f"m{2 * cnt[0] - 1}", f"m{2 * cnt[0]}"
        local_out = r.random() < 0.5
        out = m2 if local_out else r.choice(b)
        st = [["alloc", m1]] + ([["alloc", m2]] if local_out else [])
        src = m1
        if r.random() < 0.3:  # the compute op sees the local buffer through a view (possibly a view of a view)
            for k in range(r.randint(1, 2)):
                v = f"v{3 * cnt[0] + k}"
                st.append(["sv", v, src] + r.choice([[], [], ["cast"], ["ucast"]]))
                src = v
        st.append(["copy", r.choice(b), m1])
        comp = ["dart", "snax_alu", src, src, out] if r.random() < 0.2 else ["gen", src, r.choice([m1, src] + b), out]
        st.append(comp)
        free1 = r.random() < 0.75
        where = r.choice(["between", "after"])
        if free1 and where == "between":
            st.append(["dealloc", m1])
        if r.random() < 0.8:
            st.append(["copy", out, r.choice(b)])
        if free1 and where == "after":
            st.append(["dealloc", m1])
        if local_out and r.random() < 0.7:
            st.append(["dealloc", m2])
        if r.random() < 0.15:
            st.append(["sync"])
        return st

    def loop(body):
        return ["for", body, const_bounds(r) if r.random() < 0.4 else r.randint(0, 1)]

    shape = r.choice(["line", "loop", "loop", "if", "loop-in-if", "if-in-loop", "two"])
    if shape == "line":
        body = kernel()
    elif shape == "loop":
        body = [loop(kernel())]
    elif shape == "if":
        body = [["copy", r.choice(b), r.choice(b)], ["if", kernel(), kernel() if r.random() < 0.4 else None, r.randint(0, 1)]]
    elif shape == "loop-in-if":
        body = [["if", [loop(kernel())], None, r.randint(0, 1)]]
    elif shape == "if-in-loop":
        body = [loop([["if", kernel(), None, r.randint(0, 1)], ["gen", r.choice(b), r.choice(b), r.choice(b)]])]
    else:
        body = kernel() + [loop(kernel())]
    if r.random() < 0.5:
        body.append(r.choice([["copy", r.choice(b), r.choice(b)], ["gen", r.choice(b), r.choice(b), r.choice(b)]]))
    return {"kind": "kernel", "nbuf": nbuf, "body": body}


SMALL_OPS = [["copy", "b0", "b1"], ["copy", "b1", "b0"], ["gen", "b0", "b0", "b1"], ["gen", "b1", "b1", "b0"],
             ["gen", "b0", "b0", "b0"], ["use", ["b0"]], ["use", ["b1"]], ["sync"]]


SMALL_BOUNDS = [(0, 0, 1), (0, 1, 1), (0, 2, 2), (0, 3, 2), (1, 6, 3), (0, 4, 2), (0, 7, 4), (2, 1, 1)]


def exhaustive_cases():
    """Named small space: every sequence of 1..3 operations from SMALL_OPS over two buffers, as a straight line,
    as the body of a loop, and as `first; if { rest }; last`-style conditional (then-branch = all but the first);
    every sequence of 2 operations as the body of a constant-bound loop for each (lb, ub, step) of SMALL_BOUNDS."""
    for n in (1, 2, 3):
        for seq in itertools.product(SMALL_OPS, repeat=n):
            seq = [list(s) for s in seq]
            yield {"kind": "small-line", "nbuf": 2, "body": seq}
            yield {"kind": "small-loop", "nbuf": 2, "body": [["for", seq]]}
            if n == 2:
                for kb in SMALL_BOUNDS:
                    yield {"kind": "small-constloop", "nbuf": 2, "body": [["for", seq, list(kb)]]}
            if n >= 2:
                yield {"kind": "small-if", "nbuf": 2, "body": [seq[0], ["if", seq[1:-1] or [["sync"]], None], seq[-1]] if n == 3 else
                       [seq[0], ["if", [seq[1]], None], seq[1]]}


# ------------------------------------------------------------------------------------------------------------


class C13(Prop):
    id = "C13"
    PARALLEL = True
    exhaustive_thorough = True
    trusted_base = [
        "modelled: InsertSyncBarrier.apply as one structural pre-order walk (pending list, barrier in front of a pending "
        "operation, discharge at barriers = F17 semantics, yield rule, dealloc rule); dispatching_rules.py is NOT modelled: "
        "the class of every operation is data (the generator's expectation on the model side, the real rules on the "
        "implementation side - a difference is a correspondence disagreement)",
        "machine: every core runs the function; dm/compute operations only on their core (read off the core guards that the "
        "real dispatch-regions emits); a barrier releases when all cores arrive; operations inside one epoch are unordered "
        "across cores",
        "buffer accesses: memref.copy reads source / writes destination; linalg.generic and dart.operation read inputs / write "
        "outputs; memref.dealloc counts as a write; test.op (all cores) reads its memref operands; views resolved to their base",
    ]
    assumptions = [
        "single-block function bodies; scf.if / scf.for without memref results or iter_args; control decisions do not depend "
        "on the core",
        "the theorems assume unique operation ids (true of any IR) and name the open defects as clauses: SsaVisible (D6), "
        "NoGlobalBeforeSingleCoreWrite (D30), BackEdgeSiblings (DC13a)",
    ]
    rule = ("random functions (2-4 argument buffers + allocs, 2-8 top-level statements, nesting depth <= 3) of memref.copy, "
            "linalg.generic, dart.operation on snax_alu / snax_xdma(add) / snax_xdma(mul), all-cores uses, allocs, deallocs, "
            "subviews, pre-existing barriers, scf.if (with and without else), scf.for with dynamic bounds and with arith.constant "
            "bounds (empty, single-trip, range not a multiple of the step, up to 4 trips); non-trivial = the pass inserted at "
            "least one barrier")

    def cases(self, rng, tier):
        n = 400 if tier == "quick" else 6000
        for _ in range(n):
            r = random.Random(rng.getrandbits(48))
            c = gen_kernel(r) if r.random() < 0.25 else gen_case(r)
            if r.random() < 0.15:  # a second function in the module, before or after the one under test
                o = gen_kernel(r) if r.random() < 0.5 else gen_case(r)
                c["other"] = {"nbuf": o["nbuf"], "body": o["body"]}
                c["pos"] = r.choice(["before", "before", "after"])
            yield c
        if tier == "thorough":
            yield from exhaustive_cases()

    def impl(self, case):
        _, _, out = run_real(case)
        if "invalid_input" in out:
            return out
        return {"out": out["out"], "in_real": out["in"], "low": out["low"]}

    def requests(self, case):
        body, views, eff = abstract_prog(case)
        full = MODEL_FIX in ("all", "d30")
        return [{"fn": "c13.insert", "args": {"body": body, "fix": "all" if full else MODEL_FIX, "views": views if full else [],
                                              "eff": eff if MODEL_FIX == "d30" else []}}]

    def model(self, case, answers):
        a = answers[0]
        if "err" in a:
            return {"model_error": a["err"]}
        if MODEL_FIX in ("all", "d30") and not a["ok"]["rootVisible"] and not any(x[0] == "sel" for x in walk_stmts(case["body"])):
            return {"model_error": "generated program is outside the theorems' clause RootVisible"}
        if not a["ok"]["nodup"] or not a["ok"]["compoundAll"]:
            return {"model_error": "the block form violates the theorems' well-formedness predicate"}
        return {"out": a["ok"]["out"], "in_real": abstract_block(case), "low": a["ok"]["low"]}

    def compare(self, case, impl_out, model_out):
        if "invalid_input" in impl_out:
            return None
        return super().compare(case, impl_out, model_out)

    def oracle(self, case, impl_out):
        if "invalid_input" in impl_out:
            return []
        if "raised" in impl_out:
            return [{"what": f"insert-sync-barrier raised {impl_out['raised']}: {impl_out.get('msg')}", "finding": None}]
        nb = 2 + (len(str(case["body"])) % 2)  # 2 or 3 cores, derived from the case
        mod, conv, out = run_real(case, dispatch_cores=nb)
        f = find_func(mod)
        found = {}
        # stage 1: the dispatched IR; stage 2: the code that runs, after the real snax-to-func (barrier = call of
        # @snax_cluster_hw_barrier, deallocs gone)
        for stage in ("after dispatch-regions", "after snax-to-func"):
            if stage == "after snax-to-func":
                try:
                    lower(out["ctx"], mod)
                except Exception as e:
                    found[None] = {"what": f"snax-to-func raised {type(e).__name__}: {str(e)[:200]}", "finding": None}
                    break
            rng = random.Random(len(str(case["body"])))
            for dec in Paths(300, rng):
                v = check_trace(conv, out["struct"], trace(conv, f, dec, nb), nb)
                if v is not None and v[1] not in found:
                    found[v[1]] = {"what": v[0] + f" ({stage}; path decisions {dec.taken}, {nb} cores)", "finding": v[1]}
                    if v[1] is None:
                        break
            if None in found:
                break
        # a new violation first
        return sorted(found.values(), key=lambda x: (x["finding"] is not None, str(x["finding"])))

    def nontrivial(self, case, impl_out):
        if "out" not in impl_out:
            return False
        return str(impl_out["out"]).count("'sync'") > str(impl_out.get("in_real")).count("'sync'")

    def stats_key(self, case, impl_out):
        k = super().stats_key(case, impl_out)
        if k != case.get("kind"):
            return k
        s = str(case["body"])
        tags = (["module"] if case.get("other") else []) + (["cloop"] if "], [" in s and any(isinstance(x, list) and x and x[0] == "for" and len(x) > 2 and isinstance(x[2], list)
                                                   for x in walk_stmts(case["body"])) else []) + [t for t, w in (("loop", "'for'"), ("if", "'if'"), ("all", "'use'"), ("view", "'sv'"), ("dart", "'dart'"),
                               ("dealloc", "'dealloc'")) if w in s]
        return k + ":" + "+".join(tags or ["line"])

    def shrink(self, case):
        body = case["body"]
        if case.get("other"):
            yield {k: v for k, v in case.items() if k not in ("other", "pos")}

        def variants(stmts):
            for i, s in enumerate(stmts):
                if s[0] not in ("alloc", "sv"):
                    yield stmts[:i] + stmts[i + 1:]
                if s[0] == "for":
                    yield stmts[:i] + s[1] + stmts[i + 1:]
                    for v in variants(s[1]):
                        yield stmts[:i] + [["for", v] + s[2:]] + stmts[i + 1:]
                if s[0] == "if":
                    yield stmts[:i] + s[1] + stmts[i + 1:]
                    if s[2] is not None:
                        yield stmts[:i] + [["if", s[1], None] + s[3:]] + stmts[i + 1:]
                        for v in variants(s[2]):
                            yield stmts[:i] + [["if", s[1], v] + s[3:]] + stmts[i + 1:]
                    for v in variants(s[1]):
                        yield stmts[:i] + [["if", v, s[2]] + s[3:]] + stmts[i + 1:]

        for b in variants(body):
            yield dict(case, body=b)


PROP = C13()
