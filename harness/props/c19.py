"""C19 — canonical forms and alternative representations denote the same object.

Case kinds
  affine_canon  canonicalize_expr                                   (Model/Affine.lean)
  sp_canon      StridePattern.canonicalize + address sequence       (Model/StridePattern.lean)
  pack          pack_bitlist: emitted shli/ori tree and its value   (Model/PackBits.lean)
  at_tomap / at_frommap / at_compose   AffineTransform              (Model/AffineTransform.lean)
  sp_syntax / cfg_syntax   attribute print -> lex -> parse          (Model/AttrSyntax.lean)
  ap            Access/Schedule/TemplatePattern construct (from a matrix or an AffineMap), canonicalize, inner_dims
  ap_coll       Schedule / Template canonicalize + inner_dims on members with independent bounds
  affine_canon_map   canonicalize_map
  at_eq / at_evalnd / at_postinit   AffineTransform.__eq__, eval (1-D, batch, bad ndim), __post_init__
  opt_table     names of STREAMER_OPT_MAP
"""
import io
import itertools
import json
import random

import compat  # noqa: F401
from framework import Prop
from xdsl.ir.affine import AffineBinaryOpExpr, AffineBinaryOpKind, AffineConstantExpr, AffineDimExpr, AffineExpr

FUEL = 64


def _fixed_ids():
    """ids of C19 findings listed as fixed in known_findings.json: the model variant of the FIXED code is used for
    them (D16 -> printCfgFixed/parseCfgFixed, DC19a -> canonicalizeFixed, DC19b -> eqFixed). Flipping the status in
    known_findings.d/C19.json (+ genindex --findings) after applying the fix diff is the whole switch."""
    import json
    import os
    path = os.path.join(os.path.dirname(os.path.dirname(os.path.dirname(os.path.abspath(__file__)))), "known_findings.json")
    try:
        ents = json.load(open(path)).get("findings", [])
    except OSError:
        return set()
    return {e["id"] for e in ents if e.get("property") == "C19" and e.get("status") == "fixed"}


FIXED = _fixed_ids()
KINDS = {"+": AffineBinaryOpKind.Add, "*": AffineBinaryOpKind.Mul, "//": AffineBinaryOpKind.FloorDiv,
         "%": AffineBinaryOpKind.Mod, "ceildiv": AffineBinaryOpKind.CeilDiv}
TAGS = {v: k for k, v in KINDS.items()}


def to_x(j) -> AffineExpr:
    if j[0] == "d":
        return AffineDimExpr(j[1])
    if j[0] == "c":
        return AffineConstantExpr(j[1])
    return AffineBinaryOpExpr(KINDS[j[0]], to_x(j[1]), to_x(j[2]))


def of_x(e: AffineExpr):
    if isinstance(e, AffineDimExpr):
        return ["d", e.position]
    if isinstance(e, AffineConstantExpr):
        return ["c", e.value]
    if isinstance(e, AffineBinaryOpExpr):
        return [TAGS[e.kind], of_x(e.lhs), of_x(e.rhs)]
    raise ValueError(f"unsupported affine expression {e}")


def depth(j):
    return 0 if j[0] in "dc" else 1 + max(depth(j[1]), depth(j[2]))


def safe_eval(e: AffineExpr, pt):
    try:
        return e.eval(pt, [])
    except ZeroDivisionError:
        return None


def gen_expr(rng: random.Random, d: int, ndims: int, affine_only=False):
    if d == 0 or rng.random() < 0.2:
        if rng.random() < 0.55:
            return ["d", rng.randrange(ndims)]
        return ["c", rng.choice([-3, -2, -1, 0, 0, 1, 1, 2, 3, 4, 5, 8])]
    k = rng.random()
    if k < 0.45:
        return ["+", gen_expr(rng, d - 1, ndims), gen_expr(rng, d - 1, ndims)]
    if k < 0.75:
        # xDSL's smart `*` only supports constant right operands; raw Mul nodes with a constant
        # on either side are what parsers produce
        c = ["c", rng.choice([-2, -1, 0, 1, 1, 2, 3, 4])]
        e = gen_expr(rng, d - 1, ndims)
        return ["*", e, c] if rng.random() < 0.7 else ["*", c, e]
    c = ["c", rng.choice([1, 1, 2, 3, 4, 8, 0, -2])]
    e = gen_expr(rng, d - 1, ndims)
    tag = rng.choice(["//", "%", "%", "//", "ceildiv"])
    return [tag, e, c]


def gen_wild(rng: random.Random, d: int, ndims: int):
    """any operator on any operands: constant sub-expressions that are not folded (3 mod 2), division / modulo by a
    dimension, raw products of dimensions - shapes a parser can produce and canonicalize_expr must survive"""
    if d == 0 or rng.random() < 0.25:
        if rng.random() < 0.5:
            return ["d", rng.randrange(ndims)]
        return ["c", rng.choice([-2, -1, 0, 1, 1, 2, 3, 4])]
    tag = rng.choice(["+", "+", "+", "*", "*", "//", "%", "ceildiv"])
    return [tag, gen_wild(rng, d - 1, ndims), gen_wild(rng, d - 1, ndims)]


def gen_fold(rng: random.Random, ndims: int):
    """sums that xDSL's smart `+` folds while canonicalize_addition rebuilds them (the F18 / D31 path)"""
    a = rng.choice([1, 2, 3, -1])
    x = gen_expr(rng, rng.choice([0, 1, 2]), ndims)
    y = ["d", rng.randrange(ndims)]
    return rng.choice([
        ["+", ["+", ["c", -a], x], ["c", a]],
        ["+", ["c", a], ["+", x, ["c", -a]]],
        ["+", ["+", ["c", -a], y], ["+", x, ["c", a]]],
        ["+", ["+", ["+", ["c", -a], ["+", ["c", a], y]], x], y],
        ["+", ["+", x, ["c", a]], ["+", y, ["c", -a]]],
        ["+", ["*", ["+", y, ["c", a]], ["c", 0]], x],
    ])


def gen_nested_divmod(rng: random.Random, ndims: int):
    """(x op1 c1) op2 c2 with neighbouring constants (range reasoning about remainders / quotients is where an
    off-by-one hides), alone or inside a larger expression"""
    c2 = rng.choice([1, 2, 2, 3, 4, 5, 8])
    c1 = max(1, c2 + rng.choice([-1, 0, 1, 1, 1, 2]))
    x = gen_expr(rng, rng.choice([0, 0, 1]), ndims)
    if x[0] == "c":
        x = ["d", rng.randrange(ndims)]
    core = [rng.choice(["//", "//", "%", "ceildiv"]), [rng.choice(["%", "%", "//", "ceildiv"]), x, ["c", c1]], ["c", c2]]
    r = rng.random()
    if r < 0.5:
        return core
    if r < 0.75:
        return ["+", ["*", core, ["c", rng.choice([2, 4, -1])]], ["d", rng.randrange(ndims)]]
    return ["+", gen_expr(rng, 1, ndims), core]


GRID = [list(p) for p in itertools.product(range(-3, 6), repeat=2)]


# ------------------------------------------------------------------------------------------------
# stride patterns
def seq_of(ub, ts):
    """reference semantics, independent of the Lean model: nested loops, first entry innermost"""
    n = min(len(ub), len(ts))
    out = []
    for t in itertools.product(*[range(b) for b in reversed(ub[:n])]):  # outermost first
        out.append(sum(i * s for i, s in zip(reversed(t), ts)))
    return out


def gen_sp(rng):
    n = rng.choice([0, 1, 2, 2, 3, 3, 4, 5])
    ub = [rng.choice([0, 1, 1, 2, 2, 3, 4, 5]) for _ in range(n)]
    ts = [rng.choice([0, 0, 1, 2, 4, 8, 6, 12, 16, -1, -4, 64]) for _ in range(n)]
    for i in range(1, n):  # make neighbours mergeable
        r = rng.random()
        if r < 0.45:
            ts[i] = ub[i - 1] * ts[i - 1]
        elif r < 0.6 and i >= 2:  # mergeable across a unit / removed dimension
            ts[i] = ub[i - 2] * ts[i - 2] * (ub[i - 1] if ts[i - 1] == ub[i - 2] * ts[i - 2] else 1)
    ss = [rng.choice([0, 1, 8, 8, 16, 64, -8]) for _ in range(rng.choice([0, 1, 1, 2, 2, 3]))]
    if rng.random() < 0.85:
        ss = [s for s in ss if s != 0]
    return ub, ts, ss


def sp_json(sp):
    return {"ub": [x.data for x in sp.upper_bounds], "ts": [x.data for x in sp.temporal_strides],
            "ss": [x.data for x in sp.spatial_strides]}


# ------------------------------------------------------------------------------------------------
# pack_bitlist
def gen_pack(rng):
    w = rng.choice([32, 32, 64])
    k = rng.choice([1, 2, 2, 3, 4, 4, 5, 6, 7, 8, 9])
    if rng.random() < 0.04:
        k = 0
    widths = [rng.randint(1, 10) for _ in range(k)]
    offs, o = [], 0
    for wd in widths:
        o += rng.choice([0, 0, 0, 1, 3])
        offs.append(o)
        o += wd
    if o > w:  # squeeze into the word
        widths = [1] * k
        offs = list(range(k))
    mode = rng.random()
    vals = [rng.getrandbits(wd) for wd in widths]
    if mode < 0.15:   # overlapping / oversized values: only the OR statement is checked
        vals = [rng.getrandbits(rng.randint(1, 12)) for _ in range(k)]
        widths = None
    elif mode < 0.22 and k:  # a negative constant (two's complement in dtype bits)
        vals[rng.randrange(k)] = -rng.randint(1, 128)
        widths = None
    order = list(range(k))
    rng.shuffle(order)
    case = {"kind": "pack", "w": w, "vs": [vals[i] for i in order], "os": [offs[i] for i in order],
            "widths": None if widths is None else [widths[i] for i in order],
            "ssa": [rng.choice([0, 0, 1, 2]) for _ in range(k)], "ssa_off": [rng.choice([0, 0, 0, 1]) for _ in range(k)]}
    if rng.random() < 0.03 and k:
        case["os"] = case["os"][:-1]  # strict zip must raise
        case["ssa_off"] = case["ssa_off"][:-1]
    return case


def run_pack(case):
    """run the real pack_bitlist and interpret the emitted arith ops"""
    from snaxc.util.pack_bitlist import pack_bitlist
    from xdsl.dialects import arith
    from xdsl.ir import SSAValue
    w = case["w"]
    mask = (1 << w) - 1
    env = {}   # SSAValue -> (unbounded value, w-bit value, tree)

    def outside(v, mode):
        op = arith.ConstantOp.from_int_and_width(v, w)
        env[op.result] = (v & mask, v & mask, ("const", v & mask))
        return op if mode == 2 else op.result

    vals = [v if m == 0 else outside(v, m) for v, m in zip(case["vs"], case["ssa"])]
    offs = [o if m == 0 else outside(o, 1) for o, m in zip(case["os"], case["ssa_off"])]
    ops = list(pack_bitlist(vals, offs, w))
    ops2 = list(pack_bitlist(vals, offs, w))   # a second call with the same arguments (generator function, shared SSA values)
    last = None
    index = {}   # result -> position in the emitted list
    oplist = []

    def ref(x):
        x = SSAValue.get(x)
        return ["op", index[x]] if x in index else ["ext", env[x][0]]

    def shape(seq):
        pos = {op_.results[0]: i_ for i_, op_ in enumerate(seq)}
        return [(op_.name, [("op", pos[SSAValue.get(o_)]) if SSAValue.get(o_) in pos else ("ext", id(SSAValue.get(o_)))
                            for o_ in op_.operands], getattr(getattr(op_, "value", None), "value", None)) for op_ in seq]
    repeatable = shape(ops) == shape(ops2)
    for op in ops:
        if isinstance(op, arith.ConstantOp):
            oplist.append(["const", op.value.value.data & mask])
        elif isinstance(op, (arith.ShLIOp, arith.OrIOp)):
            if any(SSAValue.get(o_) not in index and SSAValue.get(o_) not in env for o_ in op.operands):
                return {"poison": f"{op.name} uses a value that is not defined before it"}
            oplist.append(["shl" if isinstance(op, arith.ShLIOp) else "or", ref(op.lhs), ref(op.rhs)])
        index[op.results[0]] = len(oplist) - 1
        if isinstance(op, arith.ConstantOp):
            v = op.value.value.data & mask
            env[op.result] = (v, v, ("const", v))
        elif isinstance(op, arith.ShLIOp):
            a, b = env[SSAValue.get(op.lhs)], env[SSAValue.get(op.rhs)]  # KeyError = use before def
            if b[0] >= w:
                return {"poison": f"arith.shli by {b[0]} >= {w} bits"}
            env[op.result] = (a[0] << b[0], (a[1] << b[1]) & mask, ["shl", a[0], b[0]])
        elif isinstance(op, arith.OrIOp):
            a, b = env[SSAValue.get(op.lhs)], env[SSAValue.get(op.rhs)]
            env[op.result] = (a[0] | b[0], a[1] | b[1], ["or", a[2], b[2]])
        else:
            raise ValueError(f"unexpected op {op.name}")
        if op.results[0].type.width.data != w or any(o.type != op.results[0].type for o in op.operands):
            return {"poison": f"ill-typed {op.name}: operand/result types are not all i{w}"}
        last = op
    if last is None:
        return {"tree": None, "ops": [], "repeatable": repeatable}
    r = env[last.results[0]]
    return {"tree": r[2], "value": r[0], "valueW": r[1], "ops": oplist, "repeatable": repeatable}


# ------------------------------------------------------------------------------------------------
# AffineTransform
def gen_lin_expr(rng, d, nd):
    """expressions admitted by from_affine_map whose products have a dimension-free side"""
    if d == 0 or rng.random() < 0.25:
        if nd and rng.random() < 0.6:
            return ["d", rng.randrange(nd)]
        return ["c", rng.choice([-3, -1, 0, 1, 2, 3, 5])]
    if rng.random() < 0.55:
        return ["+", gen_lin_expr(rng, d - 1, nd), gen_lin_expr(rng, d - 1, nd)]
    c = gen_lin_expr(rng, rng.choice([0, 0, 1]), 0)
    e = gen_lin_expr(rng, d - 1, nd)
    return ["*", e, c] if rng.random() < 0.6 else ["*", c, e]


def tree_positions(j, path=()):
    yield path
    if j[0] not in "dc":
        yield from tree_positions(j[1], path + (1,))
        yield from tree_positions(j[2], path + (2,))


def tree_replace(j, path, f):
    if not path:
        return f(j)
    out = list(j)
    out[path[0]] = tree_replace(j[path[0]], path[1:], f)
    return out


def gen_lin_tree(rng, d, nd):
    """linear skeleton: + with both sides grown, * with a constant on EITHER side (raw nodes, as a parser builds them)"""
    if d == 0:
        return ["d", rng.randrange(nd)] if nd and rng.random() < 0.7 else ["c", rng.choice([-3, -1, 1, 2, 3, 5, 8])]
    if rng.random() < 0.6:
        return ["+", gen_lin_tree(rng, d - 1, nd), gen_lin_tree(rng, rng.choice([0, d - 1]), nd)] if rng.random() < 0.5 \
            else ["+", gen_lin_tree(rng, rng.choice([0, d - 1]), nd), gen_lin_tree(rng, d - 1, nd)]
    c = ["c", rng.choice([-2, -1, 2, 3, 4, 8])]
    e = gen_lin_tree(rng, d - 1, nd)
    return ["*", e, c] if rng.random() < 0.5 else ["*", c, e]


def gen_nonlin(rng, nd, k):
    """a linear skeleton with exactly k nodes (k >= 0), at uniformly chosen positions of the tree, replaced by a
    non-linear node wrapped around the sub-tree: floordiv / mod / ceildiv by a constant or by a dimension, or a raw
    product of two dimensions. Returns (expr, paths of the non-linear nodes)."""
    e = gen_lin_tree(rng, rng.choice([1, 2, 2, 3, 3, 4]), nd)
    pos = list(tree_positions(e))
    chosen = sorted(rng.sample(pos, min(k, len(pos))), key=len, reverse=True)   # deepest first: paths stay valid

    def wrap(sub):
        r = rng.random()
        if r < 0.8 or nd == 0:
            tag = rng.choice(["//", "//", "%", "%", "ceildiv"])
            rhs = ["c", rng.choice([2, 2, 3, 4, 8, 8, 1, -2])] if rng.random() < 0.9 or nd == 0 else ["d", rng.randrange(nd)]
            return [tag, sub, rhs]
        return ["*", ["d", rng.randrange(nd)], ["d", rng.randrange(nd)]]
    for path in chosen:
        e = tree_replace(e, path, wrap)
    return e, [list(p_) for p_ in chosen]


def from_map_box(n, seed):
    """points for the oracle: the box [0,10)^n (sampled beyond 1500 points), so beyond every modulus used (<= 8),
    plus negative and large points"""
    pts = box_points([10] * n, seed) if n else [[]]
    return pts + points(seed, n)


def has_divmod(j):
    return j[0] not in "dc" and (j[0] in ("//", "%", "ceildiv") or has_divmod(j[1]) or has_divmod(j[2]))


def dim_free(j):
    return j[0] == "c" or (j[0] != "d" and dim_free(j[1]) and dim_free(j[2]))


def mul_const_side(j):
    if j[0] in "dc":
        return True
    return (j[0] != "*" or dim_free(j[1]) or dim_free(j[2])) and mul_const_side(j[1]) and mul_const_side(j[2])


def max_dim(j):
    if j[0] == "d":
        return j[1]
    if j[0] == "c":
        return -1
    return max(max_dim(j[1]), max_dim(j[2]))


def gen_mat(rng, rows, cols):
    return [[rng.choice([0, 0, 1, 1, 2, -1, 3, -2, 4, 8]) for _ in range(cols)] for _ in range(rows)]


def gen_T(rng, rows=None, cols=None):
    rows = rng.choice([0, 1, 2, 2, 3, 4]) if rows is None else rows
    cols = rng.choice([0, 1, 2, 2, 3, 4]) if cols is None else cols
    return {"nd": cols, "A": gen_mat(rng, rows, cols), "b": [rng.choice([0, 0, 1, -1, 2, 5, -7]) for _ in range(rows)]}


def mk_T(t):
    import numpy as np
    from snaxc.ir.dart.affine_transform import AffineTransform
    A = np.array(t["A"], dtype=np.int_).reshape(len(t["b"]), t["nd"])
    return AffineTransform(A, np.array(t["b"], dtype=np.int_))


def T_json(t):
    return {"nd": int(t.A.shape[1]), "A": [[int(v) for v in row] for row in t.A], "b": [int(v) for v in t.b]}


def py_affine(t, x):
    return [sum(a * v for a, v in zip(row, x)) + b for row, b in zip(t["A"], t["b"])]


def points(rng_seed, nd, n=6):
    r = random.Random(rng_seed)
    pts = [[0] * nd, [1] * nd] + [[r.randint(-9, 9) for _ in range(nd)] for _ in range(n)]
    pts.append([r.randint(-10 ** 6, 10 ** 6) for _ in range(nd)])
    return pts


# ------------------------------------------------------------------------------------------------
# attribute syntax
_CTX = None


def ctx():
    global _CTX
    if _CTX is None:
        from snaxc.dialects.snax import Snax
        from snaxc.dialects.snax_stream import SnaxStream
        from xdsl.context import Context
        from xdsl.dialects.builtin import Builtin
        _CTX = Context()
        _CTX.load_dialect(Builtin)
        _CTX.load_dialect(Snax)
        _CTX.load_dialect(SnaxStream)
    return _CTX


def attr_text(a):
    from xdsl.printer import Printer
    s = io.StringIO()
    Printer(stream=s).print_attribute(a)
    return s.getvalue()


PUNCT = {"LESS": "<", "GREATER": ">", "L_SQUARE": "[", "R_SQUARE": "]", "COMMA": ",", "MINUS": "-", "EQUAL": "="}


def lex(text):
    """tokens of the real lexer; the leading `#dialect.attr` token is dropped"""
    from xdsl.utils.lexer import Input
    from xdsl.utils.mlir_lexer import MLIRLexer, MLIRTokenKind
    lx = MLIRLexer(Input(text, "<c19>"))
    out = []
    while True:
        tok = lx.lex()
        if tok.kind == MLIRTokenKind.EOF:
            break
        name = tok.kind.name
        if name in PUNCT:
            out.append(PUNCT[name])
        elif name == "BARE_IDENT":
            out.append(["id", tok.text])
        elif name == "INTEGER_LIT":
            out.append(["n", tok.kind.get_int_value(tok.span)])
        elif name == "HASH_IDENT" and not out:
            continue
        else:
            out.append(["other", tok.text])
    return out


def tok_text(toks):
    return " ".join(t if isinstance(t, str) else str(t[1]) for t in toks)


def mutate(toks, mut):
    """deterministic token-level damage used by the malformed stream"""
    if not mut or not toks:
        return toks
    op, k = mut
    i = k % len(toks)
    t = list(toks)
    if op == "del":
        del t[i]
    elif op == "dup":
        t.insert(i, t[i])
    elif op == "swap" and len(t) > 1:
        j = (i + 1) % len(t)
        t[i], t[j] = t[j], t[i]
    elif op == "minus":
        t.insert(i, "-")
    elif op == "comma":
        t.insert(i, ",")
    elif op == "ident":
        t[i] = ["id", "zz"]      # an unknown option / flag / keyword / enum value
    elif op == "opt":
        t[i] = ["id", "bm"] if isinstance(t[i], list) and t[i][0] == "id" else t[i]   # a known option name elsewhere
    return t


def parse_real(prefix, toks):
    from xdsl.parser import Parser
    return Parser(ctx(), prefix + tok_text(toks)).parse_attribute()


def cfg_json(c):
    return {"streamers": [{"ty": s.type.value, "temp": [str(f.value) for f in s.temporal_dims],
                           "spat": [int(d) for d in s.spatial_dims], "opts": [o.name for o in s.opts]}
                          for s in c.streamers], "sys": c.system_type().value}


def mk_cfg(j):
    from snaxc.accelerators.streamers.extensions import STREAMER_OPT_MAP
    from snaxc.accelerators.streamers.streamers import (Streamer, StreamerConfiguration, StreamerSystemType,
                                                       StreamerType)
    ss = [Streamer(StreamerType(s["ty"]), s["temp"], s["spat"], [STREAMER_OPT_MAP[o]() for o in s["opts"]])
          for s in j["streamers"]]
    return StreamerConfiguration(ss, StreamerSystemType(j["sys"]))


OPT_NAMES = ["b", "bm", "c", "a", "maxpool_ext", "memset_ext", "t", "add_ext", "add_ext_long", "rescale_down_ext",
             "rescale_up_ext"]


def gen_cfg(rng):
    def streamer():
        return {"ty": rng.choice("rw"), "temp": [rng.choice("nnnir") for _ in range(rng.choice([0, 1, 2, 3, 3, 5, 6]))],
                "spat": [rng.choice([0, 1, 2, 4, 8, 8, 16, 64]) for _ in range(rng.choice([0, 1, 1, 2, 3]))],
                "opts": [rng.choice(OPT_NAMES) for _ in range(rng.choice([0, 0, 1, 2, 3, 6]))]}
    return {"streamers": [streamer() for _ in range(rng.choice([1, 1, 2, 3, 5]))],
            "sys": "xdma" if rng.random() < 0.1 else "reg"}


def default_cfgs():
    import importlib
    out = []
    for m in ("snax_alu", "snax_gemmx", "snax_xdma", "snax_gemm", "snax_simd", "snax_hypercorex"):
        try:
            mod = importlib.import_module(f"snaxc.accelerators.{m}")
            out.append(cfg_json(mod.default_streamer))
        except Exception:
            pass
    return out


# ------------------------------------------------------------------------------------------------
# AccessPattern / SchedulePattern / TemplatePattern
AP_CLS = {"access": "AccessPattern", "schedule": "SchedulePattern", "template": "TemplatePattern"}
AP_CLS_INV = {v: k for k, v in AP_CLS.items()}


def gen_ap(rng):
    cls = rng.choice(["access", "schedule", "schedule", "template", "template"])
    n = rng.choice([0, 1, 2, 3, 3, 4, 5])
    if cls == "schedule":
        pool = [1, 1, 1, 2, 2, 3, 4, 8]
        bounds = [rng.choice(pool) for _ in range(n)]
        if rng.random() < 0.06 and n:
            bounds[rng.randrange(n)] = rng.choice([0, -1, None])  # the constructor must refuse
            if rng.random() < 0.5:
                bounds[rng.randrange(n)] = rng.choice([0, None])
    else:
        pool = [None, None, 1, 1, 1, 2, 2, 3, 4, 8]
        bounds = [rng.choice(pool) for _ in range(n)]
        if rng.random() < 0.05 and n:
            bounds[rng.randrange(n)] = rng.choice([0, 0, -2])        # lossy case (DC19a)
    nd = n if rng.random() < 0.96 else max(0, n + rng.choice([-1, 1]))
    t = gen_T(rng, rows=rng.choice([0, 1, 1, 2, 3]), cols=nd)
    t["A"] = [[v if rng.random() < 0.8 else rng.choice([5, 7, 16, -3]) for v in row] for row in t["A"]]
    case = {"kind": "ap", "cls": cls, "bounds": bounds, "t": t, "map": None,
            "dim": rng.choice([-1, 0, 1, 1, 2, 2, 3, n, n + 2])}
    if rng.random() < 0.25:   # constructed from an AffineMap: AccessPattern.__init__ converts it
        r = rng.random()
        if r < 0.7:
            rs = [gen_lin_expr(rng, rng.choice([0, 1, 2, 3]), nd) for _ in range(rng.choice([0, 1, 2, 3]))]
        elif r < 0.93:
            rs = [gen_expr(rng, 2, max(nd, 1))]
        elif r < 0.97 and nd:
            rs = [gen_nonlin(rng, nd, rng.choice([1, 1, 2]))[0]]
        else:
            rs = [["+", gen_lin_expr(rng, 1, nd), ["d", nd]]]
        case["map"] = {"n": nd, "rs": rs}
        case["t"] = None
    return case


def gen_at_eq(rng):
    s_ = gen_T(rng)
    r = rng.random()
    o = {"nd": s_["nd"], "A": [list(x) for x in s_["A"]], "b": list(s_["b"])}
    if r < 0.3:
        pass
    elif r < 0.5 and o["b"]:
        i = rng.randrange(len(o["b"]))
        if o["nd"] and rng.random() < 0.6:
            o["A"][i][rng.randrange(o["nd"])] += rng.choice([1, -1, 5])
        else:
            o["b"][i] += 1
    elif r < 0.65:      # one row against k equal rows (numpy would broadcast)
        row = [rng.choice([0, 1, 2, -1]) for _ in range(s_["nd"])]
        k = rng.choice([0, 2, 3])
        s_ = {"nd": s_["nd"], "A": [row], "b": [4]}
        o = {"nd": s_["nd"], "A": [list(row) for _ in range(k)], "b": [4] * k}
    elif r < 0.8:       # one column against k equal columns
        rows = rng.choice([1, 2, 3])
        col = [rng.choice([0, 1, 2]) for _ in range(rows)]
        k = rng.choice([0, 2, 3])
        b = [rng.choice([0, 1]) for _ in range(rows)]
        s_ = {"nd": 1, "A": [[c] for c in col], "b": b}
        o = {"nd": k, "A": [[c] * k for c in col], "b": list(b)}
    else:
        o = gen_T(rng)
    if rng.random() < 0.5:
        s_, o = o, s_
    return {"kind": "at_eq", "s": s_, "o": o}


def gen_at_evalnd(rng):
    t = gen_T(rng)
    ndim = rng.choice([1, 1, 1, 2, 2, 2, 0, 3])
    k = t["nd"] if rng.random() < 0.85 else t["nd"] + rng.choice([1, 2])
    m = 1 if ndim == 1 else rng.choice([0, 1, 2, 4])
    xs = [[rng.randint(-9, 9) for _ in range(k)] for _ in range(m)]
    return {"kind": "at_evalnd", "t": t, "ndim": ndim, "xs": xs, "k": k}


def gen_at_postinit(rng):
    r, c = rng.choice([0, 1, 2, 3]), rng.choice([0, 1, 2, 3])
    a_shape = rng.choice([[r, c], [r, c], [r, c], [r], [r, c, 1], []])
    b_shape = rng.choice([[r], [r], [r], [r + 1], [r, 1], [], [c]])
    return {"kind": "at_postinit", "a_shape": a_shape, "b_shape": b_shape}


def gen_ap_coll(rng):
    """a Schedule / Template whose members have INDEPENDENT bounds: unit dimensions at different positions, different
    extents, sometimes different ranks and numbers of results"""
    cls = rng.choice(["schedule", "template"])
    m = rng.choice([1, 2, 2, 2, 3, 3, 4])
    n0 = rng.choice([1, 2, 2, 3, 3, 4])
    pool = [1, 1, 1, 2, 2, 3, 4, 5, 8] if cls == "schedule" else [None, 1, 1, 1, 2, 3, 4, 8]
    base = [rng.choice(pool) for _ in range(n0)]
    pats = []
    for i in range(m):
        r = rng.random()
        if i == 0 or r < 0.15:
            bounds = list(base)                       # shared bounds (what dart-scheduler builds)
        elif r < 0.5:
            bounds = list(base)
            rng.shuffle(bounds)                       # the unit dimensions sit elsewhere
        elif r < 0.85:
            bounds = [rng.choice(pool) for _ in range(n0)]
        else:
            bounds = [rng.choice(pool) for _ in range(rng.choice([0, 1, 2, 3, 4]))]   # another rank
        if cls == "template" and rng.random() < 0.03 and bounds:
            bounds[rng.randrange(len(bounds))] = 0
        t = gen_T(rng, rows=rng.choice([1, 1, 2, 3]), cols=len(bounds))
        t["A"] = [[v if v != 0 or rng.random() < 0.5 else rng.choice([1, 5, 7, 16]) for v in row] for row in t["A"]]
        pats.append({"bounds": bounds, "t": t})
    if rng.random() < 0.5:
        rng.shuffle(pats)                             # the member with the "reference" bounds is not always first
    return {"kind": "ap_coll", "cls": cls, "patterns": pats, "dim": rng.choice([0, 1, 1, 2, 2, 3, n0, n0 + 1])}


def mk_ap(cls, bounds, t, amap=None):
    import snaxc.ir.dart.access_pattern as apm
    if amap is not None:
        from xdsl.ir.affine import AffineMap
        return getattr(apm, AP_CLS[cls])(bounds, AffineMap(amap["n"], 0, tuple(to_x(r) for r in amap["rs"])))
    return getattr(apm, AP_CLS[cls])(bounds, mk_T(t))


def ap_json(p):
    return {"cls": AP_CLS_INV.get(type(p).__name__, type(p).__name__),
            "bounds": [None if b is None else int(b) for b in p.bounds], "t": T_json(p.pattern)}


def box_points(bounds, seed, dyn=3, limit=1500):
    """points of the iteration box; dynamic dims are sampled at 0..dyn-1 and two larger indices"""
    ranges = [list(range(dyn)) + [7, 1000] if b is None else list(range(b)) for b in bounds]
    size = 1
    for r in ranges:
        size *= len(r)
    if size <= limit:
        return [list(x) for x in itertools.product(*ranges)]
    r = random.Random(seed)
    return [[r.choice(rg) for rg in ranges] for _ in range(limit)]


class C19(Prop):
    id = "C19"
    PARALLEL = True
    exhaustive_thorough = True
    trusted_base = [
        "modelled: canonicalize_affine.py incl. xDSL's AffineExpr.__add__/__mul__ smart constructors (Model/Affine.lean)",
        "modelled: StridePattern.canonicalize (Model/StridePattern.lean); the address-sequence semantics `offs` is "
        "compared with the harness's nested-loop enumeration on every case",
        "modelled: pack_bitlist op tree (Model/PackBits.lean); the harness interprets the real emitted arith ops",
        "modelled: AffineTransform eval/compose/to_affine_map/from_affine_map over unbounded integers (Model/AffineTransform.lean)",
        "modelled: AccessPattern/SchedulePattern/TemplatePattern constructors, canonicalize, inner_dims (Model/AccessCanon.lean)",
        "modelled at token level: StridePattern / StreamerConfigurationAttr print+parse (Model/AttrSyntax.lean); "
        "xDSL's MLIR lexer and parser primitives are exercised, not modelled",
    ]
    assumptions = [
        "affine expressions with symbols are outside the model (canonicalize_affine.py never creates or inspects them)",
        "Python recursion depth is not modelled: the model uses fuel 64 per expression; running out of fuel where Python answers is a disagreement",
        "stride patterns: the theorems are about natural upper bounds; negative bounds are modelled (stepZ) and compared "
        "with the real code but outside the property's quantifier (canonicalize turns bounds [-1,-1] strides [s,-s] into "
        "bound [1], and a second pass removes it)",
        "pack_bitlist: values/offsets are interpreted as dtype-bit unsigned words; shift amounts >= dtype (poison for "
        "arith.shli) are not generated",
        "AffineTransform: numpy int64 overflow is not modelled (the model is over unbounded Int)",
        "access patterns: the iteration box of a dynamic (None) bound is all naturals; the oracle samples indices "
        "0,1,2,7,1000 on such dimensions; PatternCollection.clear_unused_dims, rotate, tile_dim, add_dim belong to C03",
    ]
    rule = ("per kind: affine_canon non-trivial = canonical form differs from the input; sp_canon = canonical pattern "
            "differs; pack = at least 2 fields; at_* = at least one row and one column; ap = at least one result and a dimension removed; syntax = unmutated round trip "
            "with a non-empty list; distinct by canonical JSON")

    # -- generators -----------------------------------------------------------------------------
    def cases(self, rng, tier):
        quick = tier == "quick"
        yield {"kind": "opt_table"}
        for c in default_cfgs():
            yield {"kind": "cfg_syntax", "cfg": c, "mut": None}
        n = 600 if quick else 20000
        for _ in range(n):
            nd = rng.choice([2, 2, 3])
            r = rng.random()
            if r < 0.7:
                e = gen_expr(rng, rng.choice([1, 2, 3, 4, 4]), nd)
            elif r < 0.8:
                e = gen_wild(rng, rng.choice([1, 2, 3, 4]), nd)
            elif r < 0.9:
                e = gen_nested_divmod(rng, nd)
            else:
                e = gen_fold(rng, nd)
            yield {"kind": "affine_canon", "e": e, "ndims": nd}
        for _ in range(120 if quick else 3000):
            nd = rng.choice([1, 2, 3])
            rs = [gen_expr(rng, rng.choice([0, 1, 2, 3]), nd) if rng.random() < 0.8 else gen_fold(rng, nd)
                  for _ in range(rng.choice([0, 1, 2, 3, 4]))]
            yield {"kind": "affine_canon_map", "rs": rs, "ndims": nd}
        for _ in range(200 if quick else 5000):
            yield gen_at_eq(rng)
        for _ in range(200 if quick else 5000):
            yield gen_at_evalnd(rng)
        for _ in range(60 if quick else 600):
            yield gen_at_postinit(rng)
        if not quick:  # exhaustive: all patterns of rank <= 3 over bounds {0,1,2,3} x strides {0,1,2,3,6} (8420 patterns)
            for n_ in range(4):
                for ub in itertools.product([0, 1, 2, 3], repeat=n_):
                    for ts in itertools.product([0, 1, 2, 3, 6], repeat=n_):
                        yield {"kind": "sp_canon", "ub": list(ub), "ts": list(ts), "ss": [8]}
        for _ in range(500 if quick else 15000):
            ub, ts, ss = gen_sp(rng)
            if rng.random() < 0.02 and ub:
                ts = ts[:-1]  # verify must refuse
            if rng.random() < 0.06 and ub:   # negative bounds: outside the property, inside the model
                i_ = rng.randrange(len(ub))
                ub = ub[:i_] + [rng.choice([-1, -1, -2, -3])] + ub[i_ + 1:]
                if rng.random() < 0.5 and i_ + 1 < min(len(ub), len(ts)):
                    ub[i_ + 1] = rng.choice([-1, -2])
                    ts[i_ + 1] = ub[i_] * ts[i_]
            yield {"kind": "sp_canon", "ub": ub, "ts": ts, "ss": ss}
        for _ in range(300 if quick else 8000):
            yield gen_pack(rng)
        for _ in range(150 if quick else 4000):
            yield {"kind": "at_tomap", "t": gen_T(rng), "seed": rng.randrange(1 << 30)}
        for _ in range(250 if quick else 6000):
            nd = rng.choice([0, 1, 2, 2, 3, 4])
            r = rng.random()
            if r < 0.8:
                rs = [gen_lin_expr(rng, rng.choice([0, 1, 2, 3, 4]), nd) for _ in range(rng.choice([0, 1, 1, 2, 3]))]
            elif r < 0.9:   # rejected: floordiv / mod / ceildiv somewhere
                rs = [gen_expr(rng, rng.choice([1, 2, 3]), max(nd, 1)) for _ in range(rng.choice([1, 2]))]
                nd = max(nd, 1)
            elif r < 0.95:  # IndexError: a dimension beyond num_dims
                rs = [["+", gen_lin_expr(rng, 2, nd), ["d", nd + rng.choice([0, 1])]]]
            else:           # not affine: raw product of two dimension-carrying sides
                nd = max(nd, 2)
                rs = [["*", gen_lin_expr(rng, 1, nd), ["+", ["d", 0], ["d", 1]]]]
            yield {"kind": "at_frommap", "n": nd, "rs": rs, "seed": rng.randrange(1 << 30)}
        for _ in range(300 if quick else 8000):   # non-linear nodes at uniformly chosen tree positions + linear controls
            nd = rng.choice([1, 2, 2, 3])
            k = rng.choice([0, 1, 1, 1, 1, 1, 2, 2, 3])
            e, where = gen_nonlin(rng, nd, k)
            rs = [e]
            if rng.random() < 0.3:   # next to linear results, before or after
                other = gen_lin_tree(rng, rng.choice([0, 1, 2]), nd)
                rs = [other, e] if rng.random() < 0.5 else [e, other]
            yield {"kind": "at_frommap", "n": nd, "rs": rs, "seed": rng.randrange(1 << 30), "nonlinear_at": where}
        for _ in range(200 if quick else 5000):
            mid = rng.choice([0, 1, 2, 2, 3])
            s = gen_T(rng, cols=mid)
            o = gen_T(rng, rows=mid if rng.random() < 0.93 else mid + 1)
            yield {"kind": "at_compose", "s": s, "o": o, "seed": rng.randrange(1 << 30)}
        for _ in range(500 if quick else 12000):
            yield gen_ap(rng)
        for _ in range(400 if quick else 10000):
            yield gen_ap_coll(rng)
        muts = ["del", "dup", "swap", "minus", "comma", "ident", "opt"]
        for _ in range(250 if quick else 6000):
            n1 = rng.choice([0, 1, 2, 3, 5])
            ub = [rng.choice([0, 1, 2, 3, 16, -1, 1024]) for _ in range(n1)]
            ts = [rng.choice([0, 1, -8, 64, 7, 123456789]) for _ in range(n1)]
            ss = [rng.choice([0, 8, -8, 1]) for _ in range(rng.choice([0, 1, 2, 3]))]
            mut = [rng.choice(muts), rng.randrange(1000)] if rng.random() < 0.4 else None
            yield {"kind": "sp_syntax", "ub": ub, "ts": ts, "ss": ss, "mut": mut}
        for _ in range(300 if quick else 8000):
            mut = [rng.choice(muts), rng.randrange(1000)] if rng.random() < 0.4 else None
            yield {"kind": "cfg_syntax", "cfg": gen_cfg(rng), "mut": mut}

    # -- real code ------------------------------------------------------------------------------
    # -- results must not depend on what the process computed before (state kept across calls) ---------------
    _neighbours = None

    def neighbours(self, kind):
        """two fixed other cases of the same kind, run between the two evaluations of a case"""
        if C19._neighbours is None:
            nb = {}
            for c in self.cases(random.Random(424242), "quick"):
                if len(nb.setdefault(c["kind"], [])) < 2 and not c.get("mut"):
                    nb[c["kind"]].append(c)
            C19._neighbours = nb
        return C19._neighbours.get(kind, [])

    def impl(self, case):
        out = self._impl1(case)
        if isinstance(out, dict) and case["kind"] != "opt_table":
            for c2 in self.neighbours(case["kind"]):
                try:
                    self._impl1(c2)
                except Exception:
                    pass
            try:
                out2 = self._impl1(case)
            except Exception as e:  # noqa: BLE001
                out2 = {"raised": type(e).__name__}
            out = dict(out, stable=json.dumps(out2, sort_keys=True, default=str) == json.dumps(out, sort_keys=True, default=str))
        return out

    def _impl1(self, case):
        k = case["kind"]
        if k == "affine_canon":
            from snaxc.util.canonicalize_affine import canonicalize_expr
            e = to_x(case["e"])
            r = canonicalize_expr(e)
            return {"canon": of_x(r)}
        if k == "affine_canon_map":
            from snaxc.util.canonicalize_affine import canonicalize_map
            from xdsl.ir.affine import AffineMap
            m = canonicalize_map(AffineMap(case["ndims"], 0, tuple(to_x(r) for r in case["rs"])))
            assert m.num_dims == case["ndims"] and m.num_symbols == 0
            return {"results": [of_x(r) for r in m.results]}
        if k == "at_eq":
            other = bool(mk_T(case["s"]) == 5) or bool(mk_T(case["s"]) == case["s"]["A"])   # not an AffineTransform
            return {"ok": bool(mk_T(case["s"]) == mk_T(case["o"])), "eq_other_type": other}
        if k == "at_evalnd":
            import numpy as np
            t = mk_T(case["t"])
            nd_, xs, kk = case["ndim"], case["xs"], case["k"]
            if nd_ == 1:
                x = np.array(xs[0], dtype=np.int_)
            elif nd_ == 2:
                x = np.array(xs, dtype=np.int_).reshape(len(xs), kk)
            elif nd_ == 0:
                x = np.array(5)
            else:
                x = np.array(xs, dtype=np.int_).reshape(1, len(xs), kk)
            y = t.eval(x)
            return {"ok": [[int(v) for v in y]] if nd_ == 1 else [[int(v) for v in row] for row in y]}
        if k == "at_postinit":
            import numpy as np
            from snaxc.ir.dart.affine_transform import AffineTransform
            AffineTransform(np.zeros(case["a_shape"], dtype=np.int_), np.zeros(case["b_shape"], dtype=np.int_))
            return {"ok": None}
        if k == "sp_canon":
            from snaxc.dialects.snax_stream import StridePattern
            sp = StridePattern(case["ub"], case["ts"], case["ss"])  # VerifyException on unequal lengths
            return {"canon": sp_json(sp.canonicalize()), "addrs": seq_of(case["ub"], case["ts"])}
        if k == "pack":
            return run_pack(case)
        if k == "at_tomap":
            m = mk_T(case["t"]).to_affine_map()
            assert m.num_dims == case["t"]["nd"] and m.num_symbols == 0
            return {"results": [of_x(r) for r in m.results]}
        if k == "at_frommap":
            from snaxc.ir.dart.affine_transform import AffineTransform
            from xdsl.ir.affine import AffineMap
            m = AffineMap(case["n"], 0, tuple(to_x(r) for r in case["rs"]))
            t = AffineTransform.from_affine_map(m)
            tj = T_json(t)
            if not case["rs"]:  # numpy gives shape (0, n) / (0,)
                tj = {"nd": case["n"], "A": [], "b": []}
            return {"ok": tj}
        if k == "at_compose":
            import numpy as np
            s, o = mk_T(case["s"]), mk_T(case["o"])
            c = s.compose(o)
            evs = [[int(v) for v in c.eval(np.array(x, dtype=np.int_))] for x in points(case["seed"], case["o"]["nd"])]
            return {"ok": T_json(c), "evals": evs}
        if k == "sp_syntax":
            from snaxc.dialects.snax_stream import StridePattern
            sp = StridePattern(case["ub"], case["ts"], case["ss"])
            toks = lex(attr_text(sp))
            try:
                parsed = sp_json(parse_real("#snax_stream.stride_pattern", mutate(toks, case["mut"])))
            except Exception:
                parsed = "error"
            return {"toks": toks, "parsed": parsed}
        if k == "cfg_syntax":
            from snaxc.dialects.snax import StreamerConfigurationAttr
            a = StreamerConfigurationAttr(mk_cfg(case["cfg"]))  # AssertionError for no streamers
            toks = lex(attr_text(a))
            try:
                parsed = cfg_json(parse_real("#snax.streamer_config", mutate(toks, case["mut"])).data)
            except Exception:
                parsed = "error"
            return {"toks": toks, "parsed": parsed}
        if k == "ap":
            import snaxc.ir.dart.access_pattern as apm
            p = mk_ap(case["cls"], case["bounds"], case["t"], case.get("map"))   # ValueError / TypeError / IndexError
            canon = ap_json(p.canonicalize())
            try:
                inner = ap_json(p.inner_dims(case["dim"]))
            except ValueError:
                inner = {"raised": "ValueError"}
            coll_same = True
            coll = {"schedule": apm.Schedule, "template": apm.Template}.get(case["cls"])
            if coll is not None:   # the collection-level entry points go through the same code
                c = coll([p, p])
                coll_same = [ap_json(q) for q in c.canonicalize()] == [canon, canon]
                if "raised" not in inner:
                    coll_same = coll_same and [ap_json(q) for q in c.inner_dims(case["dim"])] == [inner, inner]
            return {"built": ap_json(p), "canon": canon, "inner": inner, "coll_same": coll_same}
        if k == "ap_coll":
            import snaxc.ir.dart.access_pattern as apm
            pats = [mk_ap(case["cls"], q["bounds"], q["t"]) for q in case["patterns"]]
            before = [ap_json(q) for q in pats]
            coll = {"schedule": apm.Schedule, "template": apm.Template}[case["cls"]](pats)
            res = coll.canonicalize()
            canon = [ap_json(q) for q in res]
            try:
                inner = [ap_json(q) for q in coll.inner_dims(case["dim"])]
            except ValueError:
                inner = {"raised": "ValueError"}
            again = [ap_json(q) for q in coll.canonicalize()]          # a second call on the same object
            fresh = {"schedule": apm.Schedule, "template": apm.Template}[case["cls"]](list(reversed(pats)))
            rev = [ap_json(q) for q in fresh.canonicalize()]            # member order must not matter
            copy_ = {"schedule": apm.Schedule, "template": apm.Template}[case["cls"]](
                [mk_ap(case["cls"], q["bounds"], q["t"]) for q in case["patterns"]])
            return {"coll_cls": type(res).__name__, "canon": canon, "inner": inner,
                    "eq_copy": bool(coll == copy_) and bool(copy_ == coll), "eq_canon": bool(coll == res),
                    "eq_other": bool(coll == 5) or bool(coll == fresh and len(pats) > 1 and before != list(reversed(before))),
                    "orig_unchanged": [ap_json(q) for q in coll] == before and [ap_json(q) for q in pats] == before,
                    "repeatable": again == canon, "order_independent": list(reversed(rev)) == canon}
        if k == "opt_table":
            from snaxc.accelerators.streamers.extensions import STREAMER_OPT_MAP
            return {"names": sorted(STREAMER_OPT_MAP.keys()),
                    "classes_distinct": len({v for v in STREAMER_OPT_MAP.values()}) == len(STREAMER_OPT_MAP),
                    "name_is_key": all(v().name == key for key, v in STREAMER_OPT_MAP.items())}
        raise ValueError(k)

    # -- model ----------------------------------------------------------------------------------
    def requests(self, case):
        k = case["kind"]
        if k == "affine_canon":
            return [{"fn": "c19.canon", "args": {"e": case["e"], "fuel": FUEL}}]
        if k == "affine_canon_map":
            return [{"fn": "c19.canon_map", "args": {"rs": case["rs"], "fuel": FUEL}}]
        if k == "at_eq":
            return [{"fn": "c19.at_eq", "args": {"s": case["s"], "o": case["o"], "fixed": "DC19b" in FIXED}}]
        if k == "at_evalnd":
            return [{"fn": "c19.at_evalnd", "args": {"t": case["t"], "ndim": case["ndim"], "xs": case["xs"], "k": case["k"]}}]
        if k == "at_postinit":
            return [{"fn": "c19.at_postinit", "args": {"a_shape": case["a_shape"], "b_shape": case["b_shape"]}}]
        if k == "sp_canon":
            args = {"ub": case["ub"], "ts": case["ts"], "ss": case["ss"]}
            reqs = [{"fn": "c19.sp_canon_z", "args": args}]          # the loop on integer bounds
            if all(b >= 0 for b in case["ub"]):
                reqs.append({"fn": "c19.sp_canon", "args": args})    # the natural-bound model the theorems are about
            return reqs
        if k == "pack":
            mask = (1 << case["w"]) - 1
            def src(v, m):
                return ["lit" if m == 0 else "ext", v & mask]
            return [{"fn": "c19.pack", "args": {"vs": [v & mask for v in case["vs"]], "os": case["os"], "w": case["w"]}},
                    {"fn": "c19.pack_ops", "args": {"vs": [src(v, m) for v, m in zip(case["vs"], case["ssa"])],
                                                    "os": [src(o, m) for o, m in zip(case["os"], case["ssa_off"])]}}]
        if k == "at_tomap":
            return [{"fn": "c19.at_tomap", "args": case["t"]}]
        if k == "at_frommap":
            return [{"fn": "c19.at_frommap", "args": {"n": case["n"], "rs": case["rs"]}}]
        if k == "at_compose":
            return [{"fn": "c19.at_compose_eval", "args": {"s": case["s"], "o": case["o"],
                                                            "xs": points(case["seed"], case["o"]["nd"])}}]
        if k == "sp_syntax":
            return [{"fn": "c19.sp_syntax", "args": {"ub": case["ub"], "ts": case["ts"], "ss": case["ss"],
                                                     "mut": case["mut"], "fixed": "DC19c" in FIXED}}]
        if k == "cfg_syntax":
            return [{"fn": "c19.cfg_syntax", "args": {"cfg": case["cfg"], "mut": case["mut"], "fixed": "D16" in FIXED}}]
        if k == "ap":
            args = {"cls": case["cls"], "bounds": case["bounds"], "dim": case["dim"], "map": case.get("map"),
                    "fixed": "DC19a" in FIXED}
            if case.get("map") is None:
                args["t"] = case["t"]
            return [{"fn": "c19.ap", "args": args}]
        if k == "ap_coll":
            return [{"fn": "c19.ap", "args": {"cls": case["cls"], "bounds": q["bounds"], "dim": case["dim"], "map": None,
                                              "t": q["t"], "fixed": "DC19a" in FIXED}} for q in case["patterns"]]
        if k == "opt_table":
            return [{"fn": "c19.opt_table", "args": {}}]
        return []

    def model(self, case, answers):
        out = self._model1(case, answers)
        if isinstance(out, dict) and case["kind"] != "opt_table" and not ({"raised", "model_error", "out_of_fuel"} & set(out)):
            out = dict(out, stable=True)
        return out

    def _model1(self, case, answers):
        k = case["kind"]
        if k == "ap_coll":
            for a_ in answers:
                if "err" in a_:
                    return {"model_error": a_["err"]}
                if "raised" in a_["ok"]:
                    return a_["ok"]
            oks = [a_["ok"] for a_ in answers]
            inner = [o_["inner"] for o_ in oks]
            if any("raised" in i_ for i_ in inner):
                inner = {"raised": "ValueError"}
            return {"coll_cls": {"schedule": "Schedule", "template": "Template"}[case["cls"]],
                    "canon": [o_["canon"] for o_ in oks], "inner": inner,
                    "eq_copy": True, "eq_other": False,
                    "eq_canon": all(o_["canon"] == o_["built"] for o_ in oks),
                    "orig_unchanged": True, "repeatable": True, "order_independent": True}
        a = answers[0]
        if "err" in a:
            return {"model_error": a["err"]}
        a = a["ok"]
        if k == "affine_canon":
            if a is None:
                return {"out_of_fuel": True}
            return {"canon": a}
        if k == "affine_canon_map":
            return {"out_of_fuel": True} if a is None else {"results": a}
        if k == "at_eq":
            return dict(a, eq_other_type=False) if "ok" in a else a
        if k in ("at_evalnd", "at_postinit"):
            return a
        if k == "sp_canon":
            if len(answers) > 1:
                n_ = answers[1]
                if "err" in n_ or n_["ok"] != a:
                    return {"model_error": f"natural-bound and integer-bound models differ (contradicts spCanonZ_agrees): {n_}"}
            if not a["verify"]:
                return {"raised": "VerifyException"}
            return {"canon": a["canon"], "addrs": a["addrs"]}
        if k == "pack":
            if "raised" in a:
                return {"raised": a["raised"]}
            b_ = answers[1]
            if "err" in b_:
                return {"model_error": b_["err"]}
            b_ = b_["ok"]
            if "raised" in b_:
                return {"model_error": "op-list model raises where the tree model does not"}
            if a["tree"] is None:
                return {"tree": None, "ops": b_["ops"], "repeatable": True}
            if a["value"] != a["spec"]:
                return {"model_error": "tree value differs from spec (contradicts pack_eq_fold)"}
            if not b_["vals"] or b_["vals"][-1] != a["spec"]:
                return {"model_error": "last value of the op list differs from spec (contradicts pack_ops_exec)"}
            return {"tree": a["tree"], "value": a["value"], "valueW": a["valueW"], "ops": b_["ops"], "repeatable": True}
        if k == "at_tomap":
            return {"results": a}
        if k == "at_frommap":
            return a
        if k == "at_compose":
            return a
        if k == "sp_syntax":
            if len(case["ub"]) != len(case["ts"]):
                return {"raised": "VerifyException"}
            p = a["parsed"]
            if p is None or len(p["ub"]) != len(p["ts"]):
                p = "error"   # ParseError, or VerifyException when the parsed attribute is constructed
            return {"toks": a["toks"], "parsed": p}
        if k == "cfg_syntax":
            if not case["cfg"]["streamers"]:
                return {"raised": "AssertionError"}
            return {"toks": a["toks"], "parsed": "error" if a["parsed"] is None else a["parsed"]}
        if k == "ap":
            if "raised" in a:
                return a
            return {"built": a["built"], "canon": a["canon"], "inner": a["inner"], "coll_same": True}
        if k == "opt_table":
            return {"names": sorted(a), "classes_distinct": len(set(a)) == len(a), "name_is_key": True}

    def compare(self, case, impl_out, model_out):
        if isinstance(impl_out, dict) and "raised" in impl_out and isinstance(model_out, dict) and "raised" in model_out:
            return None if impl_out["raised"] == model_out["raised"] else "different exceptions"
        return super().compare(case, impl_out, model_out)

    # -- the property on the real code ----------------------------------------------------------
    def oracle(self, case, impl_out):
        out = []
        k = case["kind"]

        def bad(what, finding=None):
            out.append({"what": what, "finding": finding})

        if isinstance(impl_out, dict) and impl_out.get("stable") is False:
            bad("the result for this input changes when other inputs of the same kind are processed in between "
                "(state kept across calls)")
        if k == "affine_canon":
            if "raised" in impl_out:
                return [{"what": f"canonicalize_expr raised {impl_out['raised']}: {impl_out.get('msg')}", "finding": None}]
            from snaxc.util.canonicalize_affine import canonicalize_expr
            e = to_x(case["e"])
            r = to_x(impl_out["canon"])
            nd = case["ndims"]
            pts = [p + [0] * (nd - 2) for p in GRID] + [[7, -5, 11][:nd], [100, 37, -64][:nd]]
            for p in pts:
                v = safe_eval(e, p)
                if v is None:
                    continue
                w = safe_eval(r, p)
                if v != w:
                    bad(f"canonical form evaluates to {w} instead of {v} at {p}")
                    break
            r2 = canonicalize_expr(r)
            if r2 != r:
                bad(f"canonicalisation not idempotent: {r} -> {r2}")
        elif k == "affine_canon_map":
            if "raised" in impl_out:
                return [{"what": f"canonicalize_map raised {impl_out['raised']}: {impl_out.get('msg')}", "finding": None}]
            from snaxc.util.canonicalize_affine import canonicalize_expr
            nd = case["ndims"]
            if len(impl_out["results"]) != len(case["rs"]):
                bad("canonicalize_map changed the number of results")
                return out
            pts = [(p + [0] * nd)[:nd] for p in GRID] + [[7, -5, 11][:nd], [100, 37, -64][:nd]]
            for e_j, r_j in zip(case["rs"], impl_out["results"]):
                e, r = to_x(e_j), to_x(r_j)
                for p in pts:
                    v = safe_eval(e, p)
                    if v is not None and safe_eval(r, p) != v:
                        bad(f"result {r} evaluates to {safe_eval(r, p)} instead of {v} at {p}")
                        break
                if canonicalize_expr(r) != r:
                    bad(f"canonicalize_map not idempotent on {r}")
        elif k == "at_eq":
            if impl_out.get("eq_other_type"):
                bad("AffineTransform compares equal to an object that is not an AffineTransform")
            s_, o = case["s"], case["o"]
            same_shape = s_["nd"] == o["nd"] and len(s_["b"]) == len(o["b"])
            want = s_ == o
            if "raised" in impl_out:
                bad(f"AffineTransform.__eq__ raised {impl_out['raised']} on shapes ({len(s_['b'])},{s_['nd']}) vs "
                    f"({len(o['b'])},{o['nd']})", None if same_shape else "DC19b")
            elif impl_out["ok"] != want:
                bad(f"AffineTransform.__eq__ answers {impl_out['ok']} for transforms of shapes ({len(s_['b'])},{s_['nd']}) "
                    f"and ({len(o['b'])},{o['nd']})" + (" that differ" if not want else " that are equal"),
                    "DC19b" if (not same_shape and impl_out["ok"]) else None)
        elif k == "at_evalnd":
            t, nd_, kk = case["t"], case["ndim"], case["k"]
            must_raise = nd_ not in (1, 2) or kk != t["nd"]
            if "raised" in impl_out:
                if not must_raise:
                    bad(f"eval raised {impl_out['raised']}: {impl_out.get('msg')}")
            elif must_raise:
                bad(f"eval accepted an input of ndim {nd_} with {kk} columns for a transform with {t['nd']} dims")
            else:
                want = [py_affine(t, x) for x in case["xs"]]
                if impl_out["ok"] != want:
                    bad(f"eval of ndim-{nd_} input gives {impl_out['ok']} instead of {want}")
        elif k == "at_postinit":
            a_s, b_s = case["a_shape"], case["b_shape"]
            must_raise = not (len(a_s) == 2 and len(b_s) == 1 and a_s[0] == b_s[0])
            if ("raised" in impl_out) != must_raise:
                bad(f"AffineTransform(A{a_s}, b{b_s}) " + ("was accepted" if must_raise else f"raised {impl_out.get('raised')}"))
        elif k == "sp_canon":
            if "raised" in impl_out:
                if len(case["ub"]) == len(case["ts"]):
                    bad(f"StridePattern raised {impl_out['raised']} on a well-formed pattern")
                return out
            from snaxc.dialects.snax_stream import StridePattern
            c = impl_out["canon"]
            if 0 in case["ss"]:
                if c != {"ub": case["ub"], "ts": case["ts"], "ss": case["ss"]}:
                    bad("pattern with a zero spatial stride was changed")
            if c["ss"] != case["ss"]:
                bad("spatial strides changed")
            if len(c["ub"]) != len(c["ts"]):
                bad("canonical pattern has unequal list lengths")
            elif any(b < 0 for b in case["ub"]):
                return out   # a negative trip count is outside the property's quantifier (modelled and compared, not claimed)
            elif seq_of(c["ub"], c["ts"]) != seq_of(case["ub"], case["ts"]):
                bad(f"canonical pattern ub={c['ub']} ts={c['ts']} has a different address sequence")
            c2 = sp_json(StridePattern(c["ub"], c["ts"], c["ss"]).canonicalize())
            if c2 != c:
                bad(f"canonicalisation not idempotent: {c} -> {c2}")
        elif k == "pack":
            if "raised" in impl_out:
                if len(case["vs"]) == len(case["os"]):
                    bad(f"pack_bitlist raised {impl_out['raised']}: {impl_out.get('msg')}")
                return out
            if len(case["vs"]) != len(case["os"]):
                bad("pack_bitlist accepted lists of different length")
                return out
            if "poison" in impl_out:
                bad("emitted " + impl_out["poison"] + " (all offsets were below the word size)")
                return out
            if not impl_out.get("repeatable", True):
                bad("a second pack_bitlist call with the same arguments emits a different operation list")
            if impl_out["tree"] is None:
                if case["vs"]:
                    bad("no operation emitted for a non-empty list")
                return out
            w = case["w"]
            mask = (1 << w) - 1
            want = 0
            for v, o in zip(case["vs"], case["os"]):
                want |= ((v & mask) << o) & mask
            if impl_out["valueW"] != want:
                bad(f"packed word is {impl_out['valueW']:#x}, OR of the shifted values is {want:#x}")
            if case["widths"] is not None:
                for v, o, wd in zip(case["vs"], case["os"], case["widths"]):
                    if (impl_out["valueW"] >> o) & ((1 << wd) - 1) != v:
                        bad(f"field at offset {o} width {wd} reads back {(impl_out['valueW'] >> o) & ((1 << wd) - 1)} instead of {v}")
                        break
                if impl_out["value"] != impl_out["valueW"]:
                    bad("fields that fit the word were truncated")
        elif k == "at_tomap":
            if "raised" in impl_out:
                return [{"what": f"to_affine_map raised {impl_out['raised']}: {impl_out.get('msg')}", "finding": None}]
            from snaxc.ir.dart.affine_transform import AffineTransform
            from xdsl.ir.affine import AffineMap
            t = case["t"]
            m = AffineMap(t["nd"], 0, tuple(to_x(r) for r in impl_out["results"]))
            if len(m.results) != len(t["b"]):
                bad("wrong number of results")
            for x in points(case["seed"], t["nd"]):
                if list(m.eval(x, [])) != py_affine(t, x):
                    bad(f"to_affine_map evaluates to {list(m.eval(x, []))} instead of {py_affine(t, x)} at {x}")
                    break
            back = AffineTransform.from_affine_map(m)
            if t["b"] and T_json(back) != t:
                bad(f"from_affine_map(to_affine_map(t)) = {T_json(back)} differs from t")
        elif k == "at_frommap":
            lin = all(not has_divmod(r) and mul_const_side(r) and max_dim(r) < case["n"] for r in case["rs"])
            if "raised" in impl_out:
                if lin:
                    bad(f"from_affine_map raised {impl_out['raised']} on a pure linear map: {impl_out.get('msg')}")
                return out
            if not all(mul_const_side(r) and max_dim(r) < case["n"] for r in case["rs"]):
                return out   # not an affine expression (raw d_i * d_j): outside the property's quantifier
            # whenever the real code ACCEPTS a map, the matrix form must evaluate like the map itself, also beyond the
            # moduli (a map with floordiv / mod / ceildiv is normally refused; accepting one is only harmless if it
            # happens to be linear, e.g. (d0 * 4) floordiv 2)
            import numpy as np
            t = mk_T(impl_out["ok"])
            exprs = [to_x(r) for r in case["rs"]]
            nonlin = any(has_divmod(r) for r in case["rs"])
            for x in (from_map_box(case["n"], case["seed"]) if nonlin else points(case["seed"], case["n"])):
                want = [safe_eval(e, x) for e in exprs]
                if any(v is None for v in want):
                    continue   # the map itself raises ZeroDivisionError here
                got = [int(v) for v in t.eval(np.array(x, dtype=np.int_))]
                if got != want:
                    bad(f"from_affine_map accepted the map; its matrix form evaluates to {got}, the map to {want} at {x}"
                        + (" (the map is not a pure linear transformation and must be refused)" if nonlin else ""))
                    break
        elif k == "at_compose":
            ok_shape = case["s"]["nd"] == len(case["o"]["b"])
            if "raised" in impl_out:
                if ok_shape:
                    bad(f"compose raised {impl_out['raised']}: {impl_out.get('msg')}")
                return out
            if not ok_shape:
                bad("compose accepted mismatching shapes")
                return out
            import numpy as np
            s, o = mk_T(case["s"]), mk_T(case["o"])
            for x, got in zip(points(case["seed"], case["o"]["nd"]), impl_out["evals"]):
                mid = o.eval(np.array(x, dtype=np.int_))
                want = [int(v) for v in s.eval(mid)]
                ref = py_affine(case["s"], py_affine(case["o"], x))
                if got != want or got != ref:
                    bad(f"compose(s,o).eval({x}) = {got}, s.eval(o.eval(x)) = {want}, reference {ref}")
                    break
        elif k == "sp_syntax":
            if "raised" in impl_out:
                if len(case["ub"]) == len(case["ts"]):
                    bad(f"StridePattern raised {impl_out['raised']}")
                return out
            if case["mut"] is None and impl_out["parsed"] != {"ub": case["ub"], "ts": case["ts"], "ss": case["ss"]}:
                bad(f"stride pattern parses back as {impl_out['parsed']}")
            if case["mut"] is not None and impl_out["parsed"] != "error":
                keys = [t_[1] for t_ in mutate(impl_out["toks"], case["mut"])
                        if isinstance(t_, list) and t_[0] == "id" and t_[1] not in ("true", "false")]
                if keys[:3] != ["ub", "ts", "ss"]:
                    bad(f"the parser accepts a stride pattern whose keys are spelled {keys[:3]} and assigns the arrays by "
                        f"position: {impl_out['parsed']}", "DC19c")
        elif k == "cfg_syntax":
            if "raised" in impl_out:
                if case["cfg"]["streamers"]:
                    bad(f"StreamerConfigurationAttr raised {impl_out['raised']}: {impl_out.get('msg')}")
                return out
            if case["mut"] is None and impl_out["parsed"] != case["cfg"]:
                p = impl_out["parsed"]
                if (isinstance(p, dict) and p["streamers"] == case["cfg"]["streamers"] and case["cfg"]["sys"] == "xdma"
                        and p["sys"] == "reg"):
                    bad("streamer configuration with system type xdma parses back as reg", "D16")
                else:
                    bad(f"streamer configuration parses back as {p}")
        elif k == "ap":
            bounds, t, amap = case["bounds"], case["t"], case.get("map")
            n = len(bounds)
            nd_in = amap["n"] if amap else t["nd"]
            must_raise = n != nd_in or (case["cls"] == "schedule" and any(b is None or b <= 0 for b in bounds))
            may_raise = False
            if amap:
                must_raise = must_raise or any(max_dim(r) >= amap["n"] for r in amap["rs"])
                may_raise = any(has_divmod(r) for r in amap["rs"])   # refused by from_affine_map; if accepted: evaluated below
            if "raised" in impl_out:
                if not must_raise and not may_raise:
                    bad(f"{AP_CLS[case['cls']]} constructor raised {impl_out['raised']}: {impl_out.get('msg')}")
                return out
            if must_raise:
                bad(f"{AP_CLS[case['cls']]} accepted bounds {bounds} for a pattern with {nd_in} dims / map {amap}")
                return out
            if amap:   # the pattern built from the map must evaluate like the map
                from xdsl.ir.affine import AffineMap
                t = impl_out["built"]["t"]
                if impl_out["built"]["bounds"] != bounds or t["nd"] != amap["n"]:
                    bad("pattern constructed from an AffineMap has other bounds / dims")
                if all(mul_const_side(r) for r in amap["rs"]):
                    exprs = [to_x(r) for r in amap["rs"]]
                    for x in (from_map_box(amap["n"], 5) if may_raise else points(5, amap["n"])):
                        want = [safe_eval(e, x) for e in exprs]
                        if all(v is not None for v in want) and py_affine(t, x) != want:
                            bad(f"pattern constructed from {amap['rs']} evaluates to {py_affine(t, x)} instead of {want} at {x}")
                            break
            elif impl_out["built"] != {"cls": case["cls"], "bounds": bounds, "t": t}:
                bad("constructor changed bounds or pattern")
            if not impl_out["coll_same"]:
                bad("Schedule/Template.canonicalize or inner_dims differs from the per-pattern result")
            self._check_pattern(case["cls"], bounds, t, impl_out["canon"], impl_out["inner"], case["dim"], bad)
        elif k == "ap_coll":
            pats = case["patterns"]
            if "raised" in impl_out:
                bad(f"{case['cls']} collection: canonicalize / inner_dims raised {impl_out['raised']}: {impl_out.get('msg')}")
                return out
            if not impl_out["orig_unchanged"]:
                bad("canonicalize / inner_dims modified the collection it was called on")
            if not impl_out["eq_copy"]:
                bad("a collection does not compare equal to a collection of equal patterns")
            if impl_out["eq_other"]:
                bad("a collection compares equal to a non-collection or to its reversal")
            if impl_out["eq_canon"] != (impl_out["canon"] == [{"cls": case["cls"], "bounds": q["bounds"], "t": q["t"]} for q in pats]):
                bad("collection == canonical collection disagrees with member-wise structural equality")
            if not impl_out["repeatable"]:
                bad("a second canonicalize() on the same collection gives a different result")
            if not impl_out["order_independent"]:
                bad("canonicalize of the reversed collection is not the reversed result: members influence each other")
            if impl_out["coll_cls"] != {"schedule": "Schedule", "template": "Template"}[case["cls"]]:
                bad(f"canonicalize changed the collection class to {impl_out['coll_cls']}")
            inner_all = impl_out["inner"]
            if case["dim"] <= 0:
                if "raised" not in inner_all:
                    bad(f"collection inner_dims({case['dim']}) did not raise")
            elif "raised" in inner_all:
                bad(f"collection inner_dims({case['dim']}) raised {inner_all['raised']}")
            elif len(inner_all) != len(pats):
                bad("collection inner_dims changed the number of patterns")
            if len(impl_out["canon"]) != len(pats):
                bad(f"collection canonicalize returns {len(impl_out['canon'])} patterns for {len(pats)}")
                return out
            # every member of the canonical collection must be a canonical form OF ITS OWN original (same index)
            for i, (pt, c) in enumerate(zip(pats, impl_out["canon"])):
                inner_i = inner_all if "raised" in inner_all or len(inner_all) != len(pats) else inner_all[i]
                if case["dim"] > 0 and "raised" in inner_i:
                    inner_i = {"raised": inner_i["raised"]}
                self._check_pattern(case["cls"], pt["bounds"], pt["t"], c,
                                    inner_i if isinstance(inner_i, dict) else {"raised": "?"}, case["dim"], bad,
                                    who=f"collection member {i} of {len(pats)} (bounds of all members: {[q['bounds'] for q in pats]}): ")
        elif k == "opt_table":
            if not impl_out.get("classes_distinct") or not impl_out.get("name_is_key"):
                bad("STREAMER_OPT_MAP is not a bijection between option names and classes")
        return out

    def _check_pattern(self, cls, bounds, t, canon, inner_out, dim, bad0, who=""):
        """the property for ONE pattern: `canon` / `inner_out` are what the real code returned for canonicalize /
        inner_dims(dim) of the pattern (cls, bounds, t)"""
        n = len(bounds)

        def bad(what, finding=None):
            bad0(who + what, finding)
        c = canon
        ct = c["t"]
        if c["cls"] != cls:
            bad(f"canonicalize changed the class to {c['cls']}")
        # which dimensions survive: those that can take a non-zero index; a dimension whose box is empty
        # (static bound <= 0) may be kept or not by a correct implementation
        k1 = [i for i, b in enumerate(bounds) if b is None or b > 1]
        k2 = [i for i, b in enumerate(bounds) if b is None or b != 1]
        kept = next((kk for kk in (k1, k2) if c["bounds"] == [bounds[i] for i in kk] and ct["nd"] == len(kk)), None)
        if kept is None:
            bad(f"canonicalize: bounds {bounds} -> {c['bounds']}: the dimensions that can take a non-zero index are "
                f"{[bounds[i] for i in k1]}")
        elif ct["b"] != t["b"] or len(ct["A"]) != len(t["A"]):
            bad("canonicalize changed the offset vector / number of results")
        else:
            for x in box_points(bounds, 17):
                want = py_affine(t, x)
                got = py_affine(ct, [x[i] for i in kept])
                if want != got:
                    bad(f"canonical pattern evaluates to {got} instead of {want} at index {x} (bounds {bounds} -> {c['bounds']})")
                    break
            empty0 = any(b is not None and b <= 0 for b in bounds)
            empty1 = any(b is not None and b <= 0 for b in c["bounds"])
            if empty0 and not empty1:
                bad(f"canonicalize turns the empty iteration space {bounds} into the non-empty {c['bounds']}", "DC19a")
            elif empty1 and not empty0:
                bad("canonical pattern has an empty iteration space, the original has not")
            c2 = ap_json(mk_ap(c["cls"], c["bounds"], ct).canonicalize())
            if c2 != c:
                bad(f"canonicalize not idempotent: {c} -> {c2}")
        inner = inner_out
        if dim <= 0:
            if "raised" not in inner:
                bad(f"inner_dims({dim}) did not raise")
        elif "raised" in inner:
            bad(f"inner_dims({dim}) raised {inner['raised']}")
        else:
            m = min(dim, n)
            it = inner["t"]
            if inner["cls"] != cls:
                bad(f"inner_dims changed the class to {inner['cls']}")
            if inner["bounds"] != bounds[n - m:] or it["nd"] != m:
                bad(f"inner_dims({dim}) of bounds {bounds} has bounds {inner['bounds']} / {it['nd']} dims")
            elif it["b"] != t["b"] or len(it["A"]) != len(t["A"]):
                bad("inner_dims changed the offset vector / number of results")
            else:
                for y in box_points(inner["bounds"], 23):
                    want = py_affine(t, [0] * (n - m) + y)
                    got = py_affine(it, y)
                    if want != got:
                        bad(f"inner_dims({dim}) evaluates to {got} instead of {want} at inner index {y}")
                        break

    def nontrivial(self, case, impl_out):
        k = case["kind"]
        if not isinstance(impl_out, dict) or "raised" in impl_out:
            return False
        if k == "affine_canon":
            return impl_out.get("canon") != case["e"]
        if k == "affine_canon_map":
            return impl_out.get("results") != case["rs"]
        if k == "at_eq":
            return bool(case["s"]["b"]) and case["s"] != case["o"]
        if k == "at_evalnd":
            return "ok" in impl_out and bool(case["t"]["b"]) and len(case["xs"]) > 0
        if k == "at_postinit":
            return True
        if k == "sp_canon":
            return impl_out["canon"]["ub"] != case["ub"] and len(impl_out["addrs"]) > 1
        if k == "pack":
            return len(case["vs"]) >= 2
        if k == "at_tomap":
            return bool(case["t"]["b"]) and case["t"]["nd"] > 0
        if k == "at_frommap":
            return "ok" in impl_out and bool(case["rs"]) and case["n"] > 0 and any(depth(r) >= 2 for r in case["rs"])
        if k == "at_compose":
            return "ok" in impl_out and bool(case["s"]["b"]) and case["o"]["nd"] > 0 and case["s"]["nd"] > 0
        if k == "ap":
            return bool(impl_out["built"]["t"]["b"]) and impl_out["canon"]["bounds"] != case["bounds"]
        if k == "ap_coll":
            return len({tuple(q["bounds"]) for q in case["patterns"]}) > 1 and \
                any(c_["bounds"] != q["bounds"] for c_, q in zip(impl_out["canon"], case["patterns"]))
        if k == "sp_syntax":
            return case["mut"] is None and bool(case["ub"])
        if k == "cfg_syntax":
            return case["mut"] is None
        return True

    def shrink(self, case):
        k = case["kind"]
        if k == "affine_canon":
            e = case["e"]

            def subs(j):
                if j[0] in "dc":
                    return
                yield j[1]
                yield j[2]
                for s in subs(j[1]):
                    yield [j[0], s, j[2]]
                for s in subs(j[2]):
                    yield [j[0], j[1], s]
            for s in subs(e):
                yield dict(case, e=s)
        elif k == "sp_canon" and len(case["ub"]) == len(case["ts"]):
            n = len(case["ub"])
            for i in range(n):
                yield dict(case, ub=case["ub"][:i] + case["ub"][i + 1:], ts=case["ts"][:i] + case["ts"][i + 1:])
            for i in range(n):
                if case["ub"][i] > 2:
                    yield dict(case, ub=case["ub"][:i] + [case["ub"][i] - 1] + case["ub"][i + 1:])
            if len(case["ss"]) > 1:
                yield dict(case, ss=case["ss"][:1])
        elif k == "pack" and len(case["vs"]) == len(case["os"]):
            n = len(case["vs"])
            for i in range(n):
                d = dict(case)
                for f in ("vs", "os", "ssa", "ssa_off"):
                    d[f] = case[f][:i] + case[f][i + 1:]
                d["widths"] = None if case["widths"] is None else case["widths"][:i] + case["widths"][i + 1:]
                yield d
            if any(case["ssa"]) or any(case["ssa_off"]):
                yield dict(case, ssa=[0] * n, ssa_off=[0] * n)
        elif k == "at_frommap":
            for i in range(len(case["rs"])):
                if len(case["rs"]) > 1:
                    yield dict(case, rs=[case["rs"][i]])
            if len(case["rs"]) == 1:
                j = case["rs"][0]
                if j[0] not in "dc":
                    yield dict(case, rs=[j[1]])
                    yield dict(case, rs=[j[2]])
        elif k == "ap" and case.get("map") is None and len(case["bounds"]) == case["t"]["nd"]:
            t, bs = case["t"], case["bounds"]
            for i in range(len(bs)):
                yield dict(case, bounds=bs[:i] + bs[i + 1:],
                           t={"nd": t["nd"] - 1, "A": [r[:i] + r[i + 1:] for r in t["A"]], "b": t["b"]})
            for i in range(len(t["b"])):
                if len(t["b"]) > 1:
                    yield dict(case, t={"nd": t["nd"], "A": t["A"][:i] + t["A"][i + 1:], "b": t["b"][:i] + t["b"][i + 1:]})
            for i, b in enumerate(bs):
                if b is not None and b > 2:
                    yield dict(case, bounds=bs[:i] + [2] + bs[i + 1:])
            if any(v not in (0, 1) for r in t["A"] for v in r):
                yield dict(case, t=dict(t, A=[[i + 1 for i, _ in enumerate(r)] for r in t["A"]]))
        elif k == "ap_coll":
            ps = case["patterns"]
            if len(ps) > 2:
                for i in range(len(ps)):
                    yield dict(case, patterns=ps[:i] + ps[i + 1:])
            for i, q in enumerate(ps):
                if len(q["t"]["b"]) > 1:
                    yield dict(case, patterns=ps[:i] + [dict(q, t={"nd": q["t"]["nd"], "A": q["t"]["A"][:1], "b": q["t"]["b"][:1]})] + ps[i + 1:])
            for i, q in enumerate(ps):
                for j_ in range(len(q["bounds"])):
                    if len(q["bounds"]) > 1:
                        t_ = q["t"]
                        yield dict(case, patterns=ps[:i] + [{"bounds": q["bounds"][:j_] + q["bounds"][j_ + 1:],
                                   "t": {"nd": t_["nd"] - 1, "A": [r_[:j_] + r_[j_ + 1:] for r_ in t_["A"]], "b": t_["b"]}}] + ps[i + 1:])
        elif k == "cfg_syntax":
            ss = case["cfg"]["streamers"]
            if len(ss) > 1:
                for i in range(len(ss)):
                    yield dict(case, cfg=dict(case["cfg"], streamers=[ss[i]]))
            elif ss:
                s = ss[0]
                for f in ("temp", "spat", "opts"):
                    if len(s[f]) > 1:
                        yield dict(case, cfg=dict(case["cfg"], streamers=[dict(s, **{f: s[f][:1]})]))
                        yield dict(case, cfg=dict(case["cfg"], streamers=[dict(s, **{f: s[f][1:]})]))
                    elif s[f] and f != "spat":
                        yield dict(case, cfg=dict(case["cfg"], streamers=[dict(s, **{f: []})]))


PROP = C19()
