"""C19 — canonical forms and alternative representations denote the same object."""
import itertools
import random

import compat  # noqa: F401
from framework import Prop
from xdsl.ir.affine import AffineBinaryOpExpr, AffineBinaryOpKind, AffineConstantExpr, AffineDimExpr, AffineExpr

FUEL = 64
KINDS = {"+": AffineBinaryOpKind.Add, "*": AffineBinaryOpKind.Mul, "//": AffineBinaryOpKind.FloorDiv,
         "%": AffineBinaryOpKind.Mod, "ceildiv": AffineBinaryOpKind.CeilDiv}
TAGS = {v: k for k, v in KINDS.items()}


def to_x(j) -> AffineExpr:
    if j[0] == "d":
        return AffineDimExpr(j[1])
    if j[0] == "c":
        return AffineConstantExpr(j[1])
    return AffineBinaryOpExpr(KINDS[j[0]], to_x(j[1]), to_x(j[2]))


def of_x(e: AffineExpr):
    if isinstance(e, AffineDimExpr):
        return ["d", e.position]
    if isinstance(e, AffineConstantExpr):
        return ["c", e.value]
    if isinstance(e, AffineBinaryOpExpr):
        return [TAGS[e.kind], of_x(e.lhs), of_x(e.rhs)]
    raise ValueError(f"unsupported affine expression {e}")


def depth(j):
    return 0 if j[0] in "dc" else 1 + max(depth(j[1]), depth(j[2]))


def safe_eval(e: AffineExpr, pt):
    try:
        return e.eval(pt, [])
    except ZeroDivisionError:
        return None


def gen_expr(rng: random.Random, d: int, ndims: int, affine_only=False):
    if d == 0 or rng.random() < 0.2:
        if rng.random() < 0.55:
            return ["d", rng.randrange(ndims)]
        return ["c", rng.choice([-3, -2, -1, 0, 0, 1, 1, 2, 3, 4, 5, 8])]
    k = rng.random()
    if k < 0.45:
        return ["+", gen_expr(rng, d - 1, ndims), gen_expr(rng, d - 1, ndims)]
    if k < 0.75:
        # xDSL's smart `*` only supports constant right operands; raw Mul nodes with a constant
        # on either side are what parsers produce
        c = ["c", rng.choice([-2, -1, 0, 1, 1, 2, 3, 4])]
        e = gen_expr(rng, d - 1, ndims)
        return ["*", e, c] if rng.random() < 0.7 else ["*", c, e]
    c = ["c", rng.choice([1, 1, 2, 3, 4, 8, 0, -2])]
    e = gen_expr(rng, d - 1, ndims)
    tag = rng.choice(["//", "%", "%", "//", "ceildiv"])
    return [tag, e, c]


GRID = [list(p) for p in itertools.product(range(-3, 6), repeat=2)]


class C19(Prop):
    id = "C19"
    PARALLEL = True
    trusted_base = [
        "modelled: canonicalize_affine.py incl. xDSL's AffineExpr.__add__/__mul__ smart constructors (Model/Affine.lean)",
    ]
    assumptions = [
        "affine expressions with symbols are outside the model (canonicalize_affine.py never creates or inspects them)",
        "Python recursion depth is not modelled: the model uses fuel 64 per expression; running out of fuel where Python answers is a disagreement",
    ]
    rule = ("random expressions over + * floordiv mod ceildiv, depth<=4, constants -3..8, 2-3 dims; non-trivial = the "
            "canonical form differs from the input; distinct by canonical JSON")

    def cases(self, rng, tier):
        n = 600 if tier == "quick" else 20000
        for _ in range(n):
            nd = rng.choice([2, 2, 3])
            yield {"kind": "affine_canon", "e": gen_expr(rng, rng.choice([1, 2, 3, 4, 4]), nd), "ndims": nd}

    # real code
    def impl(self, case):
        from snaxc.util.canonicalize_affine import canonicalize_expr
        if case["kind"] == "affine_canon":
            e = to_x(case["e"])
            r = canonicalize_expr(e)
            return {"canon": of_x(r)}
        raise ValueError(case["kind"])

    def requests(self, case):
        if case["kind"] == "affine_canon":
            return [{"fn": "c19.canon", "args": {"e": case["e"], "fuel": FUEL}}]
        return []

    def model(self, case, answers):
        if case["kind"] == "affine_canon":
            a = answers[0]
            if "err" in a:
                return {"model_error": a["err"]}
            if a["ok"] is None:
                return {"out_of_fuel": True}
            return {"canon": a["ok"]}

    def oracle(self, case, impl_out):
        out = []
        if case["kind"] == "affine_canon":
            if "raised" in impl_out:
                return [{"what": f"canonicalize_expr raised {impl_out['raised']}: {impl_out.get('msg')}", "finding": None}]
            from snaxc.util.canonicalize_affine import canonicalize_expr
            e = to_x(case["e"])
            r = to_x(impl_out["canon"])
            nd = case["ndims"]
            pts = [p + [0] * (nd - 2) for p in GRID] + [[7, -5, 11][:nd], [100, 37, -64][:nd]]
            for p in pts:
                v = safe_eval(e, p)
                if v is None:
                    continue
                w = safe_eval(r, p)
                if v != w:
                    out.append({"what": f"canonical form evaluates to {w} instead of {v} at {p}", "finding": None})
                    break
            r2 = canonicalize_expr(r)
            if r2 != r:
                out.append({"what": f"canonicalisation not idempotent: {r} -> {r2}", "finding": None})
        return out

    def nontrivial(self, case, impl_out):
        return case["kind"] != "affine_canon" or impl_out.get("canon") != case["e"]

    def shrink(self, case):
        if case["kind"] == "affine_canon":
            e = case["e"]

            def subs(j):
                if j[0] in "dc":
                    return
                yield j[1]
                yield j[2]
                for s in subs(j[1]):
                    yield [j[0], s, j[2]]
                for s in subs(j[2]):
                    yield [j[0], j[1], s]
            for s in subs(e):
                yield dict(case, e=s)


PROP = C19()
