"""C09 — chosen memory layouts are one-to-one on the operand (pass `set-memory-layout`).

Committed state: the model is the code WITH fix F15 (fixes/F15-cyclic-layout-cover.diff) applied.
Set C09_MODEL=upstream to compare against the unpatched tree (diagnostics only: D22 then shows up
as oracle failures on the real code).
"""
import contextlib
import hashlib
import itertools
import os
import random
import signal

import compat  # noqa: F401
import numpy as np
from framework import Prop

FIXED_MODEL = os.environ.get("C09_MODEL", "fixed") != "upstream"


def _global_fixed():
    """fix FC12e (guards of ApplyLayoutCastSubviewGlobal) expected in the tree under test? Single switch: the status of
    DC09a in known_findings.d/C09.json ("fixed" -> yes); C09_FC12E=0/1 overrides."""
    if os.environ.get("C09_FC12E") in ("0", "1"):
        return os.environ["C09_FC12E"] == "1"
    import json
    path = os.path.join(os.path.dirname(os.path.dirname(os.path.dirname(os.path.abspath(__file__)))), "known_findings.d", "C09.json")
    try:
        return any(f["id"] == "DC09a" and f.get("status") == "fixed" for f in json.load(open(path))["findings"])
    except OSError:
        return False


GLOBAL_FIXED = _global_fixed()

# accelerator templates: (accelerator attribute, kernel in the body) -> number of spatial dims of the template
TEMPLATES = {
    "alu": ("snax_alu", "add", 1),          # SNAXAluAccelerator.get_template: 1-d template
    "gemmx_mac": ("snax_gemmx", "mac", 3),  # matmul template (m, n, k)
    "gemmx_qmac": ("snax_gemmx", "qmac", 3),  # quantised matmul: same template
    "gemmx_add": ("snax_gemmx", "add", 2),  # "rescale only" template (m, k)
    "none": (None, "add", None),            # no accelerator attribute: spatial_dims() asserts
    "hwpe": ("snax_hwpe_mult", "add", None),  # registered, but not a SNAXStreamer: spatial_dims() asserts
    "gemmini": ("gemmini", "add", None),      # idem
}
EL_BITS = {"i1": 1, "i8": 8, "i16": 16, "i32": 32, "i64": 64, "f16": 16, "f32": 32, "f64": 64, "index": None}
KERNELS = {"mac": "kernel.mac %x, %y : i8, i8 -> i32", "add": "kernel.add %x, %y : i8, i8 -> i32",
           "qmac": "kernel.qmac %x, %y zp_lhs : %z zp_rhs : %z : i8, i8, i32, i32 -> i32"}
MAX_BOX = 8192


class PassTimeout(Exception):
    """the real pass did not terminate within the time limit (observable outcome, like an exception)"""


@contextlib.contextmanager
def time_limit(seconds):
    def handler(signum, frame):
        raise PassTimeout(f"no result after {seconds}s")
    # CPU time of this process (user mode), not wall-clock time: independent of the machine load
    old = signal.signal(signal.SIGVTALRM, handler)
    signal.setitimer(signal.ITIMER_VIRTUAL, seconds)
    try:
        yield
    finally:
        signal.setitimer(signal.ITIMER_VIRTUAL, 0)
        signal.signal(signal.SIGVTALRM, old)


# ------------------------------------------------------------------------------------------------
# building the real input
def amap(ndims, A, b):
    exprs = []
    for row, off in zip(A, b):
        terms = []
        for k, c in enumerate(row):
            if c == 0:
                continue
            terms.append(f"d{k}" if c == 1 else f"(d{k} * {c})")
        if off != 0 or not terms:
            terms.append(str(off))
        e = terms[0]
        for t in terms[1:]:
            e = f"({e} + {t})"
        exprs.append(e)
    return f"affine_map<({', '.join(f'd{k}' for k in range(ndims))}) -> ({', '.join(exprs)})>"


AFF_OPS = {"+": "+", "*": "*", "//": "floordiv", "%": "mod", "ceildiv": "ceildiv"}


def aexpr_text(e):
    if e[0] == "d":
        return f"d{e[1]}"
    if e[0] == "c":
        return str(e[1])
    return f"({aexpr_text(e[1])} {AFF_OPS[e[0]]} {aexpr_text(e[2])})"


def amap_exprs(ndims, exprs):
    return f"affine_map<({', '.join(f'd{k}' for k in range(ndims))}) -> ({', '.join(aexpr_text(e) for e in exprs)})>"


def pattern_text(case, o):
    n = o.get("ndims", case["ndims"])
    if "exprs" in o:
        return amap_exprs(n, o["exprs"])
    return amap(n, o["A"], o["b"])


_PARSED = {}


def parsed_exprs(text):
    """the affine map AS THE PASS SEES IT: parsed by xDSL (which may fold/reassociate), as JSON expressions"""
    if text not in _PARSED:
        from xdsl.ir.affine import AffineBinaryOpExpr, AffineBinaryOpKind, AffineConstantExpr, AffineDimExpr
        from xdsl.parser import Parser
        import snaxrun
        tags = {AffineBinaryOpKind.Add: "+", AffineBinaryOpKind.Mul: "*", AffineBinaryOpKind.FloorDiv: "//",
                AffineBinaryOpKind.Mod: "%", AffineBinaryOpKind.CeilDiv: "ceildiv"}

        def of_x(e):
            if isinstance(e, AffineDimExpr):
                return ["d", e.position]
            if isinstance(e, AffineConstantExpr):
                return ["c", e.value]
            if isinstance(e, AffineBinaryOpExpr):
                return [tags[e.kind], of_x(e.lhs), of_x(e.rhs)]
            raise ValueError(f"unsupported affine expression {e}")
        m = Parser(snaxrun.ctx(), text).parse_attribute().data
        if len(_PARSED) > 20000:
            _PARSED.clear()
        _PARSED[text] = (m.num_dims, [of_x(r) for r in m.results])
    return _PARSED[text]


def canon_json_local(x):
    import json
    return json.dumps(x, sort_keys=True)


def has_divmod(e):
    return e[0] not in "dc" and (e[0] in ("//", "%", "ceildiv") or has_divmod(e[1]) or has_divmod(e[2]))


def layout_text(lay):
    """explicit layout of an operand in a case: ["tsl", [[ [step,bound].. ]..]] | ["strided", [..]]"""
    if lay is None:
        return ""
    if lay[0] == "tsl":
        dims = []
        for d in lay[1]:
            dims.append("[" + ", ".join(str(b) for _, b in d) + "] -> (" + ", ".join(str(s) for s, _ in d) + ")")
        return ", #tsl.tsl<" + ", ".join(dims) + ">"
    if lay[0] == "strided":
        off = f", offset: {lay[2]}" if len(lay) > 2 and lay[2] else ""
        return ", strided<[" + ", ".join(str(s) for s in lay[1]) + "]" + off + ">"
    raise ValueError(lay)


def memref_ty(o):
    shp = "x".join(str(s) for s in o["shape"])
    space = o.get("space", "L1")          # None: no memory space yet (before set-memory-space)
    sp = f', "{space}"' if space else ""
    return f"memref<{shp}x{o['el']}{layout_text(o.get('layout'))}{sp}>"


def op_text(case, k):
    """one dart.schedule op (operands %a{k}_{i}) and the list of its operand types"""
    ops = case["operands"]
    n = len(ops)
    acc, kernel, _ = TEMPLATES[case["template"]]
    tys = [memref_ty(o) for o in ops]
    pats = ", ".join(pattern_text(case, o) for o in ops)
    bstr = ", ".join(f"{b} : index" for b in case["bounds"])
    accs = f'accelerator = "{acc}", ' if acc else ""
    nin = max(n - 1, 0)
    sargs = ", ".join(f"%s{k}_{i} : !dart.stream<{o['el']}>" for i, o in enumerate(ops))
    st0 = f"!dart.stream<{ops[0]['el']}>"
    opname = case.get("opname", "dart.schedule")
    sched_props = f"tiles = [[]], bounds = [{bstr}], " if opname == "dart.schedule" else ""
    text = f'''  "{opname}"({", ".join(f"%a{k}_{i}" for i in range(n))}) <{{patterns = [{pats}], {accs}{sched_props}operandSegmentSizes = array<i32: {nin}, {n - nin}>}}> ({{
  ^bb0({sargs}):
    %r{k} = "dart.generic"(%s{k}_0, %s{k}_0) <{{library_call = "k"}}> ({{
    ^bb1(%x{k} : i8, %y{k} : i8, %z{k} : i32):
      %k{k} = {KERNELS[kernel].replace("%x", f"%x{k}").replace("%y", f"%y{k}").replace("%z", f"%z{k}")}
      dart.yield %k{k} : i32
    }}) : ({st0}, {st0}) -> !dart.stream<i32>
    dart.yield %r{k} : !dart.stream<i32>
  }}) : ({", ".join(tys)}) -> ()
'''
    return text, tys


def mlir_ops(op_cases, split=False):
    """a module with all the ops: in one function, or (split) one function per op"""
    parts = [op_text(c, k) for k, c in enumerate(op_cases)]
    if split:
        out = []
        for k, (text, tys) in enumerate(parts):
            args = ", ".join(f"%a{k}_{i} : {t}" for i, t in enumerate(tys))
            out.append(f"func.func @f{k}({args}) {{\n{text}  func.return\n}}")
        return "\n".join(out)
    args = ", ".join(f"%a{k}_{i} : {t}" for k, (_, tys) in enumerate(parts) for i, t in enumerate(tys))
    return f"func.func @f({args}) {{\n" + "".join(text for text, _ in parts) + "  func.return\n}"


def mlir(case):
    return mlir_ops([case])


def mlir_front(case):
    """the op as it looks BEFORE set-memory-space: operands are function arguments or memref.alloc results that are
    not (all) in "L1" yet; some carry an explicit layout"""
    text, tys = op_text(case, 0)
    args = ", ".join(f"%a0_{i} : {t}" for i, (t, o) in enumerate(zip(tys, case["operands"])) if o["src"] == "arg")
    allocs = "".join(f"  %a0_{i} = memref.alloc() {{alignment = 64 : i64}} : {t}\n"
                     for i, (t, o) in enumerate(zip(tys, case["operands"])) if o["src"] == "alloc")
    return f"func.func @f({args}) {{\n{allocs}{text}  func.return\n}}"


def row_major_strides(shape):
    st, s = [], 1
    for n in reversed(shape):
        st.insert(0, s)
        s *= n
    return st


def mlir_global(case):
    """operand 0 of the op is a tile (memref.subview) of an uninitialised memref.global; `uses` > 1: the global has a
    second user (then the pattern must leave the global alone)"""
    g, offs = case["gshape"], case["offs"]
    o0 = case["operands"][0]
    gst = row_major_strides(g)
    off = sum(a * b for a, b in zip(offs, gst))
    tile_ty = memref_ty(dict(o0, layout=["strided", gst, off]))
    glay = f", strided<[{', '.join(map(str, gst))}]>" if case.get("glayout") else ""     # the global already has a layout
    gty = f"memref<{'x'.join(map(str, g))}x{o0['el']}{glay}, \"L1\">"
    text, tys = op_text(dict(case, operands=[dict(o0, layout=["strided", gst, off])] + case["operands"][1:]), 0)
    args = ", ".join(f"%a0_{i} : {t}" for i, t in enumerate(tys) if i > 0)
    second = f'  "test.use"(%g) : ({gty}) -> ()\n' if case.get("uses", 1) > 1 else ""
    sub = (f"  %a0_0 = memref.subview %g[{', '.join(map(str, offs))}] [{', '.join(map(str, o0['shape']))}] "
           f"[{', '.join('1' for _ in g)}] : {gty} to {tile_ty}\n")
    return (f'"memref.global"() <{{alignment = 64 : i64, initial_value, sym_name = "weights", sym_visibility = "private", '
            f'type = {gty}}}> : () -> ()\n'
            f"func.func @f({args}) {{\n  %g = memref.get_global @weights : {gty}\n{second}{sub}{text}  func.return\n}}")


def runs_of(case):
    """a case as a list of pass runs, each run = (list of op cases, split into functions?)"""
    if case["kind"] == "schedule":
        return [([case], False)]
    return [([dict(o, tiled=case["tiled"], kind="schedule") for o in r["ops"]], bool(r.get("split"))) for r in case["runs"]]


# ------------------------------------------------------------------------------------------------
# independent address semantics of a tiled-strided layout (used by the oracle only)
def dim_addresses(strides, size):
    """addresses contributed by one dimension for index 0..size-1; strides = [[step,bound]..] outermost first"""
    i = np.arange(size, dtype=np.int64)
    out = np.zeros(size, dtype=np.int64)
    inner = 1
    for depth in range(len(strides) - 1, -1, -1):
        step, bound = strides[depth]
        digit = i // inner
        if depth > 0:
            digit = digit % bound
        out += step * digit
        inner *= bound
    return out


def all_addresses(layout, shape):
    res = np.zeros(1, dtype=np.int64)
    for strides, size in zip(layout, shape):
        res = (res[:, None] + dim_addresses(strides, size)[None, :]).reshape(-1)
    return res


def point_address(layout, pt):
    a = 0
    for strides, i in zip(layout, pt):
        inner = 1
        for depth in range(len(strides) - 1, -1, -1):
            step, bound = strides[depth]
            digit = i // inner
            if depth > 0:
                digit %= bound
            a += step * digit
            inner *= bound
    return a


def case_rng(case):
    return random.Random(int(hashlib.sha1(repr(sorted(case.items(), key=str)).encode()).hexdigest()[:12], 16))


def real_tsl(layout):
    from snaxc.ir.tsl import Stride, TiledStride, TiledStridedLayout
    return TiledStridedLayout([TiledStride([Stride(s, b) for s, b in d]) for d in layout])


def wellformed(case):
    """inside the property's quantifier: accelerator known, fixed-width element types, positive bounds,
    as many bounds as pattern dims, as many pattern results as memref dims, static positive shape"""
    if TEMPLATES[case["template"]][2] is None:   # no accelerator, or one without streamer template
        return False
    if any(b <= 0 for b in case["bounds"]):
        return False
    for o in case["operands"]:
        nres = len(o["exprs"]) if "exprs" in o else len(o["A"])
        if EL_BITS[o["el"]] is None or nres != len(o["shape"]) or any(s <= 0 for s in o["shape"]):
            return False
        if "exprs" in o and any(has_divmod(e) for e in o["exprs"]):
            return False
        if o.get("ndims", case["ndims"]) != len(case["bounds"]):
            return False
    return True


# ------------------------------------------------------------------------------------------------
# generators
COEFS = [1, 1, 1, 1, 1, 2, 2, 3, 4, 8, -1]
BOUNDS = [1, 2, 2, 3, 4, 4, 5, 6, 8, 8, 16]
ELS = ["i8", "i8", "i8", "i16", "i32", "i32", "i64", "f16", "f32", "f64", "i1"]


def gen_rows_random(rng, n, rank, diag_p=0.05):
    rows = [[0] * n for _ in range(rank)]
    for k in range(n):
        if rng.random() < 0.25:
            continue  # broadcast / reduction dimension for this operand
        j = rng.randrange(rank)
        rows[j][k] = rng.choice(COEFS)
        if rank > 1 and rng.random() < diag_p:
            j2 = rng.randrange(rank)
            rows[j2][k] = rng.choice(COEFS)
    return rows


def gen_rows_tiled(rng, n, rank, bounds):
    """what dart-scheduler produces: every operand dim is a mixed-radix combination of some schedule dims"""
    rows = [[0] * n for _ in range(rank)]
    dims = list(range(n))
    rng.shuffle(dims)
    groups = [[] for _ in range(rank)]
    for k in dims:
        if rng.random() < 0.2:
            continue
        groups[rng.randrange(rank)].append(k)
    for j, g in enumerate(groups):
        g.sort(reverse=rng.random() < 0.8)  # innermost schedule dim = lowest coefficient (mostly)
        c = 1
        for k in g:
            rows[j][k] = c
            if rng.random() < 0.9:
                c *= bounds[k]
            else:
                c *= rng.choice([1, 2, 3])
    return rows


def extent(row, bounds, off):
    return sum(abs(c) * (b - 1) for c, b in zip(row, bounds)) + 1 + max(off, 0)


def gen_schedule(rng, big=False):
    n = rng.choice([1, 2, 2, 3, 3, 3, 4, 4, 5, 6])
    bounds = [rng.choice(BOUNDS) for _ in range(n)]
    nops = rng.choice([1, 2, 3, 3, 3, 4])
    template = rng.choice(["alu", "alu", "gemmx_mac", "gemmx_mac", "gemmx_add", "gemmx_qmac"])
    operands = []
    for _ in range(nops):
        rank = rng.choice([1, 2, 2, 2, 3, 3, 4])
        if rng.random() < 0.5:
            rows = gen_rows_tiled(rng, n, rank, bounds)
        else:
            rows = gen_rows_random(rng, n, rank)
        off = [rng.choice([0, 0, 0, 0, 1, 2]) for _ in range(rank)]
        mode = rng.random()
        shape = []
        for row, o in zip(rows, off):
            if mode < 0.65:
                s = extent(row, bounds, o)
            elif mode < 0.8:
                s = extent(row, bounds, o) + rng.choice([0, 1, 2, 3])
            else:
                s = rng.choice([1, 2, 3, 4, 5, 6, 7, 8, 9, 12, 16, 18, 24])
            shape.append(s)
        # keep the operand enumerable by the oracle
        while int(np.prod(shape)) > (MAX_BOX * 4 if big else MAX_BOX):
            j = max(range(rank), key=lambda j: shape[j])
            shape[j] = max(1, shape[j] // 2)
        operands.append({"shape": shape, "el": rng.choice(ELS), "A": rows, "b": off, "layout": None})
    return {"kind": "schedule", "tiled": rng.random() < 0.6, "template": template, "ndims": n,
            "bounds": bounds, "operands": operands}


def gen_aexpr(rng, n, depth, nonlinear):
    """affine expressions as a front end writes them: sums, constant factors on either side, nesting, constants,
    repeated dims; with `nonlinear` also floordiv / mod / ceildiv by a positive constant (-> ValueError)"""
    if depth == 0 or rng.random() < 0.25:
        if rng.random() < 0.8:
            return ["d", rng.randrange(n)]
        return ["c", rng.choice([0, 1, 2, 3, -1])]
    k = rng.random()
    if nonlinear and k < 0.25:
        return [rng.choice(["//", "%", "ceildiv"]), gen_aexpr(rng, n, depth - 1, nonlinear), ["c", rng.choice([1, 2, 3, 4, 8])]]
    if k < 0.65:
        return ["+", gen_aexpr(rng, n, depth - 1, nonlinear), gen_aexpr(rng, n, depth - 1, nonlinear)]
    c = ["c", rng.choice([0, 1, 2, 2, 3, 4, 8, -1, -2])]
    e = gen_aexpr(rng, n, depth - 1, nonlinear)
    return ["*", e, c] if rng.random() < 0.7 else ["*", c, e]


def gen_schedule_exprs(rng):
    """patterns given as general affine expressions (what AffineTransform.from_affine_map has to digest)"""
    n = rng.choice([1, 2, 2, 3, 3, 4])
    bounds = [rng.choice(BOUNDS) for _ in range(n)]
    nonlinear = rng.random() < 0.2
    operands = []
    for _ in range(rng.choice([1, 2, 3])):
        rank = rng.choice([1, 2, 2, 3])
        exprs = [gen_aexpr(rng, n, rng.choice([1, 2, 2, 3]), nonlinear) for _ in range(rank)]
        shape = [rng.choice([1, 2, 3, 4, 5, 6, 8, 9, 12, 16]) for _ in range(rank)]
        operands.append({"shape": shape, "el": rng.choice(ELS), "exprs": exprs, "layout": None})
    c = {"kind": "schedule", "tiled": rng.random() < 0.6,
         "template": rng.choice(["alu", "gemmx_mac", "gemmx_add", "gemmx_qmac"]), "ndims": n, "bounds": bounds,
         "operands": operands}
    if rng.random() < 0.08:   # the guard comes before the schedule construction
        o = rng.choice(operands)
        o["layout"] = ["tsl", row_major_tsl(o["shape"])]
    return c


def strip_op(c):
    return {k: v for k, v in c.items() if k not in ("kind", "tiled")}


def reshape_operand(rng, o, grow):
    """the same operand (pattern, element type) on a buffer of a different shape"""
    shape = list(o["shape"])
    for _ in range(rng.choice([1, 1, 2])):
        j = rng.randrange(len(shape))
        if grow:
            shape[j] = shape[j] + rng.choice([1, 2, 4, 8]) if rng.random() < 0.5 else shape[j] * rng.choice([2, 3])
        else:
            shape[j] = max(1, shape[j] // rng.choice([2, 3]) if rng.random() < 0.5 else shape[j] - rng.choice([1, 2]))
    while int(np.prod(shape)) > MAX_BOX:
        j = max(range(len(shape)), key=lambda j: shape[j])
        shape[j] = max(1, shape[j] // 2)
    return dict(o, shape=shape)


def gen_small_schedule(rng):
    for _ in range(20):
        c = gen_schedule(rng)
        if len(c["operands"]) <= 3 and all(int(np.prod(o["shape"])) <= 2048 for o in c["operands"]):
            return c
    return c


def gen_multi(rng):
    """ONE process, ONE OR MORE pass runs, SEVERAL dart.schedule ops per module: whatever the pattern, the pass or a module
    global remembers from one operand / op / run must not change the layout of another one. The ops share as much as possible
    (access maps, bounds, element types, accelerator) and differ in ONE thing, most often the operand shapes, in both orders."""
    base = gen_small_schedule(rng)
    tiled = base["tiled"]
    mode = rng.choice(["shape", "shape", "shape", "intra", "key", "key", "random", "dup"])
    ops = [strip_op(base)]
    if mode == "shape":
        for _ in range(rng.choice([1, 1, 2])):
            grow = rng.random() < 0.6
            ops.append(dict(ops[0], operands=[reshape_operand(rng, o, grow) if rng.random() < 0.8 else dict(o)
                                              for o in ops[0]["operands"]]))
    elif mode == "intra":       # two operands of ONE op with the same access map and element type, different shapes
        o = rng.choice(ops[0]["operands"])
        extra = reshape_operand(rng, o, rng.random() < 0.6)
        opnds = list(ops[0]["operands"])
        opnds.insert(rng.randrange(len(opnds) + 1), extra)
        ops = [dict(ops[0], operands=opnds[:4])]
        if rng.random() < 0.5:
            ops.append(dict(ops[0], operands=[reshape_operand(rng, x, True) for x in ops[0]["operands"]]))
    elif mode == "key":         # same shapes (or not), ONE other ingredient of the layout differs
        v = dict(ops[0], operands=[dict(o) for o in ops[0]["operands"]])
        what = rng.choice(["el", "template", "bounds", "coef"])
        if what == "el":
            for o in v["operands"]:
                o["el"] = rng.choice([e for e in ("i8", "i16", "i32", "f64") if e != o["el"]])
        elif what == "template":
            v["template"] = rng.choice([t for t in ("alu", "gemmx_mac", "gemmx_add") if t != v["template"]])
        elif what == "bounds":
            k = rng.randrange(len(v["bounds"]))
            v["bounds"] = list(v["bounds"])
            v["bounds"][k] = rng.choice([b for b in (1, 2, 3, 4, 6, 8) if b != v["bounds"][k]])
        else:
            o = rng.choice(v["operands"])
            if "A" in o:
                A = [list(r) for r in o["A"]]
                j, k = rng.randrange(len(A)), rng.randrange(len(A[0]))
                A[j][k] = rng.choice([c for c in (0, 1, 2, 3) if c != A[j][k]])
                o["A"] = A
        if rng.random() < 0.4:
            v["operands"] = [reshape_operand(rng, o, rng.random() < 0.5) for o in v["operands"]]
        ops.append(v)
    elif mode == "random":
        for _ in range(rng.choice([1, 2])):
            ops.append(strip_op(gen_small_schedule(rng)))
        if rng.random() < 0.3:
            ops.append(strip_op(dict(gen_explicit(rng))))
    else:                       # exact duplicates (sharing an analysis is harmless here)
        ops.append(dict(ops[0]))
    rng.shuffle(ops)
    split = rng.random() < 0.25
    if len(ops) > 1 and rng.random() < 0.3:   # the same ops, but one pass run (one module) each, in this process, in order
        runs = [{"ops": [o], "split": False} for o in ops]
    else:
        runs = [{"ops": ops, "split": split}]
    return {"kind": "multi", "mode": mode, "tiled": tiled, "runs": runs}


def gen_global(rng, divides=None):
    """the accelerator operand is a tile (memref.subview) of an uninitialised memref.global with that subview as only user:
    realize-memref-casts then derives the layout of the whole global from the layout set-memory-layout chose for the tile"""
    for _ in range(50):
        c = gen_schedule(rng)
        o0 = c["operands"][0]
        if "A" in o0 and len(c["operands"]) <= 3 and int(np.prod(o0["shape"])) <= 512:
            break
    # tiles with padding are the interesting ones: small odd innermost extents
    if rng.random() < 0.5:
        n = rng.choice([2, 3])
        tile = [rng.choice([2, 4, 8]), rng.choice([3, 5, 6, 12])] if n == 2 else [rng.choice([2, 4]), rng.choice([2, 3]), rng.choice([3, 5, 6])]
        rank = len(tile)
        nd = rank + 1
        A = [[1 if k == j else 0 for k in range(nd)] for j in range(rank)]
        c = dict(c, ndims=nd, bounds=tile + [rng.choice([2, 4, 8])], template=rng.choice(["gemmx_mac", "alu", "gemmx_add"]),
                 operands=[{"shape": tile, "el": rng.choice(["i8", "i8", "i16", "i32", "f64"]), "A": A, "b": [0] * rank, "layout": None}])
        o0 = c["operands"][0]
    tile = o0["shape"]
    if divides is None:
        divides = rng.random() < 0.7
    gshape, offs = [], []
    for t in tile:
        k = rng.choice([1, 1, 2, 3, 4])
        n = t * k
        if not divides and rng.random() < 0.6:
            n += rng.randrange(1, t) if t > 1 else 0
        gshape.append(n)
        r = rng.random()
        if r < 0.45:
            offs.append(0)
        elif r < 0.85 or n == t:
            offs.append(t * rng.randrange(0, max(1, n // t)))       # at a tile boundary
        else:
            offs.append(rng.randrange(0, n - t + 1))                  # anywhere (in bounds): mostly not tile-aligned
    while int(np.prod(gshape)) > MAX_BOX:
        j = max(range(len(gshape)), key=lambda j: gshape[j] // tile[j])
        gshape[j] = max(tile[j], gshape[j] // 2 // tile[j] * tile[j])
        offs[j] = 0
    offs = [min(o, n - t) for o, n, t in zip(offs, gshape, tile)]
    c = dict(c, kind="global", gshape=gshape, offs=offs, uses=2 if rng.random() < 0.1 else 1,
             glayout=rng.random() < 0.08)
    c["operands"] = [dict(o, layout=None) for o in c["operands"]]
    return c


def gen_front(rng):
    """the op BEFORE set-memory-space (the pass in front of set-memory-layout in the pipeline): operands are function
    arguments or allocs, without memory space / in "L3" / already in "L1"; often one of them has an explicit layout"""
    for _ in range(50):
        c = gen_schedule(rng)
        if all("A" in o for o in c["operands"]) and wellformed(c):
            break
    c = dict(c, kind="front", opname="dart.schedule" if rng.random() < 0.8 else "dart.operation")
    ops = []
    for o in c["operands"]:
        o = dict(o, src=rng.choice(["alloc", "alloc", "arg"]), space=rng.choice([None, None, None, "L3", "L1"]), layout=None)
        ops.append(o)
    r = rng.random()
    if r < 0.65:      # explicit layouts, mostly on an alloc that still has to move to L1
        for o in rng.sample(ops, rng.choice([1, 1, 2]) if len(ops) > 1 else 1):
            if rng.random() < 0.75:
                lay = row_major_tsl(o["shape"])
                if rng.random() < 0.4 and len(o["shape"]) >= 1 and o["shape"][-1] % 2 == 0 and o["shape"][-1] >= 4:
                    n = o["shape"][-1]
                    lay[-1] = [[n // 2 * 2, 2], [1, n // 2]]      # a tiled, padded innermost dimension
                    for d in range(len(lay) - 2, -1, -1):
                        lay[d] = [[lay[d][0][0] * 2, lay[d][0][1]]]
                o["layout"] = ["tsl", lay]
            else:
                o["layout"] = ["strided", row_major_strides(o["shape"])]
    c["operands"] = ops
    return c


def row_major_tsl(shape):
    lay = []
    s = 1
    for n in reversed(shape):
        lay.insert(0, [[s, n]])
        s *= n
    return lay


def gen_explicit(rng):
    """some operand already carries an explicit layout"""
    c = gen_schedule(rng)
    which = rng.randrange(len(c["operands"]))
    o = c["operands"][which]
    if rng.random() < 0.75:
        o["layout"] = ["tsl", row_major_tsl(o["shape"])]
    else:
        o["layout"] = ["strided", [st[0][0] for st in row_major_tsl(o["shape"])]]
    return c


def gen_malformed(rng):
    c = gen_schedule(rng)
    k = rng.randrange(6)
    if k == 0:      # non-positive bound -> ValueError in SchedulePattern
        c["bounds"][rng.randrange(len(c["bounds"]))] = rng.choice([0, -1, -4])
    elif k == 1:    # number of bounds != number of pattern dims -> ValueError
        if rng.random() < 0.5 or len(c["bounds"]) == 1:
            c["bounds"].append(rng.choice(BOUNDS))
        else:
            c["bounds"].pop()
    elif k == 2:    # pattern has more results than the memref has dims -> IndexError (when the extra one is accessed)
        o = rng.choice(c["operands"])
        extra = [0] * c["ndims"]
        extra[rng.randrange(c["ndims"])] = 1
        o["A"].append(extra)
        o["b"].append(0)
    elif k == 3:    # pattern has fewer results than the memref has dims: the rest is never accessed
        o = rng.choice(c["operands"])
        o["shape"].append(rng.choice([1, 2, 3, 4]))
    elif k == 4:    # element type without fixed width -> AssertionError once the stride is > 1
        rng.choice(c["operands"])["el"] = "index"
    else:           # no accelerator attribute / not a streamer accelerator -> AssertionError once the stride is > 1
        c["template"] = rng.choice(["none", "hwpe", "gemmini"])
    return c


def gen_strides(rng, zeros=False):
    n = rng.choice([1, 2, 2, 3, 3, 4, 5])
    out = []
    for _ in range(n):
        out.append([rng.choice([0] if zeros and rng.random() < 0.15 else [1, 2, 3, 4, 6, 8, 12, 16, 24, 32, 64]),
                    rng.choice([0] if zeros and rng.random() < 0.15 else [1, 1, 2, 2, 3, 4, 8])])
    # make squashable neighbours likely
    for k in range(n - 2, -1, -1):
        if rng.random() < 0.5:
            out[k][0] = out[k + 1][0] * out[k + 1][1]
    return out


def gen_addr(rng):
    rank = rng.choice([1, 2, 2, 3])
    layout = [[s for s in gen_strides(rng)] for _ in range(rank)]
    layout = [[[max(s, 1), max(b, 1)] for s, b in d] for d in layout]
    pts = []
    for _ in range(6):
        pt = []
        for d in layout:
            size = int(np.prod([b for _, b in d]))
            pt.append(rng.randrange(size + (3 if rng.random() < 0.2 else 0)))
        pts.append(pt)
    return {"kind": "addr", "layout": layout, "pts": pts}


class C09(Prop):
    id = "C09"
    PARALLEL = True
    exhaustive_thorough = True
    trusted_base = [
        "modelled: set_memory_layout.py (ensure_access_granularity, AddCyclicMemoryLayout.match_and_rewrite with fix F15), "
        "TiledStride.canonicalize, TiledStridedLayoutAttr.get_affine_map (Model/CyclicLayout.lean)",
        "the number of spatial dims of the accelerator template is an input of the model (table in harness/props/c09.py, "
        "exercised against snax_alu / snax_gemmx matmul / snax_gemmx rescale-only on every case)",
        "AffineTransform.from_affine_map (pattern -> matrix A) is exercised, not modelled: the case carries A and the harness prints the affine map from it",
    ]
    assumptions = [
        "static operand shapes with every extent >= 1 (dynamic or zero-sized dimensions are outside the model: `outsideModel`)",
        "'explicit layout' = the operand type carries a #tsl.tsl layout (the guard of the pattern); strided<> layouts are re-laid-out by a cast like identity layouts",
        "committed files expect fixes/F15-cyclic-layout-cover.diff applied to $SNAX_REPO",
    ]
    rule = ("random dart.schedule ops: 1-6 schedule dims, 1-4 operands of rank 1-4, scheduler-like mixed-radix patterns and random "
            "patterns (coefficients 1,2,3,4,8,-1, reduction/broadcast dims, 5% diagonal), shapes = access extent / padded / unrelated, "
            "8 element types, 3 accelerator templates, tiled in {true,false}; plus explicit-layout, malformed, canonicalize, address-map and "
            "granularity streams, affine-expression patterns, and `multi` cases (several ops per module and several pass runs per process that share "
            "maps/bounds/element types/accelerator and differ in one ingredient, both orders); non-trivial = a layout with a tile (depth>1), a granularity gap, or a raised/untouched outcome; "
            "thorough adds the exhaustive space: every 0/1/2/3-coefficient assignment of 2 schedule dims (bounds in {2,3,4}) to a rank-2 operand, "
            "shapes = extent, widths 8/32, both modes")

    # -- generators -----------------------------------------------------------------------
    def cases(self, rng, tier):
        q = tier == "quick"
        for _ in range(700 if q else 12000):
            yield gen_schedule(rng, big=not q)
        for _ in range(60 if q else 600):
            yield gen_explicit(rng)
        for _ in range(200 if q else 3000):
            yield gen_schedule_exprs(rng)
        for _ in range(120 if q else 1500):
            yield gen_malformed(rng)
        for _ in range(220 if q else 2000):
            yield gen_multi(rng)
        for _ in range(120 if q else 1500):
            yield gen_global(rng)
        for _ in range(150 if q else 2000):
            yield gen_front(rng)
        for _ in range(150 if q else 3000):
            yield {"kind": "canon", "strides": gen_strides(rng, zeros=True)}
        for _ in range(100 if q else 2000):
            yield gen_addr(rng)
        for _ in range(150 if q else 3000):
            yield {"kind": "ensure", "s": rng.choice([1, 2, 3, 7, 8, 9, 15, 16, 17, 63, 64, 65, rng.randrange(1, 5000)]),
                   "k": rng.randrange(0, 5),
                   "template": rng.choice(["alu", "gemmx_mac", "gemmx_add", "gemmx_qmac", "none", "hwpe", "gemmini"]),
                   "el": rng.choice(ELS + ["index"])}
        if not q:
            yield from self.exhaustive()

    def exhaustive(self):
        for b0, b1 in itertools.product([2, 3, 4], repeat=2):
            for cs in itertools.product([0, 1, 2, 3], repeat=4):
                rows = [[cs[0], cs[1]], [cs[2], cs[3]]]
                shape = [extent(r, [b0, b1], 0) for r in rows]
                for el in ("i8", "i32"):
                    for tiled in (True, False):
                        yield {"kind": "schedule", "tiled": tiled, "template": "alu", "ndims": 2, "bounds": [b0, b1],
                               "operands": [{"shape": shape, "el": el, "A": rows, "b": [0, 0], "layout": None}]}

    # -- real code ------------------------------------------------------------------------
    def impl(self, case):
        k = case["kind"]
        if k in ("schedule", "multi"):
            return self.impl_schedule(case)
        if k == "global":
            return self.impl_global(case)
        if k == "front":
            return self.impl_front(case)
        if k == "canon":
            from snaxc.ir.tsl import Stride, TiledStride
            r = TiledStride([Stride(s, b) for s, b in case["strides"]]).canonicalize()
            return {"strides": [[s.step, s.bound] for s in r.strides]}
        if k == "addr":
            from snaxc.dialects.tsl import TiledStridedLayoutAttr
            m = TiledStridedLayoutAttr(real_tsl(case["layout"])).get_affine_map()
            return {"addrs": [int(m.eval(list(p), [])[0]) for p in case["pts"]]}
        if k == "ensure":
            return self.impl_ensure(case)
        raise ValueError(k)

    def impl_schedule(self, case):
        """kind schedule: one op, one run. kind multi: several runs IN THIS PROCESS, IN ORDER, each over a module
        with several ops (state kept by the pattern / the pass / the module must not leak between operands, ops, runs)"""
        outs = []
        for op_cases, split in runs_of(case):
            outs.append(self.run_once(op_cases, split, case["tiled"], whole_text=case["kind"] == "schedule"))
        if case["kind"] == "schedule":
            return outs[0][0]
        return {"runs": outs}

    def run_once(self, op_cases, split, tiled, whole_text):
        import snaxrun
        from snaxc.dialects import dart
        from snaxc.dialects.snax import LayoutCast
        from snaxc.dialects.tsl import TiledStridedLayoutAttr
        from xdsl.ir import BlockArgument
        src = mlir_ops(op_cases, split)
        before = snaxrun.text(snaxrun.parse(src))
        passes = "set-memory-layout{tiled=%s}" % ("true" if tiled else "false")
        try:
            with time_limit(10):         # normal run time: ~15 ms
                out = snaxrun.run_passes(src, passes)
        except PassTimeout:
            # never call a loaded machine a non-terminating pass: confirm with a long limit (at most 3 times per process)
            if C09._confirmed_timeouts >= 3:
                raise
            with time_limit(120):
                try:
                    out = snaxrun.run_passes(src, passes)
                except PassTimeout:
                    C09._confirmed_timeouts += 1
                    raise
        mod = snaxrun.parse(out)
        scheds = [op for op in mod.walk() if isinstance(op, dart.ScheduleOp)]
        assert len(scheds) == len(op_cases)
        n_casts = len([op for op in mod.walk() if isinstance(op, LayoutCast)])
        res = []
        used_casts = 0
        offset = 0
        for sched, oc in zip(scheds, op_cases):
            fargs = list(sched.parent_block().args)
            first_arg = 0 if split else offset      # position of this op's first operand among the function arguments
            offset += len(oc["operands"])
            owners = [o.owner for o in sched.operands]
            if not any(isinstance(w, LayoutCast) for w in owners):
                same = all(isinstance(o, BlockArgument) for o in sched.operands)
                res.append({"layouts": None, "unchanged": (snaxrun.text(mod) == before) if whole_text else same})
                continue
            layouts = []
            wiring = []
            for i, (opnd, w) in enumerate(zip(sched.operands, owners)):
                if not isinstance(w, LayoutCast):
                    wiring.append(False)
                    layouts.append(None)
                    continue
                used_casts += 1
                lay = w.dest.type.layout
                assert isinstance(lay, TiledStridedLayoutAttr)
                assert lay.data.offset == 0
                layouts.append([[[s.step, s.bound] for s in ts.strides] for ts in lay.data.tstrides])
                st, dt = w.source.type, w.dest.type
                wiring.append(bool(
                    first_arg + i < len(fargs) and w.source is fargs[first_arg + i]
                    and w.parent_block() is sched.parent_block()
                    and st.get_shape() == dt.get_shape() and st.get_element_type() == dt.get_element_type()
                    and st.memory_space == dt.memory_space and i < len(oc["operands"])
                    and list(st.get_shape()) == list(oc["operands"][i]["shape"])))
            res.append({"layouts": layouts, "wired": all(wiring) and len(sched.operands) == len(oc["operands"])})
        if used_casts != n_casts:       # a cast that feeds no schedule operand
            for r in res:
                if "wired" in r:
                    r["wired"] = False
        return res

    def impl_front(self, case):
        """the passes in front of set-memory-layout in the pipeline, then set-memory-layout: what the op consumes afterwards"""
        import snaxrun
        from snaxc.dialects import dart
        from snaxc.dialects.snax import LayoutCast
        from snaxc.dialects.tsl import TiledStridedLayoutAttr
        from xdsl.dialects import builtin, memref
        passes = "set-memory-space,set-memory-layout{tiled=%s}" % ("true" if case["tiled"] else "false")
        with time_limit(60):
            out = snaxrun.run_passes(mlir_front(case), passes)
        mod = snaxrun.parse(out)
        ops = [op for op in mod.walk() if isinstance(op, dart.ScheduleOp | dart.OperationOp)]
        assert len(ops) == 1

        def lay_json(ty):
            lay = ty.layout
            if isinstance(lay, TiledStridedLayoutAttr):
                assert lay.data.offset == 0
                return ["tsl", [[[s.step, s.bound] for s in ts.strides] for ts in lay.data.tstrides]]
            if isinstance(lay, builtin.StridedLayoutAttr):
                return ["strided", [x.data for x in lay.strides.data]]
            if isinstance(lay, builtin.NoneAttr):
                return None
            return ["other", str(lay)]
        res = []
        for i, v in enumerate(ops[0].operands):
            o = case["operands"][i]
            cast = None
            w = v
            # walk back through the casts that the passes inserted
            while isinstance(w.owner, LayoutCast | memref.MemorySpaceCastOp):
                if isinstance(w.owner, LayoutCast):
                    cast = lay_json(w.owner.dest.type)
                    w = w.owner.source
                else:
                    w = w.owner.source
            res.append({"layout": lay_json(v.type), "cast": cast, "origin_layout": lay_json(w.type),
                        "same_buffer": bool(list(v.type.get_shape()) == list(o["shape"])
                                            and str(v.type.get_element_type()) == o["el"])})
        return {"operands": res}

    def impl_global(self, case):
        """set-memory-layout, then realize-memref-casts (the next pass of the pipeline): the layout given to the WHOLE global"""
        import snaxrun
        from snaxc.dialects.tsl import TiledStridedLayoutAttr
        from xdsl.dialects import memref
        src = mlir_global(case)
        passes = "set-memory-layout{tiled=%s},realize-memref-casts" % ("true" if case["tiled"] else "false")
        with time_limit(60):
            out = snaxrun.run_passes(src, passes)
        mod = snaxrun.parse(out)

        def lay_of(ty):
            lay = ty.layout
            if not isinstance(lay, TiledStridedLayoutAttr):
                return None
            assert lay.data.offset == 0
            return [[[s.step, s.bound] for s in ts.strides] for ts in lay.data.tstrides]
        globals_ = [op for op in mod.walk() if isinstance(op, memref.GlobalOp)]
        gets = [op for op in mod.walk() if isinstance(op, memref.GetGlobalOp)]
        subs = [op for op in mod.walk() if isinstance(op, memref.SubviewOp)]
        assert len(gets) == 1 and len(subs) == 1
        g = [op for op in globals_ if op.sym_name.data == gets[0].name_.string_value()]
        assert len(g) == 1
        return {"global": lay_of(g[0].type), "tile": lay_of(subs[0].result.type),
                "consistent": bool(g[0].type == gets[0].memref.type and subs[0].source.type == g[0].type
                                   and list(g[0].type.get_shape()) == list(case["gshape"])),
                "n_globals": len(globals_)}

    _ENSURE_OPS = {}
    _confirmed_timeouts = 0

    def impl_ensure(self, case):
        import snaxrun
        from snaxc.dialects import dart
        from snaxc.transforms.set_memory_layout import ensure_access_granularity
        key = (case["template"], case["el"])
        if key not in self._ENSURE_OPS:
            c = {"kind": "schedule", "tiled": True, "template": case["template"], "ndims": 1, "bounds": [4],
                 "operands": [{"shape": [4], "el": case["el"], "A": [[1]], "b": [0], "layout": None}]}
            mod = snaxrun.parse(mlir(c))
            op = [o for o in mod.walk() if isinstance(o, dart.ScheduleOp)][0]
            self._ENSURE_OPS[key] = (mod, op, snaxrun.ctx())
        mod, op, ctx = self._ENSURE_OPS[key]
        return {"stride": int(ensure_access_granularity(ctx, case["s"], case["k"], op, op.operands[0]))}

    # -- model ----------------------------------------------------------------------------
    def op_requests(self, case):
        ops, mops = [], []
        for o in case["operands"]:
            lay = o.get("layout")
            common = {"shape": o["shape"], "elBits": EL_BITS[o["el"]], "hasTsl": bool(lay and lay[0] == "tsl")}
            if "A" in o:
                ops.append(dict(common, ndims=o.get("ndims", case["ndims"]), rows=o["A"]))
            # what the pass reads from the IR: the pattern attribute as parsed by xDSL
            nd, exprs = parsed_exprs(pattern_text(case, o))
            mops.append(dict(common, ndims=nd, exprs=exprs))
        hdr = {"fixed": FIXED_MODEL, "tiled": case["tiled"], "spatial": TEMPLATES[case["template"]][2],
               "bounds": case["bounds"]}
        reqs = [{"fn": "c09.rewritemaps", "args": dict(hdr, ops=mops)}]
        if len(ops) == len(case["operands"]):
            reqs.append({"fn": "c09.rewrite", "args": dict(hdr, ops=ops)})
        return reqs

    def op_model(self, answers):
        r = answers[0]["ok"]
        # the front-end model (affine maps) and the matrix model must agree
        if len(answers) > 1 and canon_json_local(answers[1]["ok"]) != canon_json_local(r):
            return {"model_split": {"maps": r, "matrix": answers[1]["ok"]}}
        if "raised" in r:
            return {"raised": r["raised"]}
        if r["layouts"] is None:
            return {"layouts": None, "unchanged": True}
        return {"layouts": r["layouts"], "wired": True}

    def requests(self, case):
        k = case["kind"]
        if k == "schedule":
            return self.op_requests(case)
        if k == "multi":
            return [r for op_cases, _ in runs_of(case) for oc in op_cases for r in self.op_requests(oc)]
        if k == "front":
            return self.op_requests(dict(case, kind="schedule"))
        if k == "global":
            r = self.op_requests(dict(case, kind="schedule"))[0]
            return [{"fn": "c09.opglobal", "args": dict(r["args"], gshape=case["gshape"], offs=list(case["offs"]),
                                                        gfixed=GLOBAL_FIXED)}]
        if k == "canon":
            return [{"fn": "c09.canon", "args": {"strides": case["strides"]}}]
        if k == "addr":
            return [{"fn": "c09.addr", "args": {"layout": case["layout"], "pts": case["pts"]}}]
        if k == "ensure":
            return [{"fn": "c09.ensure", "args": {"s": case["s"], "k": case["k"], "elBits": EL_BITS[case["el"]],
                                                  "spatial": TEMPLATES[case["template"]][2]}}]
        return []

    def model(self, case, answers):
        for a in answers:
            if "err" in a:
                return {"model_error": a["err"]}
        r = answers[0]["ok"]
        k = case["kind"]
        if k == "schedule":
            return self.op_model(answers)
        if k == "front":
            # set-memory-space only changes memory spaces; set-memory-layout only rewrites dart.schedule
            m = self.op_model(answers)
            lays = [o.get("layout") for o in case["operands"]]
            if case.get("opname", "dart.schedule") != "dart.schedule" or ("raised" not in m and m["layouts"] is None):
                return {"operands": [{"layout": l, "cast": None, "origin_layout": l, "same_buffer": True} for l in lays]}
            if "raised" in m or "model_split" in m:
                return m
            return {"operands": [{"layout": ["tsl", ml], "cast": ["tsl", ml], "origin_layout": l, "same_buffer": True}
                                 for l, ml in zip(lays, m["layouts"])]}
        if k == "global":
            if "raised" in r:
                return {"raised": r["raised"]}
            # IR-level guards of the pattern (single user, layout of the global unset), not modelled in Lean
            fires = case.get("uses", 1) == 1 and not case.get("glayout")
            glob = r["global"] if fires else None
            return {"global": glob, "tile": r["layouts"][0] if glob is not None else None, "consistent": True,
                    "n_globals": 1}
        if k == "multi":
            # the specification: every op of every run is rewritten as if it were alone (the pass keeps no state)
            runs, pos = [], 0
            for op_cases, _ in runs_of(case):
                outs = []
                for oc in op_cases:
                    n = len(self.op_requests(oc))
                    outs.append(self.op_model(answers[pos:pos + n]))
                    pos += n
                raised = [o for o in outs if "raised" in o]
                if raised:      # the walker visits the ops in order: the first exception ends the run
                    return {"raised": raised[0]["raised"]}
                runs.append(outs)
            return {"runs": runs}
        if k == "canon":
            return {"strides": r}
        if k == "addr":
            return {"addrs": r}
        if k == "ensure":
            return {"raised": r["raised"]} if isinstance(r, dict) else {"stride": r}

    def compare(self, case, impl_out, model_out):
        if isinstance(impl_out, dict) and "raised" in impl_out and isinstance(model_out, dict) and "raised" in model_out:
            return None if impl_out["raised"] == model_out["raised"] else \
                f"impl raised {impl_out['raised']}, model {model_out['raised']}"
        return super().compare(case, impl_out, model_out)

    # -- the property on the real code's output ---------------------------------------------
    def oracle(self, case, impl_out):
        k = case["kind"]
        if k == "ensure":
            if "raised" in impl_out:
                return []
            s, r = case["s"], impl_out["stride"]
            out = []
            if r < s:
                out.append({"what": f"ensure_access_granularity shrank the stride {s} -> {r}", "finding": None})
            bits, sp = EL_BITS[case["el"]], TEMPLATES[case["template"]][2]
            if s != 1 and bits is not None and sp is not None:
                g = (8 if bits == 8 else 16) if case["k"] >= sp else (8 if bits == 8 else 2)
                if r % g:
                    out.append({"what": f"stride {r} (from {s}) is not a multiple of the access granularity {g}", "finding": None})
            return out
        if k == "canon":
            # canonicalisation must not change the addresses of the dimension
            if "raised" in impl_out:
                return []
            a, b = case["strides"], impl_out["strides"]
            if any(s == 0 or bd == 0 for s, bd in a):
                return []
            size = int(np.prod([bd for _, bd in a]))
            if not np.array_equal(dim_addresses(a, size), dim_addresses(b, size)):
                return [{"what": f"TiledStride.canonicalize changed the address function: {a} -> {b}", "finding": None}]
            return []
        if k == "addr":
            if "raised" in impl_out:
                return [{"what": f"get_affine_map raised {impl_out['raised']} on the static layout {case['layout']}", "finding": None}]
            for pt, a in zip(case["pts"], impl_out["addrs"]):
                if a != point_address(case["layout"], pt):
                    return [{"what": f"get_affine_map of {case['layout']} sends element {pt} to {a}, the layout means "
                                     f"{point_address(case['layout'], pt)}", "finding": None}]
            return []
        if k == "front":
            flow = "set-memory-space,set-memory-layout"
            if "raised" in impl_out:
                if wellformed(dict(case, kind="schedule")) or impl_out["raised"] == "PassTimeout":
                    return [{"what": f"{flow} raised {impl_out['raised']} on a well-formed op: {impl_out.get('msg')}", "finding": None}]
                return []
            out = []
            has_tsl = any(o.get("layout") and o["layout"][0] == "tsl" for o in case["operands"])
            sched = case.get("opname", "dart.schedule") == "dart.schedule"
            for i, (o, r) in enumerate(zip(case["operands"], impl_out["operands"])):
                given = o.get("layout")
                if not r["same_buffer"]:
                    out.append({"what": f"operand {i}: shape / element type changed by {flow}", "finding": None})
                if r["origin_layout"] != given:
                    out.append({"what": f"operand {i} ({o['src']}, memory space {o.get('space')}): the explicit layout {given} it was "
                                        f"created with became {r['origin_layout']} in the flow {flow} (an explicit layout must be "
                                        f"left untouched)", "finding": None})
                if given and given[0] == "tsl" and (r["layout"] != given or r["cast"] is not None):
                    out.append({"what": f"operand {i}: already carries the explicit layout {given}, after {flow} the op consumes "
                                        f"layout {r['layout']} (layout_cast: {r['cast']})", "finding": None})
                if (has_tsl or not sched) and r["cast"] is not None:
                    out.append({"what": f"operand {i}: a layout_cast to {r['cast']} was inserted although "
                                        + ("an operand of the op already carries an explicit TSL layout" if has_tsl else
                                           "the op is not a scheduled op"), "finding": None})
                if sched and not has_tsl:
                    if r["cast"] is None or r["cast"][0] != "tsl" or r["layout"] != r["cast"]:
                        out.append({"what": f"operand {i}: no TSL layout_cast feeds the op after {flow}", "finding": None})
                    else:
                        out += self.layout_problems(f"operand {i}", o["shape"], r["cast"][1], case_rng(case), "D22",
                                                    f"({flow}, tiled={case['tiled']})")
            return out
        if k == "global":
            if "raised" in impl_out:
                if wellformed(dict(case, kind="schedule")) or impl_out["raised"] == "PassTimeout":
                    return [{"what": f"set-memory-layout,realize-memref-casts raised {impl_out['raised']} on a well-formed "
                                     f"schedule whose operand is a tile of a global: {impl_out.get('msg')}", "finding": None}]
                return []
            out = []
            if impl_out["global"] is not None:
                tile = case["operands"][0]["shape"]
                divides = all(n % t == 0 for n, t in zip(case["gshape"], tile))
                if not impl_out["consistent"]:
                    out.append({"what": "the transformed global, its get_global and the subview disagree on the type", "finding": None})
                out += self.layout_problems(
                    "layout chosen for the whole global", case["gshape"], impl_out["global"], case_rng(case),
                    None if divides else "DC09a",
                    f"(tile {tile} with layout {impl_out['tile']}, set-memory-layout{{tiled={case['tiled']}}},realize-memref-casts)")
                if impl_out["tile"] is not None:
                    out += self.layout_problems("layout of the tile (subview result)", tile, impl_out["tile"], case_rng(case),
                                                "D22", "")
            return out
        if k == "multi":
            if "raised" in impl_out:
                all_ok = all(wellformed(oc) or any(o.get("layout") and o["layout"][0] == "tsl" for o in oc["operands"])
                             for op_cases, _ in runs_of(case) for oc in op_cases)
                if all_ok or impl_out["raised"] == "PassTimeout":
                    return [{"what": f"set-memory-layout raised {impl_out['raised']} on a module of well-formed schedules: "
                                     f"{impl_out.get('msg')}", "finding": None}]
                return []
            out = []
            for r, ((op_cases, _), outs) in enumerate(zip(runs_of(case), impl_out["runs"])):
                for j, (oc, o) in enumerate(zip(op_cases, outs)):
                    for v in self.op_oracle(oc, o):
                        out.append(dict(v, what=f"pass run {r}, dart.schedule #{j} of the module: " + v["what"]))
            return out
        if k != "schedule":
            return []
        return self.op_oracle(case, impl_out)

    def op_oracle(self, case, impl_out):
        out = []
        ops = case["operands"]
        has_tsl = any(o.get("layout") and o["layout"][0] == "tsl" for o in ops)
        if "raised" in impl_out:
            if has_tsl:
                out.append({"what": f"set-memory-layout raised {impl_out['raised']} on an op whose operand already carries a TSL "
                                    f"layout (must be left untouched): {impl_out.get('msg')}", "finding": None})
            elif wellformed(case) or impl_out["raised"] == "PassTimeout":
                out.append({"what": f"set-memory-layout raised {impl_out['raised']} on a well-formed schedule: {impl_out.get('msg')}",
                            "finding": None})
            return out
        if has_tsl:
            if impl_out["layouts"] is not None or not impl_out.get("unchanged"):
                out.append({"what": "an op with an operand that already carries a TSL layout was modified", "finding": None})
            return out
        if impl_out["layouts"] is None:
            out.append({"what": "no layout_cast inserted although no operand carries a TSL layout", "finding": None})
            return out
        if not impl_out.get("wired"):
            out.append({"what": "layout_casts do not wrap the operands one-to-one (source/dest/shape/element type/memory space)",
                        "finding": None})
        from snaxc.dialects.tsl import TiledStridedLayoutAttr
        prng = case_rng(case)
        for i, (o, lay) in enumerate(zip(ops, impl_out["layouts"])):
            shape = o["shape"]
            if lay is None:
                out.append({"what": f"operand {i}: no layout_cast although the op was rewritten", "finding": None})
                continue
            out += self.layout_problems(f"operand {i}", shape, lay, prng, "D22",
                                        f"(pattern={o.get('A', o.get('exprs'))}, bounds={case['bounds']}, tiled={case['tiled']})")
        return out

    def layout_problems(self, label, shape, lay, prng, under_tag, descr):
        """THE property on one chosen layout of the real code: rank, positive static entries, bounds cover exactly the shape,
        distinct elements at distinct addresses (by the layout's meaning, by the class' all_values(), by get_affine_map)"""
        from snaxc.dialects.tsl import TiledStridedLayoutAttr
        out = []
        if len(lay) != len(shape):
            out.append({"what": f"{label}: layout has {len(lay)} dims, memref has {len(shape)}", "finding": None})
            return out
        if any(s is None or b is None or s <= 0 or b <= 0 for d in lay for s, b in d):
            out.append({"what": f"{label}: dynamic ('?') or non-positive step or bound in the layout {lay} chosen for the "
                                f"static memref {list(shape)}", "finding": None})
            return out
        prods = [int(np.prod([b for _, b in d])) for d in lay]
        under = any(p < n for p, n in zip(prods, shape))
        tag = under_tag if under else None
        if prods != list(shape):
            out.append({"what": f"{label}: bound products {prods} != shape {list(shape)} for layout {lay} "
                                f"{descr}", "finding": tag})
        if int(np.prod(shape)) <= 4 * MAX_BOX:
            addrs = all_addresses(lay, shape)
            uniq, first, counts = np.unique(addrs, return_index=True, return_counts=True)
            if len(uniq) != len(addrs):
                a = int(uniq[counts > 1][0])
                idxs = [list(map(int, np.unravel_index(int(j), shape))) for j in np.nonzero(addrs == a)[0][:2]]
                out.append({"what": f"{label}: elements {idxs[0]} and {idxs[1]} of memref {list(shape)} both live at "
                                    f"address {a} in layout {lay}", "finding": tag})
            # the layout's own view (DESIGN "O"): all_values() of the real class
            tsl = real_tsl(lay)
            vals = tsl.all_values()
            if prods == list(shape) and (len(vals) != len(addrs) or tsl.self_overlaps()):
                out.append({"what": f"{label}: TiledStridedLayout.all_values() has {len(vals)} entries / overlaps "
                                    f"for shape {list(shape)}", "finding": None})
            # the compiler's own address map of the chosen layout (get_affine_map, what dart-layout-resolution uses):
            # sampled elements everywhere, every index of a dimension with >= 3 tile levels, and the whole box when
            # it is small -- it must agree with the layout's meaning and (small boxes) be one-to-one itself
            m = TiledStridedLayoutAttr(tsl).get_affine_map()
            pts = [[prng.randrange(n) for n in shape] for _ in range(4)]
            for d, strides in enumerate(lay):
                if len(strides) >= 3:
                    base = [prng.randrange(n) for n in shape]
                    pts += [base[:d] + [j] + base[d + 1:] for j in range(min(shape[d], 96))]
            whole = int(np.prod(shape)) <= 256
            if whole:
                pts = [list(p) for p in itertools.product(*[range(n) for n in shape])]
            seen = {}
            for pt in pts:
                a = int(m.eval(pt, [])[0])
                if a != point_address(lay, pt):
                    out.append({"what": f"{label}: get_affine_map of the chosen layout {lay} sends element {pt} to {a}, "
                                        f"the layout means {point_address(lay, pt)}", "finding": None})
                    break
                if whole and a in seen:
                    out.append({"what": f"{label}: get_affine_map sends elements {seen[a]} and {pt} to the same address {a}",
                                "finding": tag})
                    break
                seen[a] = pt
        return out

    def nontrivial(self, case, impl_out):
        k = case["kind"]
        if k == "schedule":
            if "raised" in impl_out or impl_out.get("layouts") is None:
                return True
            for lay in impl_out["layouts"]:
                if lay is None or any(s is None or b is None for d in lay for s, b in d):
                    return True
                flat = sorted((s, b) for d in lay for s, b in d)
                cur = 1
                for s, b in flat:
                    if len(flat) > 1 and s != cur and b > 1:
                        return True   # gap (granularity padding)
                    cur = s * b
                if any(len(d) > 1 for d in lay):
                    return True
            return False
        if k == "canon":
            return impl_out.get("strides") != case["strides"]
        if k == "ensure":
            return impl_out.get("stride") != case["s"]
        return True

    def stats_key(self, case, impl_out):
        k = case["kind"]
        if isinstance(impl_out, dict) and "raised" in impl_out:
            return f"{k}:raised:{impl_out['raised']}"
        if k == "schedule":
            if impl_out.get("layouts") is None:
                return "schedule:untouched"
            return f"schedule:{'tiled' if case['tiled'] else 'untiled'}:{case['template']}"
        if k == "multi":
            return f"multi:{case.get('mode', '?')}:{len(case['runs'])}run"
        if k == "front":
            has_tsl = any(o.get("layout") and o["layout"][0] == "tsl" for o in case["operands"])
            return f"front:{case.get('opname', 'dart.schedule')}:" + ("explicit-tsl" if has_tsl else "no-tsl")
        if k == "global":
            tile = case["operands"][0]["shape"]
            if impl_out.get("global") is None:
                why = ("second-user" if case.get("uses", 1) > 1 else "has-layout" if case.get("glayout") else
                       "tile-does-not-divide" if any(n % t for n, t in zip(case["gshape"], tile)) else
                       "offset-unaligned" if any(o % t for o, t in zip(case["offs"], tile)) else "?")
                return "global:untouched:" + why
            return "global:" + ("tile-divides" if all(n % t == 0 for n, t in zip(case["gshape"], tile)) else "tile-does-not-divide")
        return k

    def shrink(self, case):
        if case["kind"] in ("schedule", "front"):
            yield from self.op_shrink(case)
        elif case["kind"] == "multi":
            runs = case["runs"]
            if len(runs) > 1:
                for r in range(len(runs)):
                    yield dict(case, runs=runs[:r] + runs[r + 1:])
            for r, run in enumerate(runs):
                ops = run["ops"]
                if len(ops) > 1:
                    for j in range(len(ops)):
                        yield dict(case, runs=runs[:r] + [dict(run, ops=ops[:j] + ops[j + 1:])] + runs[r + 1:])
                if run.get("split"):
                    yield dict(case, runs=runs[:r] + [dict(run, split=False)] + runs[r + 1:])
            for r, run in enumerate(runs):
                for j, oc in enumerate(run["ops"]):
                    for cand in self.op_shrink(dict(oc, kind="schedule", tiled=case["tiled"])):
                        small = {k: v for k, v in cand.items() if k not in ("kind", "tiled")}
                        yield dict(case, runs=runs[:r] + [dict(run, ops=run["ops"][:j] + [small] + run["ops"][j + 1:])]
                                   + runs[r + 1:])

    def op_shrink(self, case):
        ops = case["operands"]
        if len(ops) > 1:
            for i in range(len(ops)):
                yield dict(case, operands=ops[:i] + ops[i + 1:])
        n = case["ndims"]
        if n > 1 and all(o.get("ndims", n) == n and "A" in o for o in ops) and len(case["bounds"]) == n:
            for k in range(n):
                yield dict(case, ndims=n - 1, bounds=case["bounds"][:k] + case["bounds"][k + 1:],
                           operands=[dict(o, A=[r[:k] + r[k + 1:] for r in o["A"]]) for o in ops])
        for i, o in enumerate(ops):
            if "exprs" in o:
                for j, e in enumerate(o["exprs"]):
                    if e[0] not in "dc":
                        for sub in (e[1], e[2]):
                            ne = list(o["exprs"])
                            ne[j] = sub
                            yield dict(case, operands=ops[:i] + [dict(o, exprs=ne)] + ops[i + 1:])
                continue
            for j, row in enumerate(o["A"]):
                for k2, c in enumerate(row):
                    if c not in (0, 1):
                        nr = [list(r) for r in o["A"]]
                        nr[j][k2] = 1
                        yield dict(case, operands=ops[:i] + [dict(o, A=nr)] + ops[i + 1:])
            if o["el"] != "i8":
                yield dict(case, operands=ops[:i] + [dict(o, el="i8")] + ops[i + 1:])
            if any(o["b"]):
                yield dict(case, operands=ops[:i] + [dict(o, b=[0] * len(o["b"]))] + ops[i + 1:])


PROP = C09()
