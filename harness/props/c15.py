"""C15 — pipelined double-buffered loops equal the sequential loop
(passes `construct-pipeline,pipeline-duplicate-buffers,unroll-pipeline`).

Committed state: the model is the code WITH fix F16 (fixes/F16-construct-pipeline-static-guard.diff, in /repo) and WITH fix
FC15b (fixes/FC15b-construct-pipeline-no-trailing-ops.diff) applied: ConstructPipeline only fires for constant lb = 0,
step = 1 and constant ub >= stages - 1, and declines a body in which anything but the yield follows the stages.

A case is an abstract loop: bounds, a tile table (index ops = subviews `A[i + off]`, or loop-invariant `A[off]`; a tile
may also serve as stage-to-stage buffer: "view" cases), and a token list
(`idx` / `op` with tagged operands / `sync`). `render` turns it into MLIR; the three real passes run on it;
`extract` reads the slot structure (which op on which index expression with which operands in the prologue,
the steady-state loop and the epilogue, barriers, parity selects) off the unrolled IR. The Lean model produces
the same structure from the abstract loop. The oracle is independent of the model: both programs are
executed on a two-core machine (data mover / compute) with symbolic buffer contents.
"""
import itertools
import random

import compat  # noqa: F401
import snaxrun
from framework import Prop, canon_json

TAGS = 2000   # tags of loop m of a multi-loop module are in [TAGS*m, TAGS*(m+1))
T1 = "memref<1xi8, strided<[1], offset: ?>>"
T = "memref<1xi8>"
BIG = "memref<256xi8>"
PASSES = "construct-pipeline,pipeline-duplicate-buffers,unroll-pipeline"


def passes_of(case):
    """nests go through the real flow: pipeline-canonicalize-for (step 1, merged nest) in front of the three passes"""
    return ("pipeline-canonicalize-for," + PASSES) if case.get("kind") == "nest" else PASSES


def run_real(src, passes=None):
    """the real passes, in process, with verification after each (like snax-opt); returns the module"""
    from snaxc.transforms import get_all_snax_passes
    ctx = snaxrun.fresh_ctx()
    from xdsl.parser import Parser
    module = Parser(ctx, src).parse_module()
    allp = get_all_snax_passes()
    for name in (passes or PASSES).split(","):
        allp[name]()().apply(ctx, module)
        module.verify()
    return module


def tile_entry(case, j):
    """(array, effective offset, invariant): a tile that shares the loop's lower-bound VALUE adds it to its offset"""
    t = case["tiles"][j]
    a, off = t[0], t[1]
    inv = bool(t[2]) if len(t) > 2 else False
    share = bool(t[3]) if len(t) > 3 else False
    if share:
        off = case["lb"][0]
    return a, off, inv


# ------------------------------------------------------------------------------------------------ rendering
def opnd_name(o):
    return {"t": "%t", "b": "%b", "x": "%x"}[o[0]] + str(o[1])


def opnd_type(o):
    return T1 if o[0] == "t" else T


def render(case):
    L = []
    tiles = case["tiles"]
    bufs, exts = set(), set()
    for t in case["body"]:
        if t[0] == "op":
            for o in t[3] + t[4]:
                if o[0] == "b":
                    bufs.add(o[1])
                if o[0] == "x":
                    exts.add(o[1])
    for a in sorted({t[0] for t in tiles}):
        L.append(f"%A{a} = memref.alloc() : {BIG}")
    for b in sorted(bufs):
        L.append(f"%b{b} = memref.alloc() : {T}")
    for x in sorted(exts):
        L.append(f'%x{x} = "test.op"() : () -> {T}')
    for name in ("lb", "ub", "step"):
        v, const = case[name][0], case[name][1]
        if const:
            L.append(f"%{name} = arith.constant {v} : index")
        elif len(case[name]) > 2 and case[name][2]:
            # a computed run-time value
            L.append(f'%{name}p = "test.op"() {{dyn = {v - 1} : i64}} : () -> index')
            L.append(f'%{name}q = "test.op"() {{dyn = 1 : i64}} : () -> index')
            L.append(f"%{name} = arith.addi %{name}p, %{name}q : index")
        else:
            L.append(f'%{name} = "test.op"() {{dyn = {v} : i64}} : () -> index')
    extra = case.get("extra")

    def extra_loop():
        # another loop that shares the SSA value of the lower bound (and the step) with the pipelined loop
        return [f"%eub = arith.constant {case['lb'][0] + extra['n']} : index",
                f"%A90 = memref.alloc() : {BIG}", f'%x90 = "test.op"() : () -> {T}',
                "scf.for %k = %lb to %eub step %step {",
                f"  %u = memref.subview %A90[%k] [1] [1] : {BIG} to {T1}",
                f'  "memref.copy"(%u, %x90) {{tag = 1000 : i64}} : ({T1}, {T}) -> ()',
                '  "snax.cluster_sync_op"() : () -> ()', "}"]
    if extra and extra["where"] == "before":
        L += extra_loop()
    B = []
    j = 0
    nidx = 0
    for t in case["body"]:
        if t[0] == "idx":
            if j < len(tiles):
                a, off = tiles[j][0], tiles[j][1]
                if len(tiles[j]) > 4 and tiles[j][4]:
                    # richer index computations: a compare and a select among the index ops, the tile views
                    # A[i + (i == c ? x : y)]
                    c_, x_, y_ = tiles[j][4]
                    B.append(f"  %c{j} = arith.constant {c_} : index")
                    B.append(f"  %q{j} = arith.cmpi eq, %i, %c{j} : index")
                    B.append(f"  %ka{j} = arith.constant {x_} : index")
                    B.append(f"  %kb{j} = arith.constant {y_} : index")
                    B.append(f"  %s{j} = arith.select %q{j}, %ka{j}, %kb{j} : index")
                    B.append(f"  %o{j} = arith.addi %i, %s{j} : index")
                    B.append(f"  %t{j} = memref.subview %A{a}[%o{j}] [1] [1] : {BIG} to {T1}")
                elif len(tiles[j]) > 3 and tiles[j][3]:
                    # the index computation uses the SSA value that is also the loop's lower bound (a shared %c0)
                    if tiles[j][2]:
                        B.append(f"  %t{j} = memref.subview %A{a}[%lb] [1] [1] : {BIG} to {T1}")
                    else:
                        B.append(f"  %o{j} = arith.addi %i, %lb : index")
                        B.append(f"  %t{j} = memref.subview %A{a}[%o{j}] [1] [1] : {BIG} to {T1}")
                elif len(tiles[j]) > 2 and tiles[j][2]:
                    # a loop-invariant view computed inside the loop body
                    B.append(f"  %c{j} = arith.constant {off} : index")
                    B.append(f"  %t{j} = memref.subview %A{a}[%c{j}] [1] [1] : {BIG} to {T1}")
                elif off == 0:
                    B.append(f"  %t{j} = memref.subview %A{a}[%i] [1] [1] : {BIG} to {T1}")
                else:
                    B.append(f"  %c{j} = arith.constant {off} : index")
                    B.append(f"  %o{j} = arith.addi %i, %c{j} : index")
                    B.append(f"  %t{j} = memref.subview %A{a}[%o{j}] [1] [1] : {BIG} to {T1}")
                j += 1
            else:
                B.append(f"  %z{nidx} = arith.addi %i, %i : index")
                nidx += 1
        elif t[0] == "sync":
            B.append('  "snax.cluster_sync_op"() : () -> ()')
        elif t[0] == "op":
            _, tag, kind, ins, outs = t
            names = ", ".join(opnd_name(o) for o in ins + outs)
            types = ", ".join(opnd_type(o) for o in ins + outs)
            if kind == "copy":
                B.append(f'  "memref.copy"({names}) {{tag = {tag} : i64}} : ({types}) -> ()')
            elif kind == "dart":
                B.append(f'  "dart.operation"({names}) <{{patterns = [], operandSegmentSizes = array<i32: {len(ins)}, '
                         f'{len(outs)}>}}> ({{\n    dart.yield\n  }}) {{tag = {tag} : i64}} : ({types}) -> ()')
            else:
                n = len(ins) + len(outs)
                maps = ", ".join(["affine_map<(d0) -> (d0)>"] * n)
                args = ", ".join(f"%e{tag}_{q} : i8" for q in range(n))
                ylds = ", ".join(f"%e{tag}_0" for _ in outs)
                ytys = ", ".join("i8" for _ in outs)
                B.append(f'  "linalg.generic"({names}) <{{indexing_maps = [{maps}], iterator_types = [#linalg.iterator_type<parallel>], '
                         f'operandSegmentSizes = array<i32: {len(ins)}, {len(outs)}>}}> ({{\n  ^bb0({args}):\n    linalg.yield {ylds} : {ytys}\n  }}) '
                         f'{{tag = {tag} : i64}} : ({types}) -> ()')
    if case.get("nested"):
        B.append('  scf.for %j = %lb to %ub step %step {\n    "test.op"() : () -> ()\n  }')
    tail = ("\n".join(extra_loop()) + "\n") if extra and extra["where"] == "after" else ""
    return "\n".join(L) + "\nscf.for %i = %lb to %ub step %step {\n" + "\n".join(B) + "\n}\n" + tail


def shifted(case, m):
    """loop number m of a multi-loop module: array / buffer / external ids and tags moved to a range of its own"""
    def v(o):
        return [o[0], o[1] + (0 if o[0] == "t" else 100 * m)]
    body = [[t[0], t[1] + TAGS * m, t[2], [v(o) for o in t[3]], [v(o) for o in t[4]]] if t[0] == "op" else list(t)
            for t in case["body"]]
    return dict(case, body=body, tiles=[[t[0] + 100 * m] + list(t[1:]) for t in case["tiles"]])


_LOCAL = __import__("re").compile(r"%((?:lb|ub|step)[pq]?|i|j|k|u|eub|[tcozqs]\d+|k[ab]\d+|e\d+_\d+)\b")


def in_func(text, name):
    body = "\n".join("  " + l for l in text.rstrip("\n").split("\n"))
    return f"func.func @{name}() {{\n{body}\n  func.return\n}}\n"


def render_any(case):
    """MLIR of a case; kind 'multi': several generated loops one after the other in ONE module (with 'infunc': each loop
    in a function of its own, i.e. a second / third function of the module); kind 'nest': render_nest"""
    if case.get("kind") == "nest":
        return render_nest(case)
    if case.get("kind") != "multi":
        return in_func(render(case), "f0") if case.get("infunc") else render(case)
    texts = [_LOCAL.sub(lambda mo, m=m: f"%{mo.group(1)}_L{m}", render(sub)) for m, sub in enumerate(subcases(case))]
    if case.get("infunc"):
        texts = [in_func(t, f"f{m}") for m, t in enumerate(texts)]
    return "".join(texts)


def render_nest(case):
    """a perfect loop nest around the stages (the real flow: pipeline-canonicalize-for makes the steps 1 and merges the nest
    into one loop before construct-pipeline). case['nest'] = [[trip count, step, exact], ...] outermost first; the tiles view
    element (flat iteration number) + off of their arrays."""
    inner = render(dict(case, lb=[0, True], ub=[0, True], step=[1, True]))
    head, rest = inner.split("scf.for %i = %lb to %ub step %step {\n")
    body = rest[:rest.rindex("}")]
    head = "\n".join(l for l in head.split("\n") if not l.startswith(("%ub =", "%step =")))
    L = [head.rstrip("\n")]
    dims = case["nest"]
    # iteration VALUES of level d are 0, s, 2s, ...: spans multiply up to a flat index
    spans = [dm[0] * dm[1] + 1 for dm in dims]
    opens, flat = [], []
    for d, dim in enumerate(dims):
        n, s, exact = dim[0], dim[1], dim[2]
        special = dim[3] if len(dim) > 3 else None
        ubv = n * s if exact or n == 0 else n * s - (s - 1)   # same trip count, upper bound not a multiple of the step
        lbname = "%lb"
        if special == "lb1":
            # this level does not start at 0: MergeForLoops leaves it alone, the loops below it are pipelined inside it
            L.append(f"%lb{d} = arith.constant 1 : index")
            lbname, ubv = f"%lb{d}", ubv + 1
        if special == "dynub":
            L.append(f'%ub{d} = "test.op"() {{dyn = {ubv} : i64}} : () -> index')
        else:
            L.append(f"%ub{d} = arith.constant {ubv} : index")
        L.append(f"%st{d} = arith.constant {s} : index")
        iv = "%i" if d == len(dims) - 1 else f"%n{d}"
        opens.append("  " * d + f"scf.for {iv} = {lbname} to %ub{d} step %st{d} {{")
        w = 1
        for x in spans[d + 1:]:
            w *= x
        L.append(f"%w{d} = arith.constant {w} : index")
        flat.append((iv, f"%w{d}"))
    idx = ["  %f0 = arith.muli " + flat[0][0] + ", " + flat[0][1] + " : index"]
    for d in range(1, len(dims)):
        idx.append(f"  %g{d} = arith.muli {flat[d][0]}, {flat[d][1]} : index")
        idx.append(f"  %f{d} = arith.addi %f{d - 1}, %g{d} : index")
    last = f"%f{len(dims) - 1}"
    # the tiles of render() use %i as index: use the flat index instead
    body = _NESTI.sub(last, body)
    ind = "  " * (len(dims) - 1)
    text = "\n".join(L) + "\n" + "\n".join(opens) + "\n" + "\n".join(ind + l for l in idx) + "\n" + \
        "\n".join(ind + l for l in body.rstrip("\n").split("\n")) + "\n" + \
        "\n".join("  " * d + "}" for d in reversed(range(len(dims)))) + "\n"
    return text


_NESTI = __import__("re").compile(r"%i\b(?=[\],])")


def subcases(case):
    return [shifted(c, m) for m, c in enumerate(case["loops"])] if case.get("kind") == "multi" else [case]


# ------------------------------------------------------------------------------------------------ reading IR
class Unrecognised(Exception):
    pass


def _tag(op):
    return op.attributes["tag"].value.data


def _hint(v):
    return v.name_hint or ""


class Walker:
    """Evaluates index / memref values of the (un)rolled IR. symbolic=True: the loop variable is ('iv', c) meaning
    i - c and the loop's upper bound is ('ub', c); symbolic=False: plain integers (the oracle's machine)."""

    def __init__(self, module, symbolic, case, which=None):
        """which: None = the module holds one generated loop; m = read loop number m of a module with several loops
        (its induction variable is named i_L<m>, its ops carry tags in [TAGS*m, TAGS*(m+1)))"""
        from xdsl.dialects import scf
        self.symbolic = symbolic
        self.case = case
        self.which = which
        self.env = {}
        self.seen_alloc = {}
        self.epochs = [[]]
        self.neg = []
        self.owner = None      # loop of the last top-level event (a top-level barrier closes a slot of that loop)
        self.n_before = None   # number of closed top-level epochs when the loop is reached
        self.block = module.body.block
        self.for_op = None
        self.loop = None   # symbolic: (lb value, [epochs of the body])
        if symbolic:
            want = "i" if which is None else f"i_L{which}"
            blocks = [self.block] + [o.body.block for o in self.block.ops if o.name == "func.func"]
            fors = [o for b in blocks for o in b.ops if isinstance(o, scf.ForOp) and _hint(o.body.block.args[0]) == want]
            if len(fors) != 1:
                raise Unrecognised(f"{len(fors)} top-level loops")
            self.for_op = fors[0]

    def mine(self, tag):
        return self.which is None or tag // TAGS == self.which

    # index arithmetic over (base, offset): base in {None, 'iv', 'ub'}
    def _sub(self, a, b):
        if not self.symbolic:
            return a - b
        if b[0] is not None:
            raise Unrecognised("subtraction of a non-constant")
        return (a[0], a[1] - b[1])

    def _add(self, a, b):
        if not self.symbolic:
            return a + b
        if a[0] == "dyn" and b[0] == "dyn":
            return ("dyn", a[1] + b[1])
        if b[0] == "sel" and a[0] in (None, "iv", "ub"):
            return ("rich", a, b)
        if a[0] is not None and b[0] is not None:
            return ("opaque", 0)
        base = a[0] if a[0] is not None else b[0]
        return (base, a[1] + b[1])

    def run(self):
        try:
            self.walk(self.block, top=True)
        except KeyError as e:
            raise Unrecognised(f"a value is used before its definition ({type(e.args[0]).__name__} {getattr(e.args[0], 'name_hint', None)})")
        return self

    def walk(self, block, top=False):
        from xdsl.dialects import arith, linalg, memref, scf
        from snaxc.dialects import dart, snax
        env = self.env
        for op in block.ops:
            if isinstance(op, arith.ConstantOp):
                v = op.value.value.data
                env[op.result] = (None, v) if self.symbolic else v
            elif isinstance(op, arith.SubiOp):
                env[op.result] = self._sub(env[op.lhs], env[op.rhs])
            elif isinstance(op, arith.AddiOp):
                env[op.result] = self._add(env[op.lhs], env[op.rhs])
            elif isinstance(op, arith.MuliOp):
                if self.symbolic:
                    env[op.result] = ("opaque", 0)
                else:
                    env[op.result] = env[op.lhs] * env[op.rhs]
            elif isinstance(op, arith.DivUIOp):
                if self.symbolic:
                    env[op.result] = ("opaque", 0)
                else:
                    if env[op.lhs] < 0:
                        self.neg.append(env[op.lhs])
                    env[op.result] = env[op.lhs] // env[op.rhs]
            elif op.name == "func.func":
                self.walk(op.body.block, top=top)   # the loops of a case may sit in functions of the module
            elif op.name == "func.return":
                pass
            elif isinstance(op, arith.RemUIOp):
                x, m = env[op.lhs], env[op.rhs]
                if self.symbolic:
                    if m != (None, 2):
                        raise Unrecognised("remui by something else than 2")
                    env[op.result] = ("rem2", x)
                else:
                    if x < 0:
                        self.neg.append(x)
                    env[op.result] = x % m
            elif isinstance(op, arith.CmpiOp):
                a, b = env[op.lhs], env[op.rhs]
                if self.symbolic:
                    if op.predicate.value.data != 0:
                        raise Unrecognised("cmpi of an unexpected shape")
                    if a == (None, 0) and isinstance(b, tuple) and b[0] == "rem2":
                        env[op.result] = ("even", b[1])      # the parity test of PipelineDuplicateBuffers
                    elif a[0] in (None, "iv", "ub") and b[0] in (None, "iv", "ub"):
                        env[op.result] = ("eq", a, b)        # a compare among the loop's own index computations
                    else:
                        raise Unrecognised("cmpi of an unexpected shape")
                else:
                    if op.predicate.value.data != 0:
                        raise Unrecognised("cmpi predicate")
                    env[op.result] = int(a == b)
            elif isinstance(op, arith.SelectOp):
                c, a, b = env[op.cond], env[op.lhs], env[op.rhs]
                if self.symbolic:
                    if c[0] == "eq" and a[0] is None and b[0] is None:
                        # index select of the loop's own index computations: evaluated when the compare is between constants
                        if c[1][0] is None and c[2][0] is None:
                            env[op.result] = a if c[1][1] == c[2][1] else b
                        else:
                            env[op.result] = ("sel", c, a, b)
                        continue
                    if not (c[0] == "even" and a[0] == "buf" and b[0] == "buf" and a[1] == b[1] and a[2] == 0 and b[2] == 1):
                        raise Unrecognised("select of an unexpected shape (a buffer selected by something else than the parity "
                                           "of the iteration)")
                    env[op.result] = ("dup", a[1], c[1])
                else:
                    env[op.result] = a if c else b
            elif isinstance(op, memref.AllocOp):
                h = _hint(op.memref)
                if h.startswith("A"):
                    env[op.memref] = ("arr", int(h[1:]))
                elif h.startswith("b"):
                    b = int(h[1:].split("_")[0])
                    copy = self.seen_alloc.get(b, 0)
                    self.seen_alloc[b] = copy + 1
                    env[op.memref] = ("buf", b, copy)
                else:
                    raise Unrecognised("alloc without a known name")
            elif op.name == "test.op":
                if len(op.results) == 1:
                    h = _hint(op.results[0])
                    if h.startswith("x"):
                        env[op.results[0]] = ("ext", int(h[1:]))
                    elif "dyn" in op.attributes:
                        v = op.attributes["dyn"].value.data
                        env[op.results[0]] = ("dyn", v) if self.symbolic else v
                    else:
                        raise Unrecognised("unknown test.op")
            elif isinstance(op, memref.SubviewOp):
                base = env[op.source]
                idx = env[op.offsets[0]]
                env[op.result] = ("tile", base[1], idx)
            elif isinstance(op, (memref.CopyOp, dart.OperationOp, linalg.GenericOp)):
                if isinstance(op, memref.CopyOp):
                    ins, outs = [env[op.source]], [env[op.destination]]
                    kind = "copy"
                else:
                    ins, outs = [env[v] for v in op.inputs], [env[v] for v in op.outputs]
                    kind = "op"
                if self.symbolic and not self.mine(_tag(op)):
                    if top:
                        self.owner = False
                    continue
                if top:
                    self.owner = True
                self.epochs[-1].append((_tag(op), kind, ins, outs))
            elif isinstance(op, snax.ClusterSyncOp):
                if self.symbolic and top and self.owner is False:
                    continue   # closes a slot of another loop of the module
                self.epochs.append([])
            elif isinstance(op, scf.ForOp):
                if op is not self.for_op and self.symbolic:
                    continue  # the nested marker loop / the extra loop of the generator: not part of the slot structure
                iv = op.body.block.args[0]
                if self.symbolic:
                    outer = self.epochs
                    self.n_before = len(outer) - 1
                    self.epochs = [[]]
                    env[iv] = ("iv", 0)
                    self.walk(op.body.block)
                    self.loop = (env[op.lb], env[op.step], self.epochs)
                    self.owner = None
                    self.epochs = outer
                else:
                    lb, ub, step = env[op.lb], env[op.ub], env[op.step]
                    if step <= 0:
                        raise Unrecognised("non-positive step")
                    i = lb
                    while i < ub:
                        env[iv] = i
                        self.walk(op.body.block)
                        i += step
            elif isinstance(op, scf.YieldOp):
                pass
            else:
                raise Unrecognised(f"unexpected op {op.name}")


def _expr(x, ub_val):
    """index value of the symbolic walk -> ["c", n] | ["iv", c] | ["ub", c]"""
    if x[0] is None:
        return ["c", x[1]]
    if x[0] == "iv":
        return ["iv", -x[1]]
    if x[0] == "ub":
        return ["ub", -x[1]]
    raise Unrecognised(f"index expression {x}")


class _SymWalker(Walker):
    """symbolic walk; the SSA value used as the loop's upper bound evaluates to ('ub', 0)"""

    def __init__(self, mod, case, which=None):
        super().__init__(mod, True, case, which)
        ub = self.for_op.ub

        class _Env(dict):
            def __setitem__(s, k, v):
                dict.__setitem__(s, k, ("ub", 0) if k is ub else v)
        self.env = _Env()

    def result(self):
        self.run()
        if self.loop is None:
            raise Unrecognised("no loop")
        return {"top": self.epochs, "loop": self.loop, "n_before": self.n_before}


def _opnd_json(v):
    if v[0] == "tile":
        idx = v[2]
        # idx = base expression + offset of the tile; reported as (array, absolute expression)
        return ["tile", v[1], list(idx) if idx[0] is not None else [None, idx[1]]]
    if v[0] == "buf":
        return ["alloc", v[1]] if v[2] == 0 else ["clone", v[1]]
    if v[0] == "ext":
        return ["ext", v[1]]
    if v[0] == "dup":
        return ["dup", v[1], list(v[2])]
    raise Unrecognised(f"operand {v}")


def _slot_json(events):
    return [[tag, [_opnd_json(v) for v in ins], [_opnd_json(v) for v in outs]] for tag, _k, ins, outs in events]


def structure_of(case, mod, which=None):
    """canonical JSON of the real IR's slot structure; index expressions are [base, offset] with base in
    {None (constant), 'iv', 'ub'}: value = base + offset. which = m: loop number m of a module with several loops."""
    w = _SymWalker(mod, case, which)
    r = w.result()
    lbv, stepv, body = r["loop"]
    n_before = r["n_before"]   # closed top-level epochs (of this loop) in front of the loop = prologue slots
    top = r["top"]
    pro, epi = top[:n_before], top[n_before:]
    if epi[-1]:
        return {"unclosed_top": True}
    if body[-1]:
        return {"unclosed_body": True, "prologue": len(pro)}
    return {"prologue": [_slot_json(e) for e in pro], "lb": list(lbv), "step": list(stepv),
            "body": [_slot_json(e) for e in body[:-1]], "epilogue": [_slot_json(e) for e in epi[:-1]]}


# ------------------------------------------------------------------------------------------------ the model's view
def _mexpr(e, off=0):
    k, c = e
    if k == "c":
        return [None, c + off]
    return [k, -c + off]


def rich_map(case):
    """array id -> (c, x, y) for the tiles that view A[i + (i == c ? x : y)] (each on an array of its own)"""
    return {t[0]: tuple(t[4]) for t in case["tiles"] if len(t) > 4 and t[4]}


def rich_desc(e, cxy):
    """index expression of such a tile on iteration expression e = [base, offset], in the vocabulary of the IR reader"""
    c, x, y = cxy
    if e[0] is None:
        return [None, e[1] + (x if e[1] == c else y)]
    return ["rich", e, ["sel", ["eq", e, [None, c]], [None, x], [None, y]]]


def _mopnd(v, rich=None):
    if v[0] == "tile" and rich and v[1] in rich:
        return ["tile", v[1], rich_desc(_mexpr(v[4]), rich[v[1]])]
    if v[0] == "tile":
        return ["tile", v[1], [None, v[2]] if v[3] else _mexpr(v[4], v[2])]
    if v[0] == "dup":
        return ["dup", v[1], _mexpr(v[2])]
    return [v[0], v[1]]


def _mslot(s, rich=None):
    return [[tag, [_mopnd(v, rich) for v in ins], [_mopnd(v, rich) for v in outs]] for tag, ins, outs in s]


def original_structure(case):
    """what an untouched loop looks like in the vocabulary of structure_of (used for 'declined')"""
    tiles = case["tiles"]
    body, cur = [], []

    def o(v):
        if v[0] == "t":
            a, off, inv = tile_entry(case, v[1])
            if a in rich_map(case):
                return ["tile", a, rich_desc(["iv", 0], rich_map(case)[a])]
            return ["tile", a, [None, off] if inv else ["iv", off]]
        return [{"b": "alloc", "x": "ext"}[v[0]], v[1]]
    for t in case["body"]:
        if t[0] == "op":
            cur.append([t[1], [o(v) for v in t[3]], [o(v) for v in t[4]]])
        elif t[0] == "sync":
            body.append(cur)
            cur = []
    if cur:
        return {"unclosed_body": True, "prologue": 0}

    def b(name):
        v, const = case[name][0], case[name][1]
        return [None, v] if const else ["dyn", v]
    return {"prologue": [], "lb": b("lb"), "step": b("step"), "body": body, "epilogue": []}


# ------------------------------------------------------------------------------------------------ the oracle's machine
def loc_of(v, neg):
    if v[0] == "tile":
        if v[2] < 0:
            neg.append(v[2])
        return ("cell", v[1], v[2])
    return v  # ("buf", b, copy) | ("ext", k)


def machine_epochs(mod, case):
    w = Walker(mod, False, case).run()
    neg = list(w.neg)
    eps = []
    for e in w.epochs:
        eps.append([(tag, "dm" if kind == "copy" else "cp", [loc_of(v, neg) for v in ins], [loc_of(v, neg) for v in outs])
                    for tag, kind, ins, outs in e])
    return eps, neg


def simulate(epochs, first_core):
    """per epoch: all events of `first_core` (program order), then the other core's: one extreme interleaving"""
    mem = {}

    def rd(loc):
        return mem.get(loc, ("init", loc))
    for e in epochs:
        order = [x for x in e if x[1] == first_core] + [x for x in e if x[1] != first_core] if first_core else e
        for tag, _core, ins, outs in order:
            args = tuple(rd(loc) for loc in ins)
            for q, loc in enumerate(outs):
                mem[loc] = (tag, q, args)
    return mem


def races(epochs, ww=True):
    """pairs of events on different cores inside one epoch with a read/write (and, with ww, write/write) conflict"""
    r = []
    for ei, e in enumerate(epochs):
        for a, b in itertools.combinations(e, 2):
            if a[1] == b[1]:
                continue
            if set(a[3]) & set(b[2]) or set(b[3]) & set(a[2]) or (ww and set(a[3]) & set(b[3])):
                r.append((ei, a[0], b[0]))
    return r


def has_trailing(case):
    """clause NoTrailing violated: behind the index section the body is not exactly (op+ sync)* up to the yield,
    yet at least two complete stages precede the first irregular token (so that the pass fires)"""
    toks = [t[0] for t in case["body"]]
    i = 0
    while i < len(toks) and toks[i] == "idx":
        i += 1
    stages = 0
    while i < len(toks):
        if toks[i] != "op":
            break
        while i < len(toks) and toks[i] == "op":
            i += 1
        if i < len(toks) and toks[i] == "sync":
            stages += 1
            i += 1
        else:
            return False if i >= len(toks) else stages >= 2
    return i < len(toks) and stages >= 2


def tiles_misaligned(case):
    """clause TilesAligned violated: two views of one array that are not the same loop-variant element"""
    ts = [tile_entry(case, j) for j in range(len(case["tiles"]))] if "lb" in case else [
        (t[0], t[1], bool(t[2]) if len(t) > 2 else False) for t in case["tiles"]]
    return any(a == a2 and (o != o2 or i or i2) for (a, o, i), (a2, o2, i2) in itertools.combinations(ts, 2))


# ------------------------------------------------------------------------------------------------ generator
def chain_case(rng, S, N, lb=0, step=1, dyn=(), alias=False, noise=True):
    """a loop of the recognised shape: S stages connected by intermediate buffers, tiles in and out"""
    ntiles = rng.choice([2, 2, 3, 4])
    if alias:
        tiles = [[0, rng.choice([0, 1, 2])] for _ in range(ntiles)]
        if not tiles_misaligned({"tiles": tiles}):
            tiles[-1][1] = tiles[0][1] + 1
    else:
        tiles = [[a, rng.choice([0, 0, 0, 1, 3])] for a in range(ntiles)]
    body = [["idx"] for _ in range(ntiles)]
    if noise and rng.random() < 0.3:
        body.append(["idx"])
    tag = itertools.count()
    nbuf = itertools.count()
    inter = [next(nbuf) for _ in range(S - 1)]
    ro = [next(nbuf) for _ in range(2)]
    wo = [next(nbuf) for _ in range(2)]
    in_tiles = list(range(0, max(1, ntiles - 1)))
    out_tiles = [ntiles - 1]
    for k in range(S):
        ops = []
        src = ["t", rng.choice(in_tiles)] if k == 0 else ["b", inter[k - 1]]
        dst = ["t", out_tiles[0]] if k == S - 1 else ["b", inter[k]]
        kind = rng.choice(["copy", "op"]) if k in (0, S - 1) else rng.choice(["op", "op", "copy"])
        ins, outs = [src], [dst]
        if kind == "op" and noise:
            used = {tuple(src), tuple(dst)}
            for _ in range(rng.choice([0, 0, 1, 2])):
                c = rng.choice([["t", rng.choice(in_tiles)], ["b", rng.choice(ro)], ["x", 0]])
                if tuple(c) not in used:
                    used.add(tuple(c))
                    ins.append(c)
            if rng.random() < 0.2:
                c = ["b", rng.choice(wo)] if rng.random() < 0.7 else ["x", 1]
                if tuple(c) not in used:
                    outs.append(c)
        if kind == "op" and k > 0 and rng.random() < 0.3:
            kind = "dart"
        ops.append(["op", next(tag), kind, ins, outs])
        if noise and rng.random() < 0.2:
            # a second op of the same kind in the stage, on other operands
            c_in = rng.choice([["t", rng.choice(in_tiles)], ["b", ro[0]], ["x", 0]])
            c_out = rng.choice([["b", wo[1]], ["x", 2]])
            flat = {tuple(v) for v in ins + outs}
            if tuple(c_in) not in flat and tuple(c_out) not in flat:
                ops.append(["op", next(tag), "op" if kind == "dart" else kind, [c_in], [c_out]])
        body += ops + [["sync"]]

    def bnd(name, v):
        return [v, name not in dyn]
    return {"kind": "chain", "lb": bnd("lb", lb), "ub": bnd("ub", N), "step": bnd("step", step), "nested": False,
            "tiles": tiles, "body": body}


def view_case(rng, S, N):
    """one stage-to-stage buffer is not an allocation but a view computed by an index op inside the loop body
    (loop-invariant `A[off]` or loop-variant `A[i + off]`, on an array of its own). PipelineDuplicateBuffers cannot double
    buffer a view: refusing the loop (NotImplementedError) is fine, pipelining it on the single view is not."""
    c = chain_case(rng, S, N, noise=rng.random() < 0.5)
    inter = sorted({v[1] for t in c["body"] if t[0] == "op" for v in t[4] if v[0] == "b"}
                   & {v[1] for t in c["body"] if t[0] == "op" for v in t[3] if v[0] == "b"})
    if not inter:
        return c
    b = rng.choice(inter)
    j = len(c["tiles"])
    c["tiles"] = c["tiles"] + [[20 + j, rng.choice([0, 0, 1, 5]), rng.random() < 0.7]]
    body = [["idx"]]
    for t in c["body"]:
        if t[0] == "op":
            t = [t[0], t[1], t[2], [["t", j] if v == ["b", b] else v for v in t[3]], [["t", j] if v == ["b", b] else v for v in t[4]]]
        body.append(t)
    return dict(c, body=body, kind="view")


def share_case(rng, S, N):
    """the SSA value used as lower bound (a shared `%c0`) has other users: index computations of the tiles inside the loop
    body, and / or the bounds of another loop before or after the pipelined one"""
    c = chain_case(rng, S, N, lb=rng.choice([0, 0, 0, 0, 1]), noise=rng.random() < 0.5)
    c["ub"][0] += c["lb"][0]
    used = sorted({v[1] for t in c["body"] if t[0] == "op" for v in t[3] + t[4] if v[0] == "t"})
    how = rng.choice(["tiles", "tiles", "loop", "both"])
    if how in ("tiles", "both"):
        for j in rng.sample(used, rng.choice([1, 1, len(used)])):
            t = c["tiles"][j]
            c["tiles"][j] = [t[0], t[1], rng.random() < 0.25 and not any(
                v == ["t", j] for tk in c["body"] if tk[0] == "op" for v in tk[4]), True]
    if how in ("loop", "both"):
        c["extra"] = {"where": rng.choice(["before", "after"]), "n": rng.choice([1, 3, 4])}
    return dict(c, kind="sharelb")


def dyn_cases(rng, per_combo):
    """lb / ub / step as run-time values (opaque op result, or computed from two of them) in every combination, with
    several run-time values including empty ranges"""
    for dyn in itertools.chain.from_iterable(itertools.combinations(("lb", "ub", "step"), k) for k in range(0, 4)):
        for _ in range(per_combo):
            S = rng.choice([2, 2, 3, 4])
            lb = rng.choice([0, 1, 2, 3, 6, 9]) if "lb" in dyn else rng.choice([0, 0, 0, 2])
            step = rng.choice([1, 1, 1, 2]) if "step" in dyn else rng.choice([1, 1, 1, 3])
            ub = rng.choice([0, 3, 5, 6, 8])
            c = chain_case(rng, S, ub, lb=lb, step=step, dyn=dyn, noise=rng.random() < 0.4)
            for name in dyn:
                c[name] = c[name] + [rng.random() < 0.4]
            if rng.random() < 0.2:
                c["extra"] = {"where": rng.choice(["before", "after"]), "n": 2}
            yield dict(c, kind="dynbounds")


def multi_case(rng):
    """several loops in ONE module (the pass objects and their pattern objects are created once per module and applied to one
    loop after the other): pipelinable loops, sometimes with a loop the passes decline in front or in between"""
    loops = []
    for _ in range(rng.choice([2, 2, 3])):
        S = rng.choice([2, 3, 3, 4])
        if rng.random() < 0.2:
            c = chain_case(rng, S, rng.choice([0, 1, 5]), lb=rng.choice([1, 0]), noise=False)   # mostly declined
            c["ub"][0] += c["lb"][0]
        else:
            # mostly long enough for the steady-state loop to run at least twice
            c = chain_case(rng, S, rng.randrange(S + 1, 9) if rng.random() < 0.85 else rng.randrange(S - 1, 8), noise=rng.random() < 0.3)
        loops.append(c)
    return {"kind": "multi", "loops": loops, "infunc": rng.random() < 0.5}


def nest_case(rng):
    """a perfect nest of 1..3 constant loops (steps 1..3, upper bounds not always multiples of the step, trip counts that
    differ between the levels) around the stages: the real flow merges it with pipeline-canonicalize-for, then pipelines"""
    depth = rng.choice([1, 2, 2, 2, 3])
    while True:
        dims = [[rng.choice([0, 1, 2, 2, 3, 3, 4, 5]), rng.choice([1, 1, 2, 3]), rng.random() < 0.6] for _ in range(depth)]
        if depth > 1 and rng.random() < 0.3:
            d = rng.randrange(0, depth - 1)
            dims[d] = [max(dims[d][0], 1), dims[d][1], True, rng.choice(["dynub", "lb1"])]
        span = 1
        for dm in dims:
            span *= dm[0] * dm[1] + 1
        if span <= 200:
            break
    c = chain_case(rng, rng.choice([2, 3, 3, 4]), 0, noise=rng.random() < 0.3)
    c["tiles"] = [[t[0], t[1]] for t in c["tiles"]]
    return dict(c, kind="nest", nest=dims)


def rich_case(rng, S, N):
    """richer index computations in the loop body: compares and selects among the index ops (several derived indices); one or
    two of the used tiles view A[i + (i == c ? x : y)] of an array of their own"""
    c = chain_case(rng, S, N, noise=rng.random() < 0.4)
    used = sorted({v[1] for t in c["body"] if t[0] == "op" for v in t[3] + t[4] if v[0] == "t"})
    for j in rng.sample(used, min(len(used), rng.choice([1, 1, 2]))):
        y = rng.choice([0, 0, 1, 3])
        c["tiles"][j] = [40 + j, 0, False, False, [rng.choice([0, 0, 1, 2, max(N - 1, 0)]), y + rng.choice([100, 100, 50, 0]), y]]
    return dict(c, kind="richidx")


def skip_case(rng, S, N):
    """an intermediate buffer produced in stage j and consumed ONLY in stage j+2 (stage j+1 does not touch it): two copies do
    not suffice for that distance; refusing the loop (NotImplementedError) is fine"""
    c = chain_case(rng, S, N, noise=False)
    ops = [t for t in c["body"] if t[0] == "op"]
    j = rng.randrange(0, S - 2)
    b = ops[j][4][0]
    assert b[0] == "b" and ops[j + 1][3][0] == b
    ops[j + 1][3][0] = ["t", 0]
    if ops[j + 2][2] == "copy":
        ops[j + 2][2] = "op"
    ops[j + 2][3].append(list(b))
    return dict(c, kind="skipstage")


def mutate_shape(rng, case):
    """irregular shapes and buffer assignments (mostly declined or rejected by the passes)"""
    c = dict(case, body=[list(t) if t[0] != "op" else [t[0], t[1], t[2], [list(v) for v in t[3]], [list(v) for v in t[4]]]
                         for t in case["body"]])
    body = c["body"]
    ops = [i for i, t in enumerate(body) if t[0] == "op"]
    syncs = [i for i, t in enumerate(body) if t[0] == "sync"]
    m = rng.choice(["nofinal", "doublesync", "mididx", "trailop", "empty", "onlyidx", "nested", "skip", "rw", "extrw",
                    "dupin", "dupout", "midsync0", "twowriters", "backward"])
    c["kind"] = "irregular:" + m
    if m == "nofinal":
        del body[syncs[-1]]
    elif m == "doublesync":
        body.insert(rng.choice(syncs), ["sync"])
    elif m == "mididx":
        body.insert(rng.choice(syncs) + 1, ["idx"])
    elif m == "trailop":
        t0 = ["t", 0]
        body += [["op", 90, "copy", [t0], [["b", 40]]], ["sync"]] if rng.random() < 0.5 else [["idx"], ["op", 90, "copy", [t0], [["t", len(c["tiles"]) - 1]]], ["sync"]]
        if body[-3][0] != "idx":
            body.insert(len(body) - 2, ["sync"])   # double barrier, then an extra stage
    elif m == "empty":
        c["body"] = []
        c["tiles"] = []
    elif m == "onlyidx":
        c["body"] = [t for t in body if t[0] == "idx"]
    elif m == "nested":
        c["nested"] = True
    elif m == "skip" and len(syncs) >= 3:
        # the last stage also reads the first intermediate buffer
        first_out = body[ops[0]][4][0]
        if first_out[0] == "b" and body[ops[-1]][2] != "copy":
            body[ops[-1]][3].append(list(first_out))
    elif m == "rw":
        o = body[rng.choice(ops)]
        if o[2] != "copy" and o[4][0][0] == "b":
            o[3].append(list(o[4][0]))
    elif m == "extrw":
        # the first intermediate buffer is not an allocation
        b = body[ops[0]][4][0]
        if b[0] == "b":
            for i in ops:
                for lst in (body[i][3], body[i][4]):
                    for v in lst:
                        if v == b:
                            v[0], v[1] = "x", 7
    elif m == "dupin":
        o = body[rng.choice(ops)]
        if o[2] != "copy":
            o[3].append(list(o[3][0]))
    elif m == "dupout":
        o = body[rng.choice(ops)]
        if o[2] != "copy":
            o[4].append(list(o[4][0]))
    elif m == "midsync0":
        body.insert(ops[0], ["sync"])
    elif m == "twowriters":
        for i in (ops[0], ops[-1]):
            if body[i][2] != "copy":
                body[i][4].append(["b", 50])
    elif m == "backward":
        # an early stage reads what a later stage writes (loop-carried dependency through a buffer)
        if body[ops[0]][2] != "copy" and body[ops[-1]][2] != "copy":
            body[ops[0]][3].append(["b", 51])
            body[ops[-1]][4].append(["b", 51])
    return c


class C15(Prop):
    id = "C15"
    PARALLEL = True
    CASE_TIMEOUT = 60
    exhaustive_quick = True     # named space: plain chains, S in {2,3,4} x N in 0..8 (27 loops), enumerated in both tiers
    exhaustive_thorough = True
    trusted_base = [
        "modelled: ConstructPipeline (with F16), PipelineDuplicateBuffers, UnrollPipeline as functions on an abstract loop "
        "(token list + tagged operands); the op-by-op IR rewriting (block arguments, clones, DestructIndex/DestructStage) is "
        "not modelled: its RESULT is read back from the unrolled IR and compared with the model's slot structure",
        "harness/props/c15.py render/extract (abstract loop <-> MLIR) and the two-core symbolic machine of the oracle",
        "hardware assumption: events between two barriers run in any interleaving of the data-mover and compute program orders",
    ]
    assumptions = [
        "stage ops read exactly their inputs and overwrite exactly their outputs (copy: destination := source; "
        "kernel: outputs := f(inputs)); distinct allocations / arrays / external buffers do not alias",
        "index ops are pure functions of the loop index (here: subviews A[i + off], loop-invariant subviews A[off], and subviews "
        "A[i + (i == c ? x : y)] computed with arith.cmpi / arith.select among the index ops)",
        "the input loop itself is race-free between barriers (otherwise 'the sequential loop' has no single meaning)",
    ]
    rule = ("modules with 1..3 loops; loops with 1..5 stages of copies/kernels, trip counts 0..8, lb/step/ub constant or run-time values (opaque or computed, every "
            "combination, empty ranges), the lb SSA value shared with tile index computations and with another loop before/after, 2..4 tiles, shared read-only / "
            "write-only / external buffers, multi-op stages, plus irregular shapes; non-trivial = the real passes pipelined the loop")

    def cases(self, rng, tier):
        # exhaustive small space first: S in 2..4, N in 0..8, plain chains
        for S in (2, 3, 4):
            for N in range(0, 9):
                yield chain_case(random.Random(S * 100 + N), S, N, noise=False)
        yield from dyn_cases(random.Random(rng.getrandbits(48)), 4 if tier == "quick" else 40)
        r0 = random.Random(rng.getrandbits(48))
        for _ in range(5 if tier == "quick" else 60):
            yield multi_case(r0)
        for _ in range(12 if tier == "quick" else 150):
            yield nest_case(r0)
        for _ in range(10 if tier == "quick" else 120):
            S2 = r0.choice([2, 2, 3, 4])
            yield rich_case(r0, S2, r0.randrange(3, 9) if r0.random() < 0.85 else r0.randrange(0, 9))
        for _ in range(4 if tier == "quick" else 40):
            S3 = r0.choice([3, 3, 4, 5])
            yield skip_case(r0, S3, r0.randrange(S3 + 1, 9))
        n = 230 if tier == "quick" else 6000
        for _ in range(n):
            r = random.Random(rng.getrandbits(48))
            S = r.choice([2, 2, 3, 3, 3, 4, 4, 1, 5])
            N = r.randrange(0, 9)
            u = r.random()
            if u < 0.48:
                c = chain_case(r, S, N)
                yield dict(c, infunc=True) if r.random() < 0.15 else c
            elif u < 0.52:
                yield multi_case(r)
            elif u < 0.55:
                S3 = r.choice([3, 3, 4, 5])
                yield skip_case(r, S3, max(N, S3 + 1) if r.random() < 0.8 else N)
            elif u < 0.63:
                yield view_case(r, max(S, 2), max(N, 2) if r.random() < 0.8 else N)
            elif u < 0.70:
                yield share_case(r, max(S, 2), max(N, S) if r.random() < 0.8 else N)
            elif u < 0.76:
                lb = r.choice([0, 1, 2, 4])
                step = r.choice([1, 1, 2, 3])
                dyn = r.choice([(), ("ub",), ("lb",), ("step",), ("lb", "ub", "step")])
                yield dict(chain_case(r, S, lb + N * step, lb=lb, step=step, dyn=dyn), kind="bounds")
            elif u < 0.81:
                yield dict(chain_case(r, max(S, 2), N, alias=True), kind="alias")
            else:
                yield mutate_shape(r, chain_case(r, max(S, 2), N))

    # -- real code ------------------------------------------------------------------------------
    def impl(self, case):
        src = render_any(case)
        try:
            snaxrun.parse(src).verify()
        except Exception as e:
            return {"invalid_input": type(e).__name__}
        out = run_real(src, passes_of(case))
        if case.get("kind") == "nest":
            # the merged loop's index arithmetic (div / rem / mul) is outside the slot vocabulary: only the decision is
            # compared with the model (of the merged loop: lb 0, step 1, ub = product of the trip counts); the oracle runs
            # the nest and the pipelined result
            n_in = sum(1 for t in case["body"] if t[0] == "op")
            n_out = sum(1 for o in out.walk() if "tag" in o.attributes)
            return {"nest": "pipelined" if n_out > n_in else "declined"}   # pipelined: the stage ops were cloned
        if case.get("kind") == "multi":
            return {"multi": [self.impl_one(sub, out, m) for m, sub in enumerate(subcases(case))]}
        return self.impl_one(case, out, None)

    def impl_one(self, case, out, which):
        from xdsl.dialects import scf
        if not any(t[0] == "op" for t in case["body"]) and not any(isinstance(o, scf.ForOp) for o in out.walk()):
            return {"declined": True}   # a loop without effects is erased as dead code
        try:
            st = structure_of(case, out, which)
        except Unrecognised as e:
            return {"unrecognised": str(e)}
        # compare as canonical JSON: the reader's nested index expressions are tuples, the expected ones lists
        if canon_json(st) == canon_json(original_structure(case)):
            return {"declined": True}
        return {"pipelined": st}

    # -- model ----------------------------------------------------------------------------------
    def requests(self, case):
        if case.get("kind") == "nest":
            # the loop ConstructPipeline sees: the innermost loop merged with all levels below the last level that
            # MergeForLoops must leave alone (run-time bound, lower bound 1)
            n = 1
            for dim in case["nest"]:
                n = 1 if len(dim) > 3 and dim[3] else n * dim[0]
            return [self.request_one(dict(case, lb=[0, True], step=[1, True], ub=[n, True]))]
        if case.get("kind") == "multi":
            return [{"fn": "c15.runModule", "args": {"loops": [self.request_one(sub)["args"] for sub in subcases(case)]}}]
        return [self.request_one(case)]

    def request_one(self, case):
        def v(name):
            return case[name][0] if case[name][1] else None
        body = []
        for t in case["body"]:
            body.append(["op", t[1], t[3], t[4]] if t[0] == "op" else [t[0]])
        return {"fn": "c15.run", "args": {"lb": v("lb"), "ub": v("ub"), "step": v("step"), "nested": bool(case.get("nested")),
                                          "body": body, "tiles": [list(tile_entry(case, j)) for j in range(len(case["tiles"]))]}}

    def model(self, case, answers):
        try:
            snaxrun.parse(render_any(case)).verify()
        except Exception as e:
            return {"invalid_input": type(e).__name__}
        if case.get("kind") == "nest":
            a = answers[0]
            if "err" in a:
                return {"model_error": a["err"]}
            r = a["ok"]
            return r if "raised" in r else {"nest": "pipelined" if "pipelined" in r else "declined"}
        if case.get("kind") == "multi":
            # the pattern objects of the passes are applied to one loop after the other: each loop is transformed as if
            # it were alone in the module; an exception for one loop is an exception of the run
            # (Lean: runModule; runModule_get proves that every loop of a module is transformed as if it were alone)
            a = answers[0]
            if "err" in a:
                return {"model_error": a["err"]}
            if isinstance(a["ok"], dict):
                return a["ok"]   # raised
            outs = [self.model_one(sub, {"ok": o}) for sub, o in zip(subcases(case), a["ok"])]
            for o in outs:
                if "model_error" in o:
                    return o
            return {"multi": outs}
        return self.model_one(case, answers[0])

    def model_one(self, case, a):
        # upstream quirk outside the Lean model (which does not know op kinds): a dart streaming region without accelerator as
        # FIRST dispatchable op of an accepted loop trips `assert op.accelerator` in dispatch_to_compute (is_index_op scan).
        # The generator never produces it (dart only behind the first stage op); shrinking can.
        first = next((t for t in case["body"] if t[0] != "idx"), None)
        if (first is not None and first[0] == "op" and first[2] == "dart" and not case.get("nested")
                and case["lb"][:2] == [0, True] and case["step"][:2] == [1, True] and case["ub"][1]):
            return {"raised": "AssertionError"}
        if "err" in a:
            return {"model_error": a["err"]}
        r = a["ok"]
        if "pipelined" not in r:
            return r
        p = r["pipelined"]
        wf = p["wf"]
        # these are theorems now (duplicate_establishes_side_conditions); re-evaluated per case as a cheap sanity check of the
        # driver's decoding: dupWF always, safeB whenever the input clauses hold
        if (not (wf["dupAdjacent"] and wf["sharedOneSided"] and wf["dupWF"]) or (wf["inputOK"] and not wf["safe"])
                or (wf["oneWriterStage"] and wf["tilesAligned"] and not wf["safe"])):
            return {"model_error": "the model's output violates the side conditions its theorems take as established by the pass",
                    "wf": p["wf"]}
        rich = rich_map(case)
        body = [_mslot(p["body"], rich)]
        # trailing tokens stay in the loop behind the pipeline's barrier
        cur = []
        tiles = case["tiles"]
        optab = {t[1]: t for t in case["body"] if t[0] == "op"}

        def o(v):
            if v[0] == "t":
                a_, off, inv = tile_entry(case, v[1])
                if a_ in rich:
                    return ["tile", a_, rich_desc(["iv", 0], rich[a_])]
                return ["tile", a_, [None, off] if inv else ["iv", off]]
            return [{"b": "alloc", "x": "ext"}[v[0]], v[1]]
        for t in p["trailing"]:
            if t == "sync":
                body.append(cur)
                cur = []
            elif t != "idx":
                op = optab[t]
                cur.append([t, [o(x) for x in op[3]], [o(x) for x in op[4]]])
        if cur:
            return {"pipelined": {"unclosed_body": True, "prologue": len(p["prologue"])}}
        return {"pipelined": {"prologue": [_mslot(s, rich) for s in p["prologue"]], "lb": [None, p["lb"]], "step": [None, 1],
                              "body": body, "epilogue": [_mslot(s, rich) for s in p["epilogue"]]}}

    def compare(self, case, impl_out, model_out):
        i = dict(impl_out) if isinstance(impl_out, dict) else impl_out
        m = model_out
        if isinstance(i, dict) and "raised" in i:
            i = {"raised": i["raised"]}
            if isinstance(m, dict) and m.get("raised") == "*":
                return None
        if canon_json(i) == canon_json(m):
            return None
        return "slot structure of the unrolled IR differs from the model's"

    # -- the property on the real code ------------------------------------------------------------
    def oracle(self, case, impl_out):
        if "invalid_input" in impl_out or "raised" in impl_out:
            return []  # the passes refuse the loop: nothing was transformed
        subs = subcases(case)
        if not any(t[0] == "op" for sub in subs for t in sub["body"]):
            return []
        src = render_any(case)
        try:
            e_in, neg_in = machine_epochs(snaxrun.parse(src), case)
        except Unrecognised:
            return []
        if races(e_in) or neg_in:
            return []  # the input is outside the quantifier (racy between its own barriers)
        out = run_real(src, passes_of(case))
        try:
            e_out, neg_out = machine_epochs(out, case)
        except Unrecognised as e:
            return [{"what": f"unrolled IR is not executable on the abstract machine: {e}", "finding": None}]
        ref = simulate(e_in, None)
        problems = []
        if neg_out:
            problems.append(f"negative loop index {neg_out[0]} is evaluated (tile / parity of an iteration before the first)")
        touched_in = {l for e in e_in for ev in e for l in ev[2] + ev[3] if l[0] == "cell"}
        touched_out = {l for e in e_out for ev in e for l in ev[2] + ev[3] if l[0] == "cell"}
        extra = sorted(touched_out - touched_in)
        if extra:
            problems.append(f"tile {extra[0]} outside the original iteration range is touched")
        rc = races(e_out, ww=False)   # write/write orders are covered by the two extreme interleavings below
        if rc:
            problems.append(f"ops {rc[0][1]} and {rc[0][2]} conflict inside one barrier epoch (epoch {rc[0][0]})")
        n_in = sorted(ev[0] for e in e_in for ev in e)
        n_out = sorted(ev[0] for e in e_out for ev in e)
        if n_in != n_out:
            problems.append(f"ops are not executed the same number of times: {len(n_in)} before, {len(n_out)} after")
        only_dup = True
        dup_diff = None
        for first in ("dm", "cp"):
            got = simulate(e_out, first)
            for loc in sorted(set(ref) | {l for l in got if not (l[0] == "buf" and l[2] == 1)}):
                a, b = ref.get(loc, ("init", loc)), got.get(loc, ("init", loc))
                if a != b:
                    is_dup = loc[0] == "buf" and ("buf", loc[1], 1) in got
                    if is_dup:
                        dup_diff = loc
                    else:
                        only_dup = False
                        problems.append(f"final contents of {loc} differ from the sequential loop ({first} core first)")
                        break
        if problems:
            fid = ("DC15b" if any(has_trailing(c) for c in subs) else
                   "DC15c" if any(tiles_misaligned(c) for c in subs) else None)
            return [{"what": "; ".join(problems[:3]), "finding": fid}]
        if dup_diff is not None:
            return [{"what": f"duplicated buffer {dup_diff}: the original allocation ends with the data of the last even iteration, "
                             f"not of the last iteration", "finding": "DC15a"}]
        return []

    def nontrivial(self, case, impl_out):
        if isinstance(impl_out, dict) and "multi" in impl_out:
            return any("pipelined" in o for o in impl_out["multi"])
        if isinstance(impl_out, dict) and "nest" in impl_out:
            return impl_out["nest"] == "pipelined"
        return isinstance(impl_out, dict) and "pipelined" in impl_out

    def stats_key(self, case, impl_out):
        k = case.get("kind", "case")
        if isinstance(impl_out, dict) and "raised" in impl_out:
            return f"{k}:raised:{impl_out['raised']}"
        if isinstance(impl_out, dict) and "multi" in impl_out:
            return f"{k}:{len(impl_out['multi'])} loops:{sum('pipelined' in o for o in impl_out['multi'])} pipelined"
        if isinstance(impl_out, dict) and "nest" in impl_out:
            sp = "unmerged level:" if any(len(d) > 3 and d[3] for d in case["nest"]) else ""
            return f"{k}:depth {len(case['nest'])}:{sp}{impl_out['nest']}"
        return k

    def shrink(self, case):
        if case.get("kind") == "nest":
            dims = case["nest"]
            for d in range(len(dims)):
                if len(dims) > 1:
                    yield dict(case, nest=dims[:d] + dims[d + 1:])
                if dims[d][0] > 0:
                    yield dict(case, nest=dims[:d] + [[dims[d][0] - 1] + dims[d][1:]] + dims[d + 1:])
                if dims[d][1] > 1:
                    yield dict(case, nest=dims[:d] + [[dims[d][0], 1, True] + dims[d][3:]] + dims[d + 1:])
            return
        if case.get("kind") == "multi":
            loops = case["loops"]
            if len(loops) == 1:
                yield loops[0]
            for i in range(len(loops)):
                if len(loops) > 1:
                    yield dict(case, loops=loops[:i] + loops[i + 1:])
            for i, c in enumerate(loops):
                for sm in itertools.islice(self.shrink(c), 40):
                    yield dict(case, loops=loops[:i] + [sm] + loops[i + 1:])
            return
        # fewer iterations, fewer operands, fewer tokens
        v = case["ub"][0]
        if v > 0:
            yield dict(case, ub=[v - 1] + list(case["ub"][1:]))
        if case.get("extra"):
            yield {k: x for k, x in case.items() if k != "extra"}
        body = case["body"]
        for i, t in enumerate(body):
            if t[0] == "op":
                for side in (3, 4):
                    if len(t[side]) > 1:
                        for j in range(len(t[side])):
                            nt = list(t)
                            nt[side] = t[side][:j] + t[side][j + 1:]
                            yield dict(case, body=body[:i] + [nt] + body[i + 1:])
        for i, t in enumerate(body):
            if t[0] != "idx":
                yield dict(case, body=body[:i] + body[i + 1:])


PROP = C15()
