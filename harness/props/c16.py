"""C16 — returned schedules fit the accelerator template (shares model, converters and generators with C03)."""
from fractions import Fraction

import compat  # noqa: F401
from props.c03 import (ACC_TYPES, CONV_PROBES, ELEM, SchedProp, gen_backtrack_case, gen_checks, gen_pass_case, gen_pass_conv_case,
                       gen_pass_expr_case, gen_template_case, template_of, gen_random_sched, gen_rows, gen_template, mk_checks, mk_sched,
                       mk_tmpl, of_sched)

ENTRIES_BELOW = 1000   # clause of the correspondence claim for the floating-point matcher (finding D27)


# ------------------------------------------------------------------------------------------------
# exact reference, independent of the Lean model and of numpy: rank over Fractions
# ------------------------------------------------------------------------------------------------
def rank(M):
    M = [[Fraction(x) for x in r] for r in M]
    r = 0
    rows = len(M)
    cols = len(M[0]) if M else 0
    for c in range(cols):
        p = next((i for i in range(r, rows) if M[i][c] != 0), None)
        if p is None:
            continue
        M[r], M[p] = M[p], M[r]
        for i in range(rows):
            if i != r and M[i][c] != 0:
                f = M[i][c] / M[r][c]
                M[i] = [a - f * b for a, b in zip(M[i], M[r])]
        r += 1
    return r


def same_rowspace(A, B):
    return rank(A) == rank(B) == rank(list(A) + list(B))


def exact_matches(tj, sj):
    """Template.matches with exact arithmetic on the JSON form; None where the real code raises."""
    if len(tj["ops"]) != len(sj["ops"]):
        return False
    tn, n = len(tj["bounds"]), len(sj["bounds"])
    for tp, sp in zip(tj["ops"], sj["ops"]):
        S = sp["A"]
        if n > tn:
            if tn == 0:
                return None
            S = [row[n - tn:] for row in S]
        elif n < tn:
            return False
        T = tp["A"]
        br = len(T) - len(S)
        if br > 0:
            T = T[br:]
        if not same_rowspace(T, S):
            return False
    return True


def inner_json(j, k):
    n = len(j["bounds"])
    k = min(k, n)
    return {"bounds": j["bounds"][n - k:], "ops": [{"A": [row[n - k:] for row in o["A"]], "b": o["b"]} for o in j["ops"]]}


def max_abs(case):
    m = 0
    for key in ("t", "s"):
        for o in case[key]["ops"]:
            for row in o["A"]:
                for x in row:
                    m = max(m, abs(x))
    return m


# ------------------------------------------------------------------------------------------------
# independent statements of the two requestable constraints (docstrings of scheduler.py), phrased on
# what the loops DO to the operand index (finite differences of the real AffineTransform.eval), not on
# the code's column slicing / `%` / index-rindex logic
# ------------------------------------------------------------------------------------------------
TCDM_BANK_BYTES = 8   # snaxc/ir/dart/scheduler.py, snaxc/transforms/convert_dart_to_snax_stream.py


def loop_steps(pattern, n):
    """steps[d][r] = change of operand index r when loop d advances by one iteration."""
    import numpy as np
    origin = pattern.eval(np.zeros(n, dtype=np.int64))
    out = []
    for d in range(n):
        e = np.zeros(n, dtype=np.int64)
        e[d] = 1
        out.append([int(x) for x in (pattern.eval(e) - origin).tolist()])
    return out


def split_loops(t_dims, n):
    """(temporal loops, spatial loops) of an n-dim schedule on a template with t_dims dims: the innermost
    t_dims loops are unrolled in space by the accelerator, everything outside runs in time."""
    t = min(t_dims, n)
    return list(range(0, n - t)), list(range(n - t, n))


def elements_per_bank(size_bytes):
    k = 1
    while k * size_bytes < TCDM_BANK_BYTES:
        k += 1
    return k


def violates_memory_granularity(t_dims, sched, sizes):
    """'There must be one spatial stride of 1 that doesn't need more fine-grained temporal access within one
    bank, such that that dimension can be packed together': for every operand with a known element size there
    is an operand dimension r that (a) some spatially unrolled loop walks with stride exactly one element and
    (b) every temporal loop moves by whole bank words (a multiple of the elements per 8-byte bank).
    Only meaningful when there are temporal loops.  Returns None or a description of the offending operand."""
    n = len(sched[0].bounds)
    temporal, spatial = split_loops(t_dims, n)
    if not temporal or not spatial:
        return None
    for j, (p, size) in enumerate(zip(sched, sizes)):
        steps = loop_steps(p.pattern, n)
        per_bank = elements_per_bank(size)
        rows = p.pattern.A.shape[0]
        packable = [r for r in range(rows)
                    if any(steps[d][r] == 1 for d in spatial) and all(steps[d][r] % per_bank == 0 for d in temporal)]
        if not packable:
            return (f"operand {j} ({size}-byte elements, {per_bank} per bank): no operand dim has a unit spatial stride "
                    f"with bank-aligned temporal strides; spatial steps {[steps[d] for d in spatial]}, "
                    f"temporal steps {[steps[d] for d in temporal]}")
    return None


def violates_output_stationarity(t_dims, sched):
    """'all parallel dimensions precede the reduction dimensions in the output operand (last operand)', outside
    of the template: among the temporal loops (outermost first) no loop that leaves the output index unchanged
    (reduction) encloses a loop that changes it (parallel).  Loops of extent 1 never iterate and are ignored."""
    n = len(sched[0].bounds)
    temporal, _ = split_loops(t_dims, n)
    out = sched[len(sched) - 1]
    steps = loop_steps(out.pattern, n)
    live = [d for d in temporal if out.bounds[d] > 1]
    for a, i in enumerate(live):
        if any(steps[i]):
            continue
        for jdim in live[a + 1:]:
            if any(steps[jdim]):
                return (f"temporal loop {i} (extent {out.bounds[i]}) keeps the output index fixed but encloses loop {jdim} "
                        f"(extent {out.bounds[jdim]}) that moves it by {steps[jdim]}")
    return None


def requested_constraint_violations(t_dims, sched, specs):
    out = []
    for c in specs:
        if c[0] == "pos":
            v = violates_output_stationarity(t_dims, sched)
            if v:
                out.append("pure output stationarity requested but " + v)
        elif c[0] == "mem":
            v = violates_memory_granularity(t_dims, sched, list(c[1]))
            if v:
                out.append(f"memory access granularity requested (element sizes {c[1]}) but " + v)
    return out


# ------------------------------------------------------------------------------------------------
D27_FALSE_NEGATIVE = {"kind": "match",
                      "t": {"bounds": [None, None, None], "ops": [{"A": [[0, -167606, -1], [0, 1, 1]], "b": [0, 0]}]},
                      "s": {"bounds": [2, 2, 2], "ops": [{"A": [[0, 167604, -1], [0, -167606, 1]], "b": [0, 0]}]}}
D27_FALSE_POSITIVE = {"kind": "match",
                      "t": {"bounds": [None, None], "ops": [{"A": [[0, 573060], [-348861, 396003]], "b": [0, 0]}]},
                      "s": {"bounds": [2, 2], "ops": [{"A": [[-697722, -792006], [-697722, -792006]], "b": [0, 0]}]}}


def gen_match_case(rng, small=False):
    tn = rng.choice([1, 2, 2, 3, 3, 4]) if not small else rng.choice([1, 2, 3])
    nops = rng.choice([1, 1, 2, 3])
    n = tn + rng.choice([0, 0, 0, 1, 1, 2, -1])
    if n < 0:
        n = 0
    ent = [0, 0, 1, 1, -1, 2, 3, -5, 7, 12, 64, -64] if not small else [0, 1, 1, -1, 2]
    tops, sops = [], []
    for _ in range(nops):
        rt = rng.choice([1, 2, 2, 3, 4]) if not small else rng.choice([1, 2, 3])
        T = gen_rows(rng, rt, tn, ent)
        if rng.random() < 0.25 and rt >= 2:   # rank deficient template
            T[-1] = [a + b for a, b in zip(T[0], T[-2])] if rt >= 3 else [2 * a for a in T[0]]
        u = rng.random()
        rs = rt if u < 0.6 else (rng.randint(0, rt) if u < 0.9 else rt + 1)
        base = T[max(0, rt - rs):]
        v = rng.random()
        if v < 0.55 and base:
            # integer recombination of the participating template rows (same space unless singular)
            S_in = [[sum(c * base[i][j] for i, c in enumerate(cs)) for j in range(tn)]
                    for cs in [[rng.choice([0, 1, 1, -1, 2, -3]) for _ in base] for _ in range(rs)]]
        elif v < 0.7 and base:
            S_in = [list(r) for r in base][:rs] + [[0] * tn] * max(0, rs - len(base))
            if S_in and rng.random() < 0.5:
                i, j = rng.randrange(len(S_in)), rng.randrange(max(tn, 1))
                if tn:
                    S_in[i][j] += rng.choice([1, -1, 2])
        else:
            S_in = gen_rows(rng, rs, tn, ent)
        if n >= tn:
            S = [gen_rows(rng, 1, n - tn, ent)[0] + row for row in S_in]
        else:
            S = [row[tn - n:] for row in S_in]
        tops.append({"A": T, "b": [0] * rt})
        sops.append({"A": S, "b": [rng.choice([0, 1, -2]) for _ in range(rs)]})
    if rng.random() < 0.05:
        sops = sops[:-1] if rng.random() < 0.5 and len(sops) > 1 else sops + [sops[0]]
    return {"kind": "match",
            "t": {"bounds": [rng.choice([2, 4, None]) for _ in range(tn)], "ops": tops},
            "s": {"bounds": [rng.choice([1, 2, 3, 4]) for _ in range(n)], "ops": sops}}


def gen_check_case(rng):
    n = rng.randint(0, 6)
    tn = rng.choice([0, 1, 2, 2, 3, 7])
    nops = rng.randint(1, 3)
    ent = [0, 0, 0, 1, 1, 2, 4, 8, 8, 16, -1, 3, 64]
    s = {"bounds": [rng.choice([1, 2, 3, 4]) for _ in range(n)],
         "ops": [{"A": gen_rows(rng, r, n, ent), "b": [0] * r} for r in [rng.choice([0, 1, 2, 2, 3]) for _ in range(nops)]]}
    if rng.random() < 0.5 and n:
        # make the output operand look stationary-ish: zero a suffix / prefix of temporal columns
        cut = rng.randint(0, n)
        for row in s["ops"][-1]["A"]:
            for j in range(n):
                if (j >= cut) == (rng.random() < 0.9):
                    row[j] = 0
    t = gen_template(rng, tn, [len(o["A"]) for o in s["ops"]])
    u = rng.random()
    if u < 0.4:
        return {"kind": "check", "t": t, "s": s, "check": ["pos"]}
    if u < 0.85:
        sizes = [rng.choice([1, 2, 3, 4, 8, 9, 16]) for _ in range(rng.choice([nops, nops, nops - 1, nops + 1]))]
        if rng.random() < 0.6 and n > tn and tn > 0:
            # structured rows: temporal entries multiples of some granularity, a unit stride among the spatial dims
            for o, size in zip(s["ops"], sizes + [1] * nops):
                for row in o["A"]:
                    g = rng.choice([1, 2, 3, 4, 8, -(-8 // size), max(8 // size, 1)])
                    for j in range(n - tn):
                        row[j] = g * rng.choice([0, 1, 1, 2, -1, 3])
                    for j in range(n - tn, n):
                        row[j] = rng.choice([0, 1, 1, 2, 8])
        return {"kind": "check", "t": t, "s": s, "check": ["mem", sizes]}
    return {"kind": "ocs", "t": t, "s": s, "ch": rng.choice([0, 1, 1, 2, 3])}


def sched_case(t, s, checks, idx=None, default_checks=False):
    return {"kind": "scheduler", "t": t, "s": s, "checks": [["pos"]] if default_checks else checks, "idx": idx,
            "default_checks": default_checks}


def _ident_ops(rows, b=None):
    return {"A": rows, "b": [0] * len(rows) if b is None else b}


def gen_scheduler_case(rng, tier):
    """scheduler(template, schedule[, extra_checks][, schedule_idx]) on feasible and infeasible workloads."""
    u = rng.random()
    idx = None if rng.random() < 0.8 else rng.randint(0, 3)
    default = rng.random() < 0.25
    if u < 0.55:
        while True:
            c = gen_backtrack_case(rng, tier)
            if len(c["t"]["bounds"]) >= 1:
                break
        return sched_case(c["t"], c["s"], c["checks"], idx, default)
    if u < 0.7:
        # element-wise op with b elements on an L-lane template (b > L, b % L != 0: no perfect factorisation)
        lanes = rng.choice([2, 4, 4, 8])
        nops = rng.choice([1, 2, 3])
        b = rng.choice([lanes * rng.randint(1, 4), lanes * rng.randint(1, 3) + rng.randint(1, lanes - 1), rng.randint(1, lanes)])
        extra = [rng.choice([1, 2, 3, 5])] if rng.random() < 0.4 else []
        n = len(extra) + 1
        row = [[0] * len(extra) + [1]] if not extra or rng.random() < 0.5 else [[b] + [1]]
        t = {"bounds": [lanes], "ops": [_ident_ops([[1]]) for _ in range(nops)]}
        s = {"bounds": extra + [b], "ops": [_ident_ops([list(row[0])]) for _ in range(nops)]}
        assert all(len(r) == n for o in s["ops"] for r in o["A"])
        return sched_case(t, s, gen_checks(rng, nops), idx, default)
    if u < 0.85:
        # sliding window x + s*y under the memory-granularity check: temporal strides finer than one bank
        lanes = rng.choice([2, 4, 8])
        size = rng.choice([1, 1, 2, 4, 8])
        stride = rng.choice([1, 1, 2, 8, lanes])
        t = {"bounds": [lanes], "ops": [_ident_ops([[1]])]}
        s = {"bounds": [rng.choice([2, 3, 4]), lanes * rng.choice([1, 2])], "ops": [_ident_ops([[stride, 1]])]}
        checks = [["pos"], ["mem", [size]]] if rng.random() < 0.7 else [["mem", [size]]]
        return sched_case(t, s, checks, idx, False)
    # GEMM-like template; one operand of the workload may be accessed along a diagonal / with a wrong column
    tb = rng.choice([2, 2, 4])
    t = {"bounds": [tb, tb, tb], "ops": [_ident_ops([[1, 0, 0], [0, 0, 1]]), _ident_ops([[0, 0, 1], [0, 1, 0]]),
                                         _ident_ops([[1, 0, 0], [0, 1, 0]])]}
    bs = [tb * rng.choice([1, 2]) for _ in range(3)]
    ops = [[[1, 0, 0], [0, 0, 1]], [[0, 0, 1], [0, 1, 0]], [[1, 0, 0], [0, 1, 0]]]
    v = rng.random()
    if v < 0.45:
        ops[rng.randrange(3)] = rng.choice([[[0, 0, 1], [0, 0, 1]], [[1, 0, 0], [1, 0, 0]], [[1, 1, 0], [0, 0, 1]]])
    elif v < 0.6:
        bs[rng.randrange(3)] = tb * 2 + 1
    s = {"bounds": bs, "ops": [_ident_ops(o) for o in ops]}
    if rng.random() < 0.5:
        perm = [0, 1, 2]
        rng.shuffle(perm)
        s = {"bounds": [bs[p] for p in perm], "ops": [_ident_ops([[r[p] for p in perm] for r in o["A"]]) for o in s["ops"]]}
    return sched_case(t, s, gen_checks(rng, 3, 2), idx, default)


# the three infeasible workloads of the seeded-change notes + a feasible control, always in the stream
SCHEDULER_PROBES = [
    sched_case({"bounds": [4], "ops": [_ident_ops([[1]])] * 3}, {"bounds": [16], "ops": [_ident_ops([[1]])] * 3}, [["pos"]]),
    sched_case({"bounds": [4], "ops": [_ident_ops([[1]])] * 3}, {"bounds": [6], "ops": [_ident_ops([[1]])] * 3}, [["pos"]]),
    sched_case({"bounds": [4], "ops": [_ident_ops([[1]])]}, {"bounds": [3, 8], "ops": [_ident_ops([[1, 1]])]},
               [["pos"], ["mem", [1]]]),
    sched_case({"bounds": [2, 2, 2], "ops": [_ident_ops([[1, 0, 0], [0, 0, 1]]), _ident_ops([[0, 0, 1], [0, 1, 0]]),
                                             _ident_ops([[1, 0, 0], [0, 1, 0]])]},
               {"bounds": [4, 4, 4], "ops": [_ident_ops([[1, 0, 0], [0, 0, 1]]), _ident_ops([[0, 0, 1], [0, 0, 1]]),
                                             _ident_ops([[1, 0, 0], [0, 1, 0]])]}, [["pos"]], default_checks=True),
]


class C16(SchedProp):
    id = "C16"
    exhaustive_thorough = True
    trusted_base = [
        "modelled: scheduler_backtrack, Template.matches with an EXACT matcher (matchesQ) instead of the SVD, "
        "is_pure_output_stationary, is_memory_flexible_enough, is_output_channel_stationary (Model/Scheduler.lean)",
        "numpy.linalg.svd inside same_nonzero_singular_vectors is exercised, not modelled; the oracle's exact reference is a "
        "Fraction-based rank computation written independently of the Lean model",
    ]
    assumptions = [
        f"EntriesBelow {ENTRIES_BELOW}: the real (floating point, absolute tolerance 1e-10) matcher is claimed to agree with exact "
        "row-space equality only for |matrix entries| < 1000; generated cases stay <= 64; the correspondence is not evaluated "
        "on the two D27 probes (entries ~1e6), the oracle is",
        "completeness of matchesQ is not proved in Lean (soundness is); both directions are compared with the Fraction reference",
        "element sizes >= 1 (size 0 makes is_memory_flexible_enough divide by zero: not generated)",
    ]
    rule = ("match: 1-3 operands, template 1-4 dims x 1-4 rows (25% rank deficient), schedule rows = integer recombinations of the "
            "participating template rows / perturbed copies / random, n - tn in {-1,0,1,2}, broadcast and surplus rows, entries <= 64; "
            "check: random schedules 0-6 dims with template dims in {0,1,2,3,7}, sizes in {1,2,3,4,8,9,16}; backtrack: as C03, oracle = "
            "post-conditions; non-trivial = matcher accepts / check holds / at least one schedule returned. thorough adds the "
            "exhaustive space: all pairs of 2x2 matrices with entries in {-1,0,1,2} (65536 pairs) for the matcher")

    def compare(self, case, impl_out, model_out):
        if case["kind"] == "match" and max_abs(case) >= ENTRIES_BELOW:
            return None   # outside the clause EntriesBelow: the SVD is not modelled there (D27); the oracle still runs
        return super().compare(case, impl_out, model_out)

    def cases(self, rng, tier):
        yield D27_FALSE_NEGATIVE
        yield D27_FALSE_POSITIVE
        nm, nc, nb = (1500, 700, 600) if tier == "quick" else (20000, 8000, 5000)
        for i in range(nm):
            yield gen_match_case(rng, small=(i % 4 == 0))
        for _ in range(nc):
            yield gen_check_case(rng)
        for _ in range(nb):
            yield gen_backtrack_case(rng, tier)
        # the real dart-scheduler pass: what it EMITS must fit the accelerator's template and satisfy the two constraints the
        # pass requests (with the operands' element sizes), for every operation of the module
        # get_template of the accelerators against the model's tables (all body shapes, non-default array geometry)
        for _ in range(60 if tier == "quick" else 1500):
            yield gen_template_case(rng)
        yield from CONV_PROBES
        for _ in range(14 if tier == "quick" else 250):
            yield gen_pass_conv_case(rng)
        for _ in range(40 if tier == "quick" else 600):
            yield gen_pass_case(rng) if rng.random() < 0.6 else gen_pass_expr_case(rng)
        yield from SCHEDULER_PROBES
        for _ in range(500 if tier == "quick" else 6000):
            yield gen_scheduler_case(rng, tier)
        if tier == "thorough":
            import itertools
            vals = (-1, 0, 1, 2)
            mats = [[list(m[:2]), list(m[2:])] for m in itertools.product(vals, repeat=4)]
            for A in mats:
                for B in mats:
                    yield {"kind": "match", "t": {"bounds": [None, 2], "ops": [{"A": A, "b": [0, 0]}]},
                           "s": {"bounds": [2, 2], "ops": [{"A": B, "b": [0, 0]}]}}

    def extra_search_cases(self, rng, tier):
        # finite: the main stream already runs the oracle on every case, this only widens it
        for _ in range(1500 if tier == "quick" else 40000):
            yield gen_match_case(rng)
            yield gen_check_case(rng)
            yield gen_backtrack_case(rng, "thorough")
            yield gen_scheduler_case(rng, "thorough")
            yield gen_pass_conv_case(rng)

    def oracle(self, case, impl_out):
        out = self.purity_violations(impl_out)
        kind = case["kind"]
        if "raised" in impl_out:
            return out
        if kind == "match":
            exact = exact_matches(case["t"], case["s"])
            if exact is not None and exact != impl_out["matches"]:
                big = max_abs(case) >= ENTRIES_BELOW
                out.append({"what": f"Template.matches returned {impl_out['matches']} but the row spaces are "
                                    f"{'equal' if exact else 'different'} (exact rational arithmetic)"
                                    + (" [|entries| >= 1000]" if big else ""),
                            "finding": ("D27" if exact else "D27b") if big else None})
        elif kind == "template":
            # what a template must be, independently of model and code: one pattern per stream of the kernel chain, every
            # pattern over the array's dims, bounds = the array geometry, matmul operands A[m,k] B[k,n] C[m,n]
            t = impl_out["template"]
            g = case.get("geom") or [8, 8, 8]
            if case["acc"] == "snax_alu":
                want = {"bounds": [4], "ops": [{"A": [[1]], "b": [0]}] * 3}
            elif case["body"] and case["body"][0] in ("qmac", "mac"):
                mk, kn, mn = [[1, 0, 0], [0, 0, 1]], [[0, 0, 1], [0, 1, 0]], [[1, 0, 0], [0, 1, 0]]
                want = {"bounds": g, "ops": [{"A": a, "b": [0, 0]} for a in ([mk, kn, mn] + ([mn] if "add" in case["body"] else []))]}
            else:
                want = {"bounds": [g[0], g[2]], "ops": [{"A": [[1, 0], [0, 1]], "b": [0, 0]}] * 2}
            if t != want:
                out.append({"what": f"get_template of {case['acc']} (array {g}, kernels {case.get('body')}) returns bounds {t['bounds']}, "
                                    f"patterns {[o['A'] for o in t['ops']]} instead of bounds {want['bounds']}, patterns "
                                    f"{[o['A'] for o in want['ops']]}", "finding": None})
        elif kind == "pass":
            scheds = impl_out["schedules"]
            if len(scheds) != len(case["ops"]):
                return [{"what": f"{len(case['ops'])} operations but {len(scheds)} ops after dart-scheduler", "finding": None}]
            tj = template_of(case)
            sizes = [ELEM[ty] for ty in ACC_TYPES[case["acc"]]]
            for i, (op, sj) in enumerate(zip(case["ops"], scheds)):
                if "unscheduled" in sj:
                    continue
                sub = {"kind": "scheduler", "t": tj, "s": None, "checks": [["pos"], ["mem", sizes]]}
                for v in self.oracle(sub, {"result": sj}):
                    out.append({"what": f"dart-scheduler, operation #{i} of {len(scheds)} (iteration bounds {op['bounds']}, element sizes "
                                        f"{sizes}): the emitted dart.schedule (bounds {sj['bounds']}) does not fit: " + v["what"],
                                "finding": v.get("finding")})
                if out:
                    break
        elif kind == "check":
            tn = len(case["t"]["bounds"])
            if impl_out["holds"] and tn > 0 and case["s"]["ops"]:
                for v in requested_constraint_violations(tn, mk_sched(case["s"]), [case["check"]]):
                    out.append({"what": f"{'is_pure_output_stationary' if case['check'][0] == 'pos' else 'is_memory_flexible_enough'}"
                                        f" accepts a schedule although {v}", "finding": None})
        elif kind in ("backtrack", "scheduler"):
            # every schedule that is handed out -- yielded by the search or RETURNED by scheduler() -- must fit the
            # template; scheduler() raising (no schedule) is fine, a returned non-fitting schedule is not
            t = mk_tmpl(case["t"])
            tj = case["t"]
            tn = len(tj["bounds"])
            checks = mk_checks(case["checks"])
            k0 = max(case["k"], 1) if kind == "backtrack" else 1
            results = impl_out["results"] if kind == "backtrack" else [impl_out["result"]]
            for i, rj in enumerate(results):
                if kind == "scheduler":
                    i = "returned by scheduler()"
                if isinstance(rj["bounds"], dict):
                    out.append({"what": f"result #{i}: operands disagree on the iteration bounds", "finding": None})
                    continue
                r = mk_sched(rj)
                n = len(rj["bounds"])
                if k0 <= n and len(rj["ops"]) != len(tj["ops"]):   # a 0-dim schedule is yielded without any matching
                    out.append({"what": f"result #{i}: {len(rj['ops'])} operands for a template with {len(tj['ops'])}",
                                "finding": None})
                    break
                if k0 <= n:   # the search evaluated the requested checks on the whole schedule
                    for v in requested_constraint_violations(tn, r, case["checks"]):
                        out.append({"what": f"result #{i} (bounds {rj['bounds']}): {v}", "finding": None})
                    if out:
                        break
                for k in range(k0, n + 1):
                    tc, rc = t.inner_dims(k), r.inner_dims(k)
                    ex = exact_matches(inner_json(tj, k), inner_json(rj, k))
                    if ex is False:
                        out.append({"what": f"result #{i}: innermost {k} dims do not span the template's subspace (exact)",
                                    "finding": None})
                        break
                    if not tc.matches(rc):
                        out.append({"what": f"result #{i}: template.inner_dims({k}).matches(result.inner_dims({k})) is False",
                                    "finding": None})
                        break
                    bad = [ci for ci, c in enumerate(checks) if not c(tc, rc)]
                    if bad:
                        out.append({"what": f"result #{i}: extra check {case['checks'][bad[0]]} fails on the innermost {k} dims",
                                    "finding": None})
                        break
                    if k <= tn:
                        tb = tj["bounds"][tn - k]
                        if tb and rj["bounds"][n - k] > tb:
                            out.append({"what": f"result #{i}: bound {rj['bounds'][n - k]} of dim -{k} exceeds template bound {tb}",
                                        "finding": None})
                            break
                if out:
                    break
        return out

    def nontrivial(self, case, impl_out):
        if "raised" in impl_out:
            return False
        if case["kind"] == "match":
            return bool(impl_out["matches"])
        if case["kind"] in ("check", "ocs"):
            return bool(impl_out["holds"])
        if case["kind"] == "scheduler":
            return impl_out["result"] != case["s"]
        if case["kind"] == "pass":
            return any("unscheduled" not in x for x in impl_out["schedules"])
        if case["kind"] == "template":
            return True
        return len(impl_out["results"]) > 0


PROP = C16()
