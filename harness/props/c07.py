"""C07 — assumed accelerator state is always a subset of the real state."""
import random

import compat  # noqa: F401
import accfg_common as ac
import snaxrun
from framework import Prop


def trace_states(src):
    return snaxrun.run_passes(src, "accfg-trace-states")


class C07(Prop):
    id = "C07"
    PARALLEL = True
    USES_IMPL = True
    CASE_TIMEOUT = 60
    trusted_base = [
        "modelled: infer_state_of / state_intersection (trace_acc_state.py, with F1) as the forward analysis knownB; "
        "_weave_states_in_region (convert_linalg_to_accfg.py, with F2) is NOT modelled syntactically: its output is "
        "validated per program by comparing infer_state_of at every setup/launch with knownB of the erased program",
        "abstract CSR machine (harness/accfg_common.py) = oracle semantics, cross-checked against the Lean execB on every case",
    ]
    assumptions = [
        "hardware: a launch observes all registers of its accelerator; an unannotated call may change every register",
        "programs: setups, launches, awaits, arith, calls without operands, scf.if without data results, scf.for without data iter_args",
    ]
    rule = ("random structured programs before state tracing (<=2 accelerators, depth<=3, full or partial setups, calls with and "
            "without effects<none>); non-trivial = contains control flow and at least one non-empty assumed state")

    def cases(self, rng, tier):
        n = 500 if tier == "quick" else 8000
        for i in range(n):
            g = ac.Gen(random.Random(rng.getrandbits(48)), full=rng.random() < 0.6, depth=rng.choice([1, 2, 2, 3]),
                       prethread=rng.random() < 0.25, carried=rng.choice([0.0, 0.0, 0.5]))
            yield {"kind": "trace", "src": g.program(), "xseed": rng.getrandbits(32)}

    def impl(self, case):
        try:
            _m = snaxrun.parse(case["src"])
            _m.verify()
            if not ac.well_formed_regions(_m):
                return {"invalid_input": "region without matching yield"}
        except Exception as e:
            return {"invalid_input": type(e).__name__}
        traced = trace_states(case["src"])
        mod = snaxrun.parse(traced)
        f = ac.find_func(mod)
        try:
            conv = ac.Conv(f)
        except ac.Unsupported as e:
            return {"unmodelled": str(e)}  # outside the model's IR fragment: judged by the oracle only
        points = ac.real_inference_at_points(conv)
        prog = conv.program()
        execs = []
        for args in ac.executions(random.Random(case["xseed"]), 6):
            tr = ac.run_func(f, args, calltag=conv.calltag, universe=conv.universe())
            execs.append({"args": args, "trace": conv.trace_json(tr)})
        return {"prog": prog, "points": points, "execs": execs}

    def requests(self, case, impl_out):
        if "raised" in impl_out or "invalid_input" in impl_out or "unmodelled" in impl_out:
            return []
        p = impl_out["prog"]
        reqs = [{"fn": "c07.analyse", "args": {"body": p["body"], "fields": p["fields"]}}]
        for e in impl_out["execs"]:
            reqs.append({"fn": "c07.exec", "args": {"body": p["body"], "fields": p["fields"], "args": e["args"], "init": ac.INIT}})
        return reqs

    def model(self, case, answers, impl_out):
        if "raised" in impl_out or "invalid_input" in impl_out or "unmodelled" in impl_out:
            return impl_out  # the model has no syntactic weave: an exception of the real pass is judged by the oracle
        a = answers[0]
        if "err" in a:
            return {"model_error": a["err"]}
        if not a["ok"]["wf"] or not a["ok"]["nodup"]:
            return {"model_error": "converted program violates the theorems' well-formedness predicate", "wf": a["ok"]}
        execs = []
        for e, x in zip(impl_out["execs"], answers[1:]):
            execs.append({"args": e["args"], "trace": x.get("ok", x)})
        return {"prog": impl_out["prog"], "points": [sorted(p) for p in a["ok"]["annot"]], "execs": execs}

    def oracle(self, case, impl_out):
        if "invalid_input" in impl_out:
            return []  # not a program: nothing to check
        if "raised" in impl_out:
            return [{"what": f"accfg-trace-states raised {impl_out['raised']}: {impl_out.get('msg')}", "finding": None}]
        from snaxc.dialects import accfg
        from snaxc.inference.trace_acc_state import infer_state_of
        mod = snaxrun.parse(trace_states(case["src"]))
        f = ac.find_func(mod)
        bad = []

        def hook(op, env, m):
            if bad:
                return
            if isinstance(op, accfg.SetupOp):
                sv = op.in_state
            elif isinstance(op, accfg.LaunchOp):
                sv = op.state
            else:
                return
            if sv is None:
                return
            acc = op.accelerator.data
            for name, val in infer_state_of(sv).items():
                if val not in env:
                    bad.append(f"{op.name}: field {name} assumed to hold a value that is not available here")
                    return
                real = m.regs.get((acc, name), "unset")
                if real != env[val]:
                    bad.append(f"{op.name} on {acc}: assumes {name} = {env[val]} but the register holds {real}")
                    return

        for args in ac.executions(random.Random(case["xseed"] + 1), 12):
            try:
                ac.run_func(f, args, hook=hook)
            except ac.Undefined as e:
                bad.append(str(e))
            if bad:
                return [{"what": f"{bad[0]} (args={args})", "finding": None}]
        return []

    def stats_key(self, case, impl_out):
        if "unmodelled" in impl_out:
            return "trace:oracle-only(" + impl_out["unmodelled"] + ")"
        return super().stats_key(case, impl_out)

    def nontrivial(self, case, impl_out):
        return "prog" in impl_out and any(impl_out["points"]) and ("scf.for" in case["src"] or "scf.if" in case["src"])

    def mutants(self, case, rng):
        return ac.mutants(case, rng) if "src" in case else iter(())

    def shrink(self, case):
        if "src" not in case:
            return
        for t in ac.shrink_src(case["src"]):
            yield dict(case, src=t)
        lines = case["src"].split("\n")
        # delete one top-level statement group at a time (keep it parseable: only lines at indent 2 without braces)
        for i, l in enumerate(lines):
            if l.startswith("  ") and not l.startswith("   ") and "{" not in l and "}" not in l and "func.return" not in l and "%lv" not in l:
                yield dict(case, src="\n".join(lines[:i] + lines[i + 1:]))


PROP = C07()
