"""C07 — assumed accelerator state is always a subset of the real state."""
import random

import compat  # noqa: F401
import accfg_common as ac
import accfg_links as al
import snaxrun
from framework import Prop


def _fc07a_applied():
    """fixes/FC07a (re-linking of pre-existing loop-carried states): the model variant of the FIXED pass is used when finding
    DC07a is listed as fixed in known_findings.d/C07.json (DC07b is repaired by the same diff); C07_FIXES=none / C07_FIXES=FC07a
    overrides, e.g. to check a tree without the fix."""
    import json
    import os
    env = os.environ.get("C07_FIXES")
    if env is not None:
        return "FC07a" in [x.strip() for x in env.split(",")]
    f = os.path.join(os.path.dirname(os.path.dirname(os.path.dirname(os.path.abspath(__file__)))), "known_findings.d", "C07.json")
    try:
        return any(e["id"] == "DC07a" and e.get("status") == "fixed" for e in json.load(open(f))["findings"])
    except Exception:
        return False


FIXED = _fc07a_applied()
al.FIXED = FIXED


def trace_states(src):
    return snaxrun.run_passes(src, "accfg-trace-states")


def eval_cost(body, c=1):
    """Upper estimate of the work of the Lean driver's evaluator on a converted program: the facts are closures, `meet` evaluates
    its left argument twice and a loop analyses its body twice, so sequences of conditionals / nested loops multiply. Programs
    beyond EVAL_LIMIT (a handful per thousand, minutes each) are judged by the oracle only."""
    def w(b, c):
        for s in b:
            c = ws(s, c)
        return c

    def ws(s, c):
        t = s[0]
        if t == "setup":
            return c + 1
        if t == "call":
            return 1 if s[2] else c
        if t == "if":
            return 2 * w(s[2], c) + w(s[3], c) + 1
        if t == "for":
            return 2 * c + w(s[5], 2 * c + w(s[5], c)) + 1
        return c

    tot = 0
    for s in body:
        t = s[0]
        if t in ("setup", "launch"):
            tot += c
        elif t == "if":
            tot += eval_cost(s[2], c) + eval_cost(s[3], c)
        elif t == "for":
            tot += eval_cost(s[5], 2 * c + w(s[5], c))
        c = ws(s, c)
    return tot


EVAL_LIMIT = 10 ** 7


class LinksMixin:
    """case kind "links": the threading pass and the link-following inference INSIDE the model (Model/AccfgLinks.lean).
    impl: the untraced input converted to the pre-linked IR (PBlock), the REAL traced IR converted to the linked IR (LBlock,
    canonical state ids), real `infer_state_of` of EVERY state value and at every setup / launch.
    model: `weave` of the PBlock (must equal the real link structure), `inferL` on it and on the converted real IR."""

    def links_impl(self, case):
        try:
            m0 = snaxrun.parse(case["src"])
            m0.verify()
        except Exception as e:
            return {"invalid_input": type(e).__name__}
        try:
            cp = al.ConvP(ac.find_func(m0))
        except ac.Unsupported as e:
            return {"unmodelled": str(e)}
        pre = al.has_prethreaded_loop(case["src"])
        try:
            traced = trace_states(case["src"])
        except Exception as e:
            # the pass (or the module verifier behind it) raised: an outcome the model has to predict (`weaveBad`)
            return {"P": cp.body, "pass_raised": type(e).__name__, "msg": str(e)[:200]}
        f = ac.find_func(snaxrun.parse(traced))
        try:
            cl = al.ConvL(f)
        except ac.Unsupported as e:
            return {"unmodelled": "traced: " + str(e)}
        if eval_cost(cl.body) > EVAL_LIMIT:
            return {"unmodelled": "evaluator cost"}
        # claim checked by the model's decidable link validation on the converted REAL IR (skipped in the class of DC07a)
        return {"P": cp.body, "L": cl.body, "infer": cl.real_inference(), "annot": ac.real_inference_at_points(cl),
                "links_sound": None if pre and not FIXED else True}

    def links_requests(self, case, impl_out):
        if "P" not in impl_out:
            return []
        reqs = [{"fn": "c07links.weave", "args": {"body": impl_out["P"], "fixed": FIXED}}]
        if "L" in impl_out:
            reqs.append({"fn": "c07links.infer", "args": {"body": impl_out["L"]}})
        return reqs

    def links_model(self, case, answers, impl_out):
        if "P" not in impl_out:
            return impl_out
        w = answers[0]
        if "err" in w:
            return {"model_error": w["err"]}
        w = w["ok"]
        if not w["wf"] or not w["nodup"]:
            return {"model_error": "converted program violates the theorems' well-formedness predicates", "wf": w["wf"], "nodup": w["nodup"]}
        if w["plain"] == al.has_prethreaded_loop(case["src"]):
            return {"model_error": "clause NoPreThreadedLoops evaluated differently by the model and the harness"}
        if w["bad"]:
            # the model predicts malformed IR (operands / block arguments of a loop do not match): the verifier raises
            return {"P": impl_out["P"], "pass_raised": "VerifyException", "msg": impl_out.get("msg")}
        if "L" not in impl_out:
            return {"P": impl_out["P"], "L": w["woven"], "model_predicts": "no exception"}
        i = answers[1]
        if "err" in i:
            return {"model_error": i["err"]}
        i = i["ok"]
        out = {"P": impl_out["P"], "L": w["woven"], "infer": al.canon_states(w["infer"]),
               "annot": [sorted(x) if isinstance(x, list) else x for x in w["annot"]],
               "links_sound": i["linksSound"] if (w["plain"] or FIXED) else None}
        if (w["plain"] or FIXED) and not w["linksSound"]:
            out["model_error"] = "soundChkB fails on the woven program (contradicts weave_links_agree / _partial)"
        if not w.get("ranked", True) or not i.get("ranked", True):
            # hypothesis of inferL_fuel_suffices (decidable, evaluated on the woven and on the converted real program)
            out["model_error"] = "owner table is not ranked / closed: fuelOf is not known to suffice"
        # the same inference on the converted REAL traced IR (meaningful also when the link structures differ)
        real_l = {"infer": al.canon_states(i["infer"]), "annot": [sorted(x) if isinstance(x, list) else x for x in i["annot"]]}
        if real_l["infer"] != impl_out["infer"] or real_l["annot"] != impl_out["annot"]:
            out["inferL_on_real_links"] = real_l
        return out


class C07(LinksMixin, Prop):
    id = "C07"
    module = "SnaxVerif.Props.C07Links"  # imports Props.C07
    PARALLEL = True
    USES_IMPL = True
    CASE_TIMEOUT = 60
    trusted_base = [
        "modelled: infer_state_of / state_intersection (trace_acc_state.py) twice: as the forward analysis knownB on the IR with "
        "state values erased (Model/Accfg.lean) and as the link-following inferL with the assume dictionary on the linked IR "
        "(Model/AccfgLinks.lean); _weave_states_in_region (convert_linalg_to_accfg.py) as `weave` on the linked IR; the theorem "
        "weave_links_agree relates the two for all programs; correspondence: real links = weave (up to renaming of state values and "
        "the order of scf.if results), real infer_state_of = inferL at EVERY state value, = knownB at every setup/launch",
        "the state dictionary of the pass is modelled as a total function accelerator -> optional state value; candidate accelerators "
        "for new scf.if results are those set up in a branch (sorted) instead of Python dict order",
        "abstract CSR machine (harness/accfg_common.py) = oracle semantics, cross-checked against the Lean execB on every case",
    ]
    assumptions = [
        "hardware: a launch observes all registers of its accelerator; an unannotated call may change every register",
        "programs: setups, launches, awaits, arith, calls without operands, scf.if without data results, scf.for without data iter_args",
        "linked model: input loops / conditionals carry no state values yet (pre-existing links only on setups); launches are judged when "
        "they follow the setup of their accelerator in straight-line code (the pass never re-links a launch)",
    ]
    rule = ("random structured programs before state tracing (<=2 accelerators, depth<=3, full or partial setups, calls with and "
            "without effects<none>); non-trivial = contains control flow and at least one non-empty assumed state")

    def cases(self, rng, tier):
        n = 500 if tier == "quick" else 8000
        for i in range(n):
            g = ac.Gen(random.Random(rng.getrandbits(48)), full=rng.random() < 0.6, depth=rng.choice([1, 2, 2, 3]),
                       prethread=rng.random() < 0.25, carried=rng.choice([0.0, 0.0, 0.5]))
            g.before = i % 7 == 5  # another function in front of @f: every function is traced as if it were alone
            g.opaque = 0.6 if i % 9 == 4 else 0.0  # opaque non-call operations annotated accfg.effects<full> / <none> / not at all
            g.statearg = i % 11 == 7  # the state of each accelerator arrives as a function argument (unknown contents)
            g.callee = i % 5 == 4  # unannotated calls to a function DEFINED in the module (it programs the accelerators)
            yield {"kind": "trace", "src": g.program(), "xseed": rng.getrandbits(32)}
        # the same generator, second stream: links of the real pass vs `weave`, real infer_state_of vs `inferL`
        n = 500 if tier == "quick" else 6000
        for i in range(n):
            g = ac.Gen(random.Random(rng.getrandbits(48)), full=rng.random() < 0.6, depth=rng.choice([1, 2, 2, 3]),
                       prethread=rng.random() < 0.4, carried=rng.choice([0.0, 0.0, 0.0, 0.5]))
            g.callee = i % 5 == 4
            g.opaque = 0.6 if i % 9 == 4 else 0.0
            g.before = i % 7 == 5
            src = g.program()
            if rng.random() < 0.4:
                # pre-existing loop-carried state (stale yields / inits: class of the known findings DC07a, DC07b)
                src = al.prethread_loops(src, random.Random(rng.getrandbits(32)))
            yield {"kind": "links", "src": src, "xseed": rng.getrandbits(32)}
        for i in range(40 if tier == "quick" else 600):
            # loops that already carry a state they only pass through (no setup of that accelerator left in the body)
            src = al.passthrough_program(random.Random(rng.getrandbits(48)))
            yield {"kind": "links" if i % 2 else "trace", "src": src, "xseed": rng.getrandbits(32)}

    def impl(self, case):
        if case.get("kind") == "links":
            return self.links_impl(case)
        try:
            _m = snaxrun.parse(case["src"])
            _m.verify()
            if not ac.well_formed_regions(_m):
                return {"invalid_input": "region without matching yield"}
        except Exception as e:
            return {"invalid_input": type(e).__name__}
        traced = trace_states(case["src"])
        mod = snaxrun.parse(traced)
        f = ac.find_func(mod)
        try:
            conv = ac.Conv(f)
        except ac.Unsupported as e:
            return {"unmodelled": str(e)}  # outside the model's IR fragment: judged by the oracle only
        prog = conv.program()
        if eval_cost(prog["body"]) > EVAL_LIMIT:
            return {"unmodelled": "evaluator cost"}
        points = ac.real_inference_at_points(conv)
        execs = []
        for args in ac.executions(random.Random(case["xseed"]), 6):
            tr = ac.run_func(f, args, calltag=conv.calltag, universe=conv.universe())
            execs.append({"args": args, "trace": conv.trace_json(tr)})
        return {"prog": prog, "points": points, "execs": execs}

    def requests(self, case, impl_out):
        if case.get("kind") == "links":
            return self.links_requests(case, impl_out)
        if "raised" in impl_out or "invalid_input" in impl_out or "unmodelled" in impl_out:
            return []
        p = impl_out["prog"]
        reqs = [{"fn": "c07.analyse", "args": {"body": p["body"], "fields": p["fields"]}}]
        for e in impl_out["execs"]:
            reqs.append({"fn": "c07.exec", "args": {"body": p["body"], "fields": p["fields"], "args": e["args"], "init": ac.INIT}})
        return reqs

    def model(self, case, answers, impl_out):
        if case.get("kind") == "links":
            return self.links_model(case, answers, impl_out)
        if "raised" in impl_out or "invalid_input" in impl_out or "unmodelled" in impl_out:
            return impl_out  # the model has no syntactic weave: an exception of the real pass is judged by the oracle
        a = answers[0]
        if "err" in a:
            return {"model_error": a["err"]}
        if not a["ok"]["wf"] or not a["ok"]["nodup"]:
            return {"model_error": "converted program violates the theorems' well-formedness predicate", "wf": a["ok"]}
        execs = []
        for e, x in zip(impl_out["execs"], answers[1:]):
            execs.append({"args": e["args"], "trace": x.get("ok", x)})
        return {"prog": impl_out["prog"], "points": [sorted(p) for p in a["ok"]["annot"]], "execs": execs}

    def oracle(self, case, impl_out):
        if "invalid_input" in impl_out:
            return []  # not a program: nothing to check
        # classifier, by the named clause on the INPUT: a loop that already carries a state value (NoPreThreadedLoops)
        pre = al.has_prethreaded_loop(case["src"])
        raised = impl_out.get("raised") or impl_out.get("pass_raised")
        if raised:
            return [{"what": f"accfg-trace-states raised {raised}: {impl_out.get('msg')}",
                     "finding": "DC07b" if pre and raised == "VerifyException" else None}]
        from snaxc.dialects import accfg
        from snaxc.inference.trace_acc_state import infer_state_of
        try:
            traced = trace_states(case["src"])
        except Exception as e:  # (cases whose impl side stopped before running the pass, e.g. outside the model's fragment)
            return [{"what": f"accfg-trace-states raised {type(e).__name__}: {str(e)[:200]}",
                     "finding": "DC07b" if pre and type(e).__name__ == "VerifyException" else None}]
        mod = snaxrun.parse(traced)
        f = ac.find_func(mod)
        bad = []

        def hook(op, env, m):
            if bad:
                return
            if isinstance(op, accfg.SetupOp):
                sv = op.in_state
            elif isinstance(op, accfg.LaunchOp):
                sv = op.state
            else:
                return
            if sv is None:
                return
            acc = op.accelerator.data
            for name, val in infer_state_of(sv).items():
                if val not in env:
                    bad.append(f"{op.name}: field {name} assumed to hold a value that is not available here")
                    return
                real = m.regs.get((acc, name), "unset")
                if real != env[val]:
                    bad.append(f"{op.name} on {acc}: assumes {name} = {env[val]} but the register holds {real}")
                    return

        for args in ac.executions(random.Random(case["xseed"] + 1), 12):
            try:
                ac.run_func(f, args, hook=hook)
            except ac.Undefined as e:
                bad.append(str(e))
            if bad:
                return [{"what": f"{bad[0]} (args={args})", "finding": "DC07a" if pre else None}]
        return []

    def stats_key(self, case, impl_out):
        if case.get("kind") == "links" and "P" in impl_out and al.has_prethreaded_loop(case["src"]):
            return "links:pre-threaded-loop" + (":pass-raised" if "pass_raised" in impl_out else "")
        if "unmodelled" in impl_out:
            return case.get("kind", "trace") + ":oracle-only(" + impl_out["unmodelled"] + ")"
        return super().stats_key(case, impl_out)

    def nontrivial(self, case, impl_out):
        if case.get("kind") == "links":
            return "L" in impl_out and "infer" in impl_out and any(s for _, s in impl_out["infer"]) and ("scf.for" in case["src"] or "scf.if" in case["src"])
        return "prog" in impl_out and any(impl_out["points"]) and ("scf.for" in case["src"] or "scf.if" in case["src"])

    def mutants(self, case, rng):
        return ac.mutants(case, rng) if "src" in case else iter(())

    def shrink(self, case):
        if "src" not in case:
            return
        for t in ac.shrink_src(case["src"]):
            yield dict(case, src=t)
        lines = case["src"].split("\n")
        # delete one top-level statement group at a time (keep it parseable: only lines at indent 2 without braces)
        for i, l in enumerate(lines):
            if l.startswith("  ") and not l.startswith("   ") and "{" not in l and "}" not in l and "func.return" not in l and "%lv" not in l:
                yield dict(case, src="\n".join(lines[:i] + lines[i + 1:]))


PROP = C07()
