"""C12 — materialised casts deliver the right data to every consumer.

Real code: `transform_constant`, `RemoveTransposeConstants.transpose_tuple`, the passes `set-memory-space` and
`realize-memref-casts` (run in-process on generated MLIR). Model: lean/SnaxVerif/Model/Casts.lean.

Committed state: the model is the code WITH fix F10 (fixes/F10-realize-copy-in-before-first-use.diff) applied to
$SNAX_REPO. Set C12_RULE=orig to compare against the unpatched placement rule (D8 then shows up as oracle failures).

Kinds of cases
  const     transform_constant(attr, tsl) on a flat constant            -> new flat data | None | exception
  glob      the same through the pass (initialised memref.global + get_global [+ memory_space_cast] + layout_cast to dense
            tsl / padded tsl / plain strided targets): dense attribute of the new global vs the model, and the lowered function
            is executed on flat memories (address = layout of the type): the consumer must read the global's values
  pipe      set-memory-space,realize-memref-casts end to end on functions without memory spaces: accelerator ops and host
            copies on arguments and subviews of them, inside loops with operands defined outside; oracle only (symbolic
            interpreter with memory in cells, before vs after); failures of the unchanged code are attributed to DC12a/b/c
            by the syntactic clauses of `classify_pipe`
  transpose transpose_tuple
  memspace  set-memory-space on a generated function: signature / operand / alloc / global memory spaces
  realize   realize-memref-casts on a generated function (USES_IMPL): per cast, the block of the cast before and
            after the pass as a model `Blk`; model `realize` must give the same placement of the two copies; the Lean
            checker `chk` (proved sound) is run on the REAL output; oracle = symbolic single-core interpreter on the
            real IR before/after for several trip-count sequences.
"""
import itertools
import os
import random

import compat  # noqa: F401
import snaxrun
from framework import Prop, canon_json

FIXED = os.environ.get("C12_RULE", "fixed") != "orig"


def _fixed_findings():
    """ids of the C12 findings that are recorded as fixed: the model / the clauses follow the repaired code for them"""
    import json
    try:
        p = os.path.join(os.path.dirname(os.path.dirname(os.path.dirname(os.path.abspath(__file__)))), "known_findings.json")
        return {f["id"] for f in json.load(open(p))["findings"] if f.get("property") == "C12" and f.get("status") == "fixed"}
    except Exception:
        return set()


FIX_C = "DC12c" in _fixed_findings()  # set-memory-space only re-uses a cast that dominates the use (fixes/FC12c-…)
FIX_E = "DC12e" in _fixed_findings()  # ApplyLayoutCastSubviewGlobal: subview offsets at tile boundaries (fixes/FC12e-…)
FIX_F = "DC12f" in _fixed_findings()  # … and the tile divides the global (fixes/FC12e-… = FC09a + offsets)
FIX_D = "DC12d" in _fixed_findings()  # transform_constant refuses layouts with an offset (fixes/FC12d-…)

T1 = 'memref<64xi32, "L1">'
T3 = 'memref<64xi32, "L3">'
T1L = 'memref<64xi32, #tsl.tsl<[4, 16] -> (16, 1)>, "L1">'
ELTS = {"i8": 8, "i16": 16, "i32": 32, "i64": 64}
FLOATS = {"f16": 16, "f32": 32, "f64": 64}  # float constants / globals: integer-valued data (exact in every float type)


def el_hi(el):
    return 1024 if el in FLOATS else 1 << (ELTS[el] - 1)


def lit(v, el):
    return f"{v}.0" if el in FLOATS else str(v)


def pick_el(rng):
    return rng.choice(list(ELTS) + list(FLOATS))


# ------------------------------------------------------------------------------------------------
# running the real passes: one cached context per process, pass objects applied in place (the snax-opt front end with
# temporary files costs ~4x as much per case); the module is verified after every pass as snax-opt does, and
# `dominance_ok` replaces the check that re-parsing the printed module used to give
# ------------------------------------------------------------------------------------------------
_CTX = None


def _ctx():
    global _CTX
    if _CTX is None:
        _CTX = snaxrun.fresh_ctx()
    return _CTX


def fparse(src):
    from xdsl.parser import Parser
    return Parser(_ctx(), src).parse_module()


def fpasses(src, names):
    """parse `src`, apply the named passes of the real code in place, verify after each; returns the module"""
    from snaxc.transforms.realize_memref_casts import RealizeMemrefCastsPass
    from snaxc.transforms.set_memory_space import SetMemorySpace
    table = {"realize-memref-casts": RealizeMemrefCastsPass, "set-memory-space": SetMemorySpace}
    m = fparse(src)
    for n in names.split(","):
        table[n]().apply(_ctx(), m)
        m.verify()
    if not dominance_ok(m):
        raise ValueError("an operand is used outside the region that defines it")
    return m


# ------------------------------------------------------------------------------------------------
# constants
# ------------------------------------------------------------------------------------------------

def gen_layout(rng, big=False):
    rank = rng.choice([1, 2, 2, 3])
    tb = [[rng.choice([1, 2, 2, 3, 4] if not big else [1, 2, 3, 4, 5, 8]) for _ in range(rng.choice([1, 1, 2, 3] if big else [1, 2, 2]))]
          for _ in range(rank)]
    pos = [(d, k) for d in range(rank) for k in range(len(tb[d]))]
    rng.shuffle(pos)
    cur = 1
    step = {}
    gap = rng.random() < 0.12
    for (d, k) in pos:
        step[(d, k)] = cur
        cur *= tb[d][k] * (rng.choice([1, 2]) if gap else 1)
    ts = [[[step[(d, k)], tb[d][k]] for k in range(len(tb[d]))] for d in range(rank)]
    r = rng.random()
    if r < 0.04:
        d = rng.randrange(rank)
        ts[d][rng.randrange(len(ts[d]))][rng.randrange(2)] = None  # dynamic entry: is_dense raises
    elif r < 0.08:
        d = rng.randrange(rank)
        ts[d][rng.randrange(len(ts[d]))][0] = rng.choice([1, 2, 4])  # arbitrary step: overlap or gap
    return ts


def shape_of(ts):
    out = []
    for t in ts:
        p = 1
        for _, b in t:
            p *= b if b else 1
        out.append(p)
    return out


def gen_const(rng, big=False):
    while True:
        ts = gen_layout(rng, big)
        shape = shape_of(ts)
        n = 1
        for s in shape:
            n *= s
        if n <= 2048:
            break
    el = pick_el(rng)
    hi = el_hi(el)
    data = [rng.randrange(-hi, hi) if rng.random() < 0.5 else i % hi for i in range(n)]
    return {"kind": "const", "ts": ts, "offset": rng.choice([0, 0, 0, 3]), "shape": shape, "el": el, "data": data}


def perm_cases(max_rank=3):
    """every order of the strides of layouts with up to 3 dimensions and tile depth up to 2 (bounds 2/3)"""
    for rank in range(1, max_rank + 1):
        for depths in itertools.product([1, 2], repeat=rank):
            pos = [(d, k) for d in range(rank) for k in range(depths[d])]
            if len(pos) > 4:
                continue
            bounds = {p: 2 + (i % 2) for i, p in enumerate(pos)}
            for order in itertools.permutations(pos):
                cur = 1
                step = {}
                for p in order:
                    step[p] = cur
                    cur *= bounds[p]
                ts = [[[step[(d, k)], bounds[(d, k)]] for k in range(depths[d])] for d in range(rank)]
                shape = shape_of(ts)
                n = 1
                for s in shape:
                    n *= s
                yield {"kind": "const", "ts": ts, "offset": 0, "shape": shape, "el": "i32", "data": list(range(1, n + 1))}


def gen_glob(rng):
    """an initialised global behind a layout cast: dense tsl targets (folded into the global) and targets that
    transform_constant refuses (padded / overlapping tsl, plain strided layouts): those must be realised with a copy"""
    c = gen_const(rng)
    c["kind"] = "glob"
    c["form"] = rng.choice(["direct", "chain"])
    r = rng.random()
    if r < 0.2:  # a permuted plain strided layout (e.g. column-major)
        shape = c["shape"]
        order = list(range(len(shape)))
        rng.shuffle(order)
        strides = [0] * len(shape)
        cur = 1
        for d in order:
            strides[d] = cur
            cur *= shape[d] * rng.choice([1, 1, 2])
        c["strided"] = strides
        c["offset"] = 0
    elif r < 0.4:  # padded tsl: scale the steps of the strides above a random threshold
        steps = sorted({st for t in c["ts"] for st, _ in t if st})
        if steps and all(st is not None and b is not None for t in c["ts"] for st, b in t):
            thr = rng.choice(steps)
            c["ts"] = [[[st * 2 if st > thr else st, b] for st, b in t] for t in c["ts"]]
    # the root of the chain: an initialised global, an uninitialised global or a memref arith.constant (chain form only)
    static = all(st is not None and b is not None for t in c["ts"] for st, b in t)
    if c["form"] == "chain" and static and rng.random() < 0.4:
        c["root"] = rng.choice(["uninit", "const"])
    else:
        c["root"] = "init"
    return c


def mk_tsl(ts, offset):
    from snaxc.dialects.tsl import TiledStridedLayoutAttr
    from snaxc.ir.tsl import Stride, TiledStride, TiledStridedLayout
    return TiledStridedLayoutAttr(TiledStridedLayout([TiledStride([Stride(s, b) for s, b in t]) for t in ts], offset))


def el_type(el):
    from xdsl.dialects import builtin
    if el in FLOATS:
        return {"f16": builtin.Float16Type, "f32": builtin.Float32Type, "f64": builtin.Float64Type}[el]()
    return builtin.IntegerType(ELTS[el])


def impl_const(case):
    from snaxc.transforms.realize_memref_casts import transform_constant
    from xdsl.dialects.builtin import DenseIntOrFPElementsAttr, TensorType
    attr = DenseIntOrFPElementsAttr.from_list(TensorType(el_type(case["el"]), case["shape"]),
                                              [float(v) for v in case["data"]] if case["el"] in FLOATS else case["data"])
    import warnings
    with warnings.catch_warnings():
        warnings.simplefilter("ignore")
        out = transform_constant(attr, mk_tsl(case["ts"], case["offset"]))
    if out is None:
        return {"out": None}
    return {"out": [int(v) for v in out.get_values()]}


def layout_text(ts, offset):
    parts = []
    for t in ts:
        parts.append("[" + ", ".join("?" if b is None else str(b) for _, b in t) + "] -> (" +
                     ", ".join("?" if s is None else str(s) for s, _ in t) + ")")
    return ", ".join(parts) + (f", offset: {offset}" if offset else "")


def nested_literal(vals, shape, el="i32"):
    if len(shape) <= 1:
        return "[" + ", ".join(lit(v, el) for v in vals) + "]"
    n = len(vals) // shape[0]
    return "[" + ", ".join(nested_literal(vals[i * n:(i + 1) * n], shape[1:], el) for i in range(shape[0])) + "]"


def glob_src(case):
    """direct form: layout cast applied to the global itself, consumer `test.op` (the shape of the upstream tests).
    chain form: root (global in L3 / memref constant) -> memory_space_cast to L1 -> layout cast -> accelerator op
    (what set-memory-space + set-memory-layout produce for weights)."""
    shape = "x".join(str(s) for s in case["shape"])
    el = case["el"]
    vals = ", ".join(lit(v, case["el"]) for v in case["data"])
    root = case.get("root", "init")
    if case.get("strided"):
        lay = f"strided<[{', '.join(str(x) for x in case['strided'])}]>"
    else:
        lay = f"#tsl.tsl<{layout_text(case['ts'], case['offset'])}>"
    chain = case.get("form") == "chain"
    t0 = f'memref<{shape}x{el}, "L3">' if chain and root != "const" else f"memref<{shape}x{el}>"
    args = ""
    if chain:
        rank = len(case["shape"])
        ident = "affine_map<(" + ", ".join(f"d{i}" for i in range(rank)) + ") -> (" + ", ".join(f"d{i}" for i in range(rank)) + ")>"
        ta = f'memref<{shape}x{el}, "L1">'
        t1 = f'memref<{shape}x{el}, "L1">'
        t2 = f'memref<{shape}x{el}, {lay}, "L1">'
        args = f"%a : {ta}, %b : {ta}"
        body = f'''    %1 = "memref.memory_space_cast"(%0) : ({t0}) -> {t1}
    %2 = "snax.layout_cast"(%1) : ({t1}) -> {t2}
    linalg.generic {{indexing_maps = [{ident}, {ident}, {ident}], iterator_types = [{", ".join(['"parallel"'] * rank)}]}} ins(%a, %2 : {ta}, {t2}) outs(%b : {ta}) attrs = {{tag = 1}} {{
    ^bb0(%x: {el}, %y: {el}, %z: {el}):
      %m = {'arith.mulf' if el in FLOATS else 'arith.muli'} %x, %y : {el}
      linalg.yield %m : {el}
    }}'''
    else:
        t2 = f"memref<{shape}x{el}, {lay}>"
        body = f'''    %1 = "snax.layout_cast"(%0) : ({t0}) -> {t2}
    "test.op"(%1) : ({t2}) -> ()'''
    glob = ""
    if root == "const":
        get = f"    %0 = arith.constant dense<{nested_literal(case['data'], case['shape'], el)}> : {t0}"
    else:
        init = f"initial_value = dense<[{vals}]> : tensor<{len(case['data'])}x{el}>" if root == "init" else "initial_value"
        glob = f'  "memref.global"() <{{sym_name = "g", type = {t0}, {init}, sym_visibility = "private"}}> : () -> ()\n'
        get = f'    %0 = "memref.get_global"() <{{name = @g}}> : () -> {t0}'
    return f'''builtin.module {{
{glob}  func.func @f({args}) {{
{get}
{body}
    func.return
  }}
}}
'''


def type_addrs(t):
    """storage offset of every logical index (row-major order of the indices) of a memref type; own arithmetic"""
    from xdsl.dialects import builtin
    from snaxc.dialects.tsl import TiledStridedLayoutAttr
    shape = list(t.get_shape())
    idxs = list(itertools.product(*[range(n) for n in shape]))
    lay = t.layout
    if isinstance(lay, builtin.NoneAttr):
        return list(range(len(idxs)))
    if isinstance(lay, builtin.StridedLayoutAttr):
        strides = lay.get_strides()
        off = lay.get_offset() or 0
        return [off + sum(i * st for i, st in zip(idx, strides)) for idx in idxs]
    if isinstance(lay, TiledStridedLayoutAttr):
        ts = [[(st.step, st.bound) for st in t_.strides] for t_ in lay.data.tstrides]
        off = lay.data.offset or 0
        return [off + addr_of(ts, idx) for idx in idxs]
    raise NotImplementedError(str(lay))


def target_layout_is(t, case):
    """the layout of the memref type is the cast's target layout"""
    from xdsl.dialects import builtin
    return not isinstance(t.layout, builtin.NoneAttr)


def impl_glob(case):
    """The same transformation through `realize-memref-casts` (ApplyLayoutCast{MemrefGlobal,ArithConstant}, or alloc +
    copy when the constant is not transformed). `out` = dense data of the re-laid-out root (None: root untouched);
    `seen` = what the consumer reads through the operand that stems from the root, logical index by logical index, when
    the lowered function is executed on flat memories (address = layout of the type); `operands` = how every operand
    of the consumer is produced (defining op, memory space, layout, copies that fill it) - the cast structure."""
    from xdsl.dialects import arith, builtin, func, linalg, memref
    from xdsl.ir import BlockArgument
    from snaxc.dialects.snax import LayoutCast
    import warnings
    with warnings.catch_warnings():
        warnings.simplefilter("ignore")
        m = fpasses(glob_src(case), "realize-memref-casts")
    m.verify()
    res = {"out": None}
    gmem = {}
    for op in m.walk():
        if isinstance(op, memref.GlobalOp):
            if isinstance(op.initial_value, builtin.DenseIntOrFPElementsAttr):
                vals = [int(v) for v in op.initial_value.get_values()]
                gmem[op.sym_name.data] = dict(enumerate(vals))
                if op.sym_name.data == "g_transformed":
                    res["out"] = vals
            else:
                gmem[op.sym_name.data] = {}
                if op.sym_name.data == "g_transformed":
                    res["out"] = "uninitialised"
    mem_of = {}
    fills = {}
    seen = None
    operands = None

    def desc(v):
        if isinstance(v, BlockArgument):
            return {"op": "arg", "space": space_name(v.type)}
        o = v.owner
        d = {"space": space_name(v.type), "target_layout": target_layout_is(v.type, case)}
        if isinstance(o, memref.AllocOp):
            d.update(op="alloc", filled_from=[desc(x) for x in fills.get(v, [])])
        elif isinstance(o, memref.GetGlobalOp):
            d.update(op="get_global", name=o.name_.root_reference.data)
        elif isinstance(o, arith.ConstantOp):
            d.update(op="constant")
        elif isinstance(o, (memref.MemorySpaceCastOp, LayoutCast)):
            d.update(op=o.name, of=desc(o.operands[0]))
        else:
            d.update(op=o.name)
        return d

    f = [o for o in m.walk() if isinstance(o, func.FuncOp)][0]
    for a in f.body.block.args:
        mem_of[a] = {}
    for op in f.body.block.ops:
        if isinstance(op, memref.GetGlobalOp):
            mem_of[op.memref] = gmem[op.name_.root_reference.data]
        elif isinstance(op, arith.ConstantOp):
            vals = [int(v) for v in op.value.get_values()]
            mem_of[op.result] = dict(enumerate(vals))  # the dense data is the storage image
            if target_layout_is(op.result.type, case):
                res["out"] = vals
        elif isinstance(op, memref.AllocOp):
            mem_of[op.memref] = {}
        elif isinstance(op, memref.MemorySpaceCastOp):
            mem_of[op.dest] = mem_of[op.source]
        elif isinstance(op, LayoutCast):
            if op.dest.uses.get_length():
                seen = "a layout cast with uses survived the pass"
            mem_of[op.dest] = mem_of[op.source]
        elif isinstance(op, memref.CopyOp):
            sm, dm = mem_of[op.source], mem_of[op.destination]
            vals = [sm.get(x, "uninit") for x in type_addrs(op.source.type)]
            for x, v in zip(type_addrs(op.destination.type), vals):
                dm[x] = v
            fills.setdefault(op.destination, []).append(op.source)
        elif (op.name == "test.op" or isinstance(op, linalg.GenericOp)) and operands is None:
            v = op.operands[-1] if op.name == "test.op" else op.operands[1]
            if seen is None:
                seen = [mem_of[v].get(x, "uninit") for x in type_addrs(v.type)]
            operands = [desc(x) for x in op.operands]
            res["accelerator"] = isinstance(op, linalg.GenericOp)
    res["seen"] = seen
    res["operands"] = operands
    return res


def predict_glob(case, fold):
    """Model side of the structure: what the consumer's operands look like after the pass, given whether the root is
    re-laid-out at compile time (`fold` = answer of the Lean model of transform_constant)."""
    root = case.get("root", "init")
    chain = case.get("form") == "chain"
    rspace = "none" if (root == "const" or not chain) else "L3"
    if root == "const":
        src = {"op": "constant", "space": rspace, "target_layout": fold}
    else:
        src = {"op": "get_global", "name": "g_transformed" if fold else "g", "space": rspace, "target_layout": fold}
    if not chain:
        if fold:  # the layout cast disappears, the consumer uses the re-laid-out global
            return [src]
        return [{"op": "alloc", "space": rspace, "target_layout": True, "filled_from": [src]}]
    arg = {"op": "arg", "space": "L1"}
    return [arg, {"op": "alloc", "space": "L1", "target_layout": True, "filled_from": [src]}, arg]


def oracle_glob(case, out):
    if "raised" in out:
        return []
    idxs = list(itertools.product(*[range(n) for n in case["shape"]]))
    if case.get("strided"):
        addrs = [sum(i * st for i, st in zip(idx, case["strided"])) for idx in idxs]
    else:
        addrs = [addr_of(case["ts"], idx) for idx in idxs]
    v = []
    if out.get("accelerator"):
        bad = [i for i, d in enumerate(out["operands"]) if d["space"] != "L1"]
        if bad:
            v.append({"what": f"operands {bad} of the accelerator op do not live in L1 after realize-memref-casts: "
                              f"{[out['operands'][i]['op'] + ' in ' + str(out['operands'][i]['space']) for i in bad]}", "finding": None})
    if len(set(addrs)) != len(addrs):
        return v  # the target layout maps two elements to one address: outside the quantifier (C09's subject)
    if case.get("root", "init") == "uninit":
        return v  # nothing to read
    if out["seen"] != case["data"]:
        moved = isinstance(out.get("out"), list)
        fid = "DC12d" if moved and case.get("offset") else None
        bad = out["seen"] if isinstance(out["seen"], str) else next(
            (f"logical element #{i}: {x} instead of {y}" for i, (x, y) in enumerate(zip(out["seen"], case["data"])) if x != y), "length")
        v.append({"what": f"the consumer of a layout cast of an initialised global / constant does not read the root's values ({bad}; "
                          f"new data: {'yes' if moved else out.get('out')})", "finding": fid})
    return v


def addr_of(ts, idx):
    """address of a logical index: sum of step * mixed-radix digit (independent of the model and of get_affine_map)"""
    a = 0
    for t, i in zip(ts, idx):
        for k, (s, b) in enumerate(t):
            inner = 1
            for _, b2 in t[k + 1:]:
                inner *= b2
            a += s * ((i // inner) % b)
    return a


def oracle_const(case, out):
    if "raised" in out or out.get("out") is None:
        return []
    ts = case["ts"]
    if any(s is None or b is None for t in ts for s, b in t):
        return [{"what": "a dynamic layout was used to re-lay-out a constant", "finding": None}]
    data = case["data"]
    new = out["out"]
    shape = case["shape"]
    for idx in itertools.product(*[range(s) for s in shape]):
        lin = 0
        for i, s in zip(idx, shape):
            lin = lin * s + i
        a = addr_of(ts, idx)
        if a >= len(new) or lin >= len(data) or new[a] != data[lin]:
            return [{"what": f"re-laid-out constant: logical element {list(idx)} (= {data[lin] if lin < len(data) else '?'}) is not at "
                             f"address {a} of the new data", "finding": None}]
    return []


# ------------------------------------------------------------------------------------------------
# set-memory-space
# ------------------------------------------------------------------------------------------------

def gen_memspace(rng):
    nargs = rng.randint(1, 4)
    spaces = [rng.choice([None, None, "L1", "L3"]) for _ in range(nargs)]
    vis = rng.choice(["public", "public", None, "private"])
    nall = rng.randint(0, 2)
    allocs = [rng.choice([None, "L1", "L3"]) for _ in range(nall)]
    nglob = rng.randint(0, 1)
    vals = [f"a{i}" for i in range(nargs)] + [f"m{i}" for i in range(nall)] + [f"g{i}" for i in range(nglob)]
    nops = rng.randint(1, 4)
    ops = []
    for t in range(nops):
        ops.append([rng.choice(vals), rng.choice(vals), rng.random() < 0.25])  # in, out, inside a loop
    ret = rng.choice([None, None] + vals[:nargs + nall])
    return {"kind": "memspace", "vis": vis, "args": spaces, "allocs": allocs, "nglob": nglob, "ops": ops, "ret": ret}


def mty(space):
    return "memref<16xi32>" if space is None else f'memref<16xi32, "{space}">'


def memspace_src(case):
    tys = {}
    args = []
    for i, s in enumerate(case["args"]):
        tys[f"a{i}"] = mty(s)
        args.append(f"%a{i} : {mty(s)}")
    lines = []
    for i in range(case["nglob"]):
        lines.append(f'  "memref.global"() <{{sym_name = "gl{i}", type = memref<16xi32>, initial_value, sym_visibility = "private"}}> : () -> ()')
    vis = f"{case['vis']} " if case["vis"] else ""
    ret = case["ret"]
    for i, s in enumerate(case["allocs"]):
        tys[f"m{i}"] = mty(s)
    for i in range(case["nglob"]):
        tys[f"g{i}"] = mty(None)
    rty = f" -> {tys[ret]}" if ret else ""
    lines.append(f"  func.func {vis}@f({', '.join(args + ['%lb : index', '%ub : index', '%st : index'])}){rty} {{")
    for i, s in enumerate(case["allocs"]):
        lines.append(f'    %m{i} = "memref.alloc"() <{{operandSegmentSizes = array<i32: 0, 0>}}> : () -> {mty(s)}')
    for i in range(case["nglob"]):
        lines.append(f'    %g{i} = "memref.get_global"() <{{name = @gl{i}}}> : () -> memref<16xi32>')
    for t, (a, b, inloop) in enumerate(case["ops"]):
        ind = "    "
        if inloop:
            lines.append("    scf.for %i" + str(t) + " = %lb to %ub step %st {")
            ind = "      "
        lines.append(f'{ind}linalg.generic {{indexing_maps = [affine_map<(d0) -> (d0)>, affine_map<(d0) -> (d0)>], iterator_types = ["parallel"]}} '
                     f'ins(%{a} : {tys[a]}) outs(%{b} : {tys[b]}) attrs = {{tag = {t}}} {{')
        lines.append(f"{ind}^bb0(%x{t}: i32, %y{t}: i32):")
        lines.append(f"{ind}  linalg.yield %x{t} : i32")
        lines.append(f"{ind}}}")
        if inloop:
            lines.append("    }")
    lines.append(f"    func.return{' %' + ret + ' : ' + tys[ret] if ret else ''}")
    lines.append("  }")
    return "builtin.module {\n" + "\n".join(lines) + "\n}\n"


def space_name(t):
    from xdsl.dialects import builtin
    if not isinstance(t, builtin.MemRefType):
        return None
    ms = t.memory_space
    if isinstance(ms, builtin.NoneAttr):
        return "none"
    if isinstance(ms, builtin.StringAttr) and ms.data in ("L1", "L3"):
        return ms.data
    return "other"


def dominance_ok(module):
    """every operand is defined earlier in the same block or in an enclosing block / as a block argument of one"""
    from xdsl.ir import BlockArgument
    for op in module.walk():
        for v in op.operands:
            if isinstance(v, BlockArgument):
                blk = v.block
                o = op
                ok = False
                while o is not None:
                    if o.parent_block() is blk:
                        ok = True
                        break
                    o = o.parent_op()
                if not ok:
                    return False
                continue
            d = v.owner
            o = op
            ok = False
            while o is not None:
                if o.parent_block() is d.parent_block():
                    pb = o.parent_block()
                    ok = pb.get_operation_index(d) < pb.get_operation_index(o)
                    break
                o = o.parent_op()
            if not ok:
                return False
    return True


def impl_memspace(case):
    from xdsl.dialects import func, linalg, memref
    src = memspace_src(case)
    try:
        fparse(src).verify()
    except Exception as e:  # the generator produced an invalid input: not the code's problem
        return {"invalid_input": type(e).__name__}
    from snaxc.transforms.set_memory_space import SetMemorySpace
    m = fparse(src)
    SetMemorySpace().apply(_ctx(), m)
    f = [o for o in m.walk() if isinstance(o, func.FuncOp)][0]
    operands = {}
    for op in m.walk():
        if isinstance(op, linalg.GenericOp):
            operands[op.attributes["tag"].value.data] = [space_name(v.type) for v in op.operands]
    allocs = [space_name(op.memref.type) for op in m.walk() if isinstance(op, memref.AllocOp)]
    globs = [space_name(op.memref.type) for op in m.walk() if isinstance(op, memref.GetGlobalOp)]
    rets = [[space_name(v.type) for v in op.arguments] for op in m.walk() if isinstance(op, func.ReturnOp)]
    valid = True
    why = None
    try:
        m.verify()
    except Exception as e:
        valid, why = False, f"verify: {type(e).__name__}"
    if valid and not dominance_ok(m):
        valid, why = False, "an operand is used outside the region that defines it"
    return {"ins": [space_name(t) for t in f.function_type.inputs], "outs": [space_name(t) for t in f.function_type.outputs],
            "blockargs": [space_name(a.type) for a in f.body.block.args],
            "operands": [operands[k] for k in sorted(operands)], "allocs": allocs, "globals": globs, "returns": rets,
            "valid": valid, "why": why}


def oracle_memspace(case, out):
    if "raised" in out or "invalid_input" in out:
        return []
    v = []
    for ops in out["operands"]:
        if any(s is not None and s != "L1" for s in ops):
            v.append({"what": f"an accelerator operand is not in L1 after set-memory-space: {ops}", "finding": None})
    orig_in = [s if s else "none" for s in case["args"]] + [None, None, None]
    for o, n in zip(orig_in, out["ins"]):
        if not (o == n or (o == "none" and n == "L3")):
            v.append({"what": f"function argument memory space changed {o} -> {n}", "finding": None})
    if out["ins"] != out["blockargs"]:
        v.append({"what": "entry block argument types differ from the signature", "finding": None})
    for r in out["returns"]:
        if r != out["outs"]:
            v.append({"what": f"returned value space {r} differs from the declared result {out['outs']}", "finding": None})
    if not out["valid"]:
        # the one known way to get there: a cast created inside a loop is re-used for a later op outside of it
        reuse = False
        seen_in_loop = set()
        for a, b, inloop in case["ops"]:
            for x in (a, b):
                if x in seen_in_loop:
                    reuse = True
            if inloop:
                seen_in_loop.update([a, b])
        v.append({"what": f"set-memory-space produced invalid IR ({out['why']})", "finding": "DC12c" if reuse else None})
    return v


# ------------------------------------------------------------------------------------------------
# realize-memref-casts
# ------------------------------------------------------------------------------------------------
# values: a, b (L1 arguments), g, k (L3 arguments), m (an L1 allocation), h (a global in L3),
#         c<n> = cast number n. A cast is [source value name, kind] with kind "ms" (memory_space_cast to L1) or
#         "lc" (snax.layout_cast of an L1 value to a TSL layout). Body items: ["op", tag, in1, in2, out],
#         ["copy", tag, src, dst] (an original memref.copy), ["for", [items]].

BASES = {"a": 0, "b": 1, "g": 2, "k": 3, "m": 4, "h": 5}
NCELL = 2  # cells per buffer


def cells_of_base(name):
    return [BASES[name] * NCELL + i for i in range(NCELL)]


def gen_realize(rng, big=False):
    ncast = rng.choice([1, 1, 2, 2, 3])
    casts = []
    pool = ["g", "k", "h"]
    rng.shuffle(pool)
    for n in range(ncast):
        if n > 0 and rng.random() < 0.3:
            src = f"c{rng.randrange(n)}"
            kind = "lc"
            b0 = src
            while b0.startswith("c"):
                b0 = casts[int(b0[1:])][0]
            # layout casts of a global are applied to the global itself (kind "glob"), not realised: keep them apart
            if vtype_of(src, casts) != T1 or b0 == "h":
                src, kind = rng.choice(["g", "k", "h"]), "ms"
        else:
            src, kind = (pool[n % 3] if rng.random() < 0.85 else rng.choice(["g", "k", "h"])), "ms"
        casts.append([src, kind])
    names = ["a", "b", "m"] + [f"c{n}" for n in range(ncast)] * 2
    direct = rng.random() < 0.1  # sometimes address a cast source directly
    if direct:
        names = names + ["g", "k"]
    tag = [0]

    def body(depth, n):
        items = []
        for _ in range(n):
            r = rng.random()
            if r < 0.22 and depth < 2:
                items.append(["for", body(depth + 1, rng.randint(1, 3))])
            elif r < 0.28:
                tag[0] += 1
                s, d = rng.choice(["a", "b", "m"]), rng.choice(["a", "b", "m"])
                items.append(["copy", tag[0], s, d])
            else:
                tag[0] += 1
                items.append(["op", tag[0], rng.choice(names), rng.choice(names), rng.choice(names)])
        return items

    b = body(0, rng.randint(1, 5 if not big else 8))
    # casts that nobody uses are dead: give each cast one use
    used = set()

    def collect(items):
        for it in items:
            if it[0] == "op":
                used.update(it[2:5])
            elif it[0] == "for":
                collect(it[1])
    collect(b)
    for n in range(ncast):
        if f"c{n}" not in used:
            tag[0] += 1
            role = rng.randrange(3)
            ops = ["a", "b", "a"]
            ops[role] = f"c{n}"
            b.insert(rng.randrange(len(b) + 1), ["op", tag[0], *ops])
    where = rng.choice(["top", "top", "top", "loop"])  # the casts sit at the top of the function or inside a loop with the body
    ret = f"c{rng.randrange(ncast)}" if where == "top" and rng.random() < 0.15 else None  # the function returns a cast value
    return {"kind": "realize", "casts": casts, "body": b, "where": where, "ret": ret}


def vtype_of(name, casts):
    if name in ("a", "b", "m"):
        return T1
    if name in ("g", "k", "h"):
        return T3
    src, kind = casts[int(name[1:])]
    return T1 if kind == "ms" else T1L


def realize_src(case):
    casts = case["casts"]
    lines = ["builtin.module {",
             '  "memref.global"() <{sym_name = "hh", type = memref<64xi32, "L3">, initial_value, sym_visibility = "private"}> : () -> ()',
             f"  func.func @f(%a : {T1}, %b : {T1}, %g : {T3}, %k : {T3}, %lb : index, %ub : index, %st : index)"
             + (f" -> {vtype_of(case['ret'], casts)}" if case.get("ret") else "") + " {",
             f'    %m = "memref.alloc"() <{{operandSegmentSizes = array<i32: 0, 0>}}> : () -> {T1}',
             f'    %h = "memref.get_global"() <{{name = @hh}}> : () -> {T3}']
    ind = "    "
    if case["where"] == "loop":
        lines.append("    scf.for %iv = %lb to %ub step %st {")
        ind = "      "
    for n, (src, kind) in enumerate(casts):
        st = vtype_of(src, casts)
        dt = vtype_of(f"c{n}", casts)
        opn = "memref.memory_space_cast" if kind == "ms" else "snax.layout_cast"
        lines.append(f'{ind}%c{n} = "{opn}"(%{src}) : ({st}) -> {dt}')
    cnt = [0]

    def emit(items, ind):
        for it in items:
            if it[0] == "for":
                cnt[0] += 1
                lines.append(f"{ind}scf.for %i{cnt[0]} = %lb to %ub step %st {{")
                emit(it[1], ind + "  ")
                lines.append(f"{ind}}}")
            elif it[0] == "copy":
                _, t, s, d = it
                lines.append(f'{ind}"memref.copy"(%{s}, %{d}) {{tag = {t}}} : ({vtype_of(s, casts)}, {vtype_of(d, casts)}) -> ()')
            else:
                _, t, x, y, z = it
                lines.append(f'{ind}linalg.generic {{indexing_maps = [affine_map<(d0) -> (d0)>, affine_map<(d0) -> (d0)>, affine_map<(d0) -> (d0)>], '
                             f'iterator_types = ["parallel"]}} ins(%{x}, %{y} : {vtype_of(x, casts)}, {vtype_of(y, casts)}) '
                             f'outs(%{z} : {vtype_of(z, casts)}) attrs = {{tag = {t}}} {{')
                lines.append(f"{ind}^bb0(%x{t}: i32, %y{t}: i32, %z{t}: i32):")
                lines.append(f"{ind}  %w{t} = arith.muli %x{t}, %y{t} : i32")
                lines.append(f"{ind}  linalg.yield %w{t} : i32")
                lines.append(f"{ind}}}")
    emit(case["body"], ind)
    if case["where"] == "loop":
        lines.append("    }")
    ret = case.get("ret")
    lines += [f"    func.return %{ret} : {vtype_of(ret, casts)}" if ret else "    func.return", "  }", "}"]
    return "\n".join(lines) + "\n"


# -- symbolic single-core interpreter on xDSL IR (oracle) -------------------------------------------

class Sym:
    """Buffers hold symbolic terms. Terms are hash-consed into integers (`tbl`, shared by the runs that are compared)
    so that deep histories stay cheap to compare."""

    def __init__(self, trips, tbl):
        self.trips = trips
        self.tbl = tbl
        self.entry = 0
        self.mem = {}
        self.log = []
        self.fresh = 0

    def mk(self, key):
        return self.tbl.setdefault(key, len(self.tbl))

    def rd(self, b):
        if b not in self.mem:
            self.mem[b] = self.mk(("init", b))
        return self.mem[b]

    def run(self, block, env):
        from xdsl.dialects import arith, func, linalg, memref, scf
        from snaxc.dialects.snax import LayoutCast
        for op in block.ops:
            if isinstance(op, (memref.MemorySpaceCastOp, LayoutCast)):
                env[op.results[0]] = env[op.operands[0]]
            elif isinstance(op, memref.AllocOp):
                self.fresh += 1
                buf = ("alloc", op.memref.name_hint or f"new{self.fresh}")
                env[op.memref] = buf
                self.mem[buf] = self.mk(("uninit",))
            elif isinstance(op, memref.GetGlobalOp):
                env[op.memref] = ("glob", op.name_.root_reference.data)
            elif isinstance(op, memref.CopyOp):
                self.mem[env[op.destination]] = self.rd(env[op.source])
            elif isinstance(op, linalg.GenericOp):
                tag = op.attributes["tag"].value.data
                ins = tuple(self.rd(env[v]) for v in op.inputs)
                self.log.append((tag, ins))
                for j, v in enumerate(op.outputs):
                    self.mem[env[v]] = self.mk(("f", tag, j, len(self.log), ins))
            elif isinstance(op, scf.ForOp):
                n = self.trips[self.entry % len(self.trips)]
                self.entry += 1
                for _ in range(n):
                    self.run(op.body.block, env)
            elif isinstance(op, func.ReturnOp):
                self.log.append(("return", tuple(self.rd(env[v]) for v in op.arguments)))
            elif isinstance(op, (arith.ConstantOp, scf.YieldOp, memref.DimOp)):
                pass
            else:
                raise NotImplementedError(op.name)


TRIPS = [[0], [1], [2], [1, 0, 2], [0, 1], [2, 1, 0, 1]]


def simulate(module, trips, tbl):
    from xdsl.dialects import func
    f = [o for o in module.walk() if isinstance(o, func.FuncOp)][0]
    s = Sym(trips, tbl)
    env = {}
    for arg, name in zip(f.body.block.args, ["a", "b", "g", "k", "lb", "ub", "st"]):
        env[arg] = ("arg", name)
    s.run(f.body.block, env)
    obs = {str(k): s.rd(k) for k in [("arg", "a"), ("arg", "b"), ("arg", "g"), ("arg", "k"), ("glob", "hh"), ("alloc", "m")]}
    return s.log, obs


# -- IR -> model block, relative to one cast ----------------------------------------------------------

def resolve(v, castinfo):
    """base buffer name behind a value, looking through casts (before) and stand-in allocations (after)"""
    from xdsl.ir import BlockArgument
    from xdsl.dialects import memref
    from snaxc.dialects.snax import LayoutCast
    while True:
        if isinstance(v, BlockArgument):
            return ["a", "b", "g", "k"][v.index]
        op = v.owner
        if isinstance(op, (memref.MemorySpaceCastOp, LayoutCast)):
            v = op.operands[0]
        elif isinstance(op, memref.GetGlobalOp):
            return "h"
        elif isinstance(op, memref.AllocOp):
            hint = v.name_hint
            if hint == "m":
                return "m"
            return castinfo[hint]  # stand-in of cast <hint>: treated as an alias of the cast's source
        else:
            raise NotImplementedError(op.name)


def to_blk(block, me, castinfo, counter):
    """`me` = the SSA value of the cast (before) or of its stand-in allocation (after)"""
    from xdsl.dialects import func, linalg, memref, scf
    src_base = castinfo[me.name_hint]
    out = []
    for op in block.ops:
        if isinstance(op, linalg.GenericOp):
            def opd(v):
                return "cast" if v is me else cells_of_base(resolve(v, castinfo))
            out.append(["leaf", op.attributes["tag"].value.data, [opd(v) for v in op.inputs], [opd(v) for v in op.outputs]])
        elif isinstance(op, memref.CopyOp):
            if "tag" in op.attributes:
                out.append(["copy", cells_of_base(resolve(op.source, castinfo)), cells_of_base(resolve(op.destination, castinfo))])
            elif op.destination is me and resolve(op.source, {**castinfo, me.name_hint: None}) == src_base:
                out.append(["copyIn"])
            elif op.source is me and resolve(op.destination, {**castinfo, me.name_hint: None}) == src_base:
                out.append(["copyOut"])
            # copies inserted for other casts: those casts are treated as aliases here, the copies do nothing
        elif isinstance(op, func.ReturnOp) and any(v is me for v in op.arguments):
            out.append(["leaf", 9999, ["cast"], []])
        elif isinstance(op, scf.ForOp):
            counter[0] += 1
            lid = counter[0]
            out.append(["loop", lid, to_blk(op.body.block, me, castinfo, counter)])
    return out


def impl_realize(case):
    from xdsl.dialects import func, memref
    from snaxc.dialects.snax import LayoutCast
    src = realize_src(case)
    try:
        before = fparse(src)
        before.verify()
    except Exception as e:
        return {"invalid_input": f"{type(e).__name__}: {str(e)[:100]}"}
    try:
        after = fpasses(src, "realize-memref-casts")
        after.verify()
    except Exception as e:  # the input verified: the pass broke the IR (or crashed) on a program of the quantifier
        return {"per": [], "sem": {"trips": [], "what": f"the IR is invalid ({type(e).__name__}: {str(e)[:120]})"},
                "casts_left_with_uses": []}
    casts = case["casts"]
    castinfo = {}
    for n, (s, kind) in enumerate(casts):
        castinfo[f"c{n}"] = castinfo[s] if s in castinfo else s
    # per cast: block before / after
    per = []
    bcasts = {op.results[0].name_hint: op.results[0] for op in before.walk()
              if isinstance(op, (memref.MemorySpaceCastOp, LayoutCast))}
    aallocs = {op.memref.name_hint: op.memref for op in after.walk() if isinstance(op, memref.AllocOp)}
    left = [op.results[0].name_hint for op in after.walk() if isinstance(op, (memref.MemorySpaceCastOp, LayoutCast))
            and op.results[0].uses.get_length() > 0]
    for n in range(len(casts)):
        name = f"c{n}"
        v = bcasts[name]
        leaf_uses = [u for u in v.uses if not isinstance(u.operation, (memref.MemorySpaceCastOp, LayoutCast))]  # incl. func.return
        if not leaf_uses:
            continue
        if name not in aallocs:
            per.append({"cast": name, "src": cells_of_base(castinfo[name]), "alloc": [100 + n * NCELL + i for i in range(NCELL)],
                        "before": to_blk(v.owner.parent_block(), v, castinfo, [0]), "after": None})
            continue
        w = aallocs[name]
        per.append({"cast": name, "src": cells_of_base(castinfo[name]), "alloc": [100 + n * NCELL + i for i in range(NCELL)],
                    "before": to_blk(v.owner.parent_block(), v, castinfo, [0]),
                    "after": to_blk(w.owner.parent_block(), w, castinfo, [0])})
    # oracle: symbolic runs before / after
    sem = None
    for trips in TRIPS:
        tbl = {}
        lb, ob = simulate(before, trips, tbl)
        la, oa = simulate(after, trips, tbl)
        if lb != la:
            k = next((i for i, (x, y) in enumerate(zip(lb, la)) if x != y), min(len(lb), len(la)))
            sem = {"trips": trips, "what": f"operation #{k} (tag {lb[k][0] if k < len(lb) else '?'}) reads different data"}
            break
        if ob != oa:
            bad = sorted(str(k) for k in set(ob) | set(oa) if ob.get(k) != oa.get(k))
            sem = {"trips": trips, "what": f"final content of {bad} differs"}
            break
    return {"per": per, "sem": sem, "casts_left_with_uses": left}


# ------------------------------------------------------------------------------------------------
# set-memory-space + realize-memref-casts end to end ("pipe")
# ------------------------------------------------------------------------------------------------
# values: x, y, z (memref<16xi32>, function arguments without memory space), u, w (memref<8xi32>), and subviews of
# halves defined at the top of the function: "lo_x" = x[0:8], "hi_x" = x[8:16], ... Body items: ["op", tag, in1, in2, out]
# (accelerator op on values of one length), ["hcopy", src, dst] (host memref.copy), ["for", [items]].
# Memory is tracked in cells of 8 elements, so a subview is one cell of its base.

PIPE16 = ["x", "y", "z"]
PIPE8 = ["u", "w"]


def pipe_ty(v):
    if v in PIPE16:
        return "memref<16xi32>"
    if v in PIPE8:
        return "memref<8xi32>"
    return f"memref<8xi32, strided<[1], offset: {0 if v.startswith('lo') else 8}>>"


def pipe_cells(v):
    if v in PIPE16:
        return {(v, 0), (v, 1)}
    if v in PIPE8:
        return {(v, 0)}
    return {(v[3:], 0 if v.startswith("lo") else 1)}


def gen_pipe(rng, big=False):
    subs = [f"{h}_{b}" for b in PIPE16 for h in ("lo", "hi") if rng.random() < 0.3]
    v16 = list(PIPE16)
    v8 = PIPE8 + subs * 2
    tag = [0]

    def item(depth):
        r = rng.random()
        if r < 0.3 and depth < 2:
            return ["for", [item(depth + 1) for _ in range(rng.randint(1, 3))]]
        pool = v16 if rng.random() < 0.6 else v8
        if r < 0.5:
            return ["hcopy", rng.choice(pool), rng.choice(pool)]
        tag[0] += 1
        return ["op", tag[0], rng.choice(pool), rng.choice(pool), rng.choice(pool)]
    body = [item(0) for _ in range(rng.randint(1, 4 if not big else 6))]
    return {"kind": "pipe", "subs": subs, "body": body}


def pipe_src(case):
    args = ", ".join(f"%{v} : {pipe_ty(v)}" for v in PIPE16 + PIPE8)
    lines = ["builtin.module {", f"  func.func public @f({args}, %lb : index, %ub : index, %st : index) {{"]
    for sv in case["subs"]:
        off = 0 if sv.startswith("lo") else 8
        lines.append(f"    %{sv} = memref.subview %{sv[3:]}[{off}] [8] [1] : memref<16xi32> to {pipe_ty(sv)}")
    cnt = [0]

    def emit(items, ind):
        for it in items:
            if it[0] == "for":
                cnt[0] += 1
                lines.append(f"{ind}scf.for %i{cnt[0]} = %lb to %ub step %st {{")
                emit(it[1], ind + "  ")
                lines.append(f"{ind}}}")
            elif it[0] == "hcopy":
                _, a, b = it
                lines.append(f'{ind}"memref.copy"(%{a}, %{b}) : ({pipe_ty(a)}, {pipe_ty(b)}) -> ()')
            else:
                _, t, a, b, c = it
                lines.append(f'{ind}linalg.generic {{indexing_maps = [affine_map<(d0) -> (d0)>, affine_map<(d0) -> (d0)>, affine_map<(d0) -> (d0)>], '
                             f'iterator_types = ["parallel"]}} ins(%{a}, %{b} : {pipe_ty(a)}, {pipe_ty(b)}) '
                             f'outs(%{c} : {pipe_ty(c)}) attrs = {{tag = {t}}} {{')
                lines.append(f"{ind}^bb0(%p{t}: i32, %q{t}: i32, %r{t}: i32):")
                lines.append(f"{ind}  %s{t} = arith.muli %p{t}, %q{t} : i32")
                lines.append(f"{ind}  linalg.yield %s{t} : i32")
                lines.append(f"{ind}}}")
    emit(case["body"], "    ")
    lines += ["    func.return", "  }", "}"]
    return "\n".join(lines) + "\n"


class SymC:
    """symbolic single-core interpreter with memory in cells of 8 elements (views = lists of cells)"""

    def __init__(self, trips, tbl):
        self.trips, self.tbl, self.entry, self.mem, self.log, self.fresh = trips, tbl, 0, {}, [], 0

    def mk(self, key):
        return self.tbl.setdefault(key, len(self.tbl))

    def rd(self, c):
        if c not in self.mem:
            self.mem[c] = self.mk(("init", c))
        return self.mem[c]

    def run(self, block, env):
        from xdsl.dialects import arith, func, linalg, memref, scf
        from snaxc.dialects.snax import LayoutCast
        for op in block.ops:
            if isinstance(op, (memref.MemorySpaceCastOp, LayoutCast)):
                env[op.results[0]] = env[op.operands[0]]
            elif isinstance(op, memref.SubviewOp):
                off = op.static_offsets.get_values()[0]
                size = op.static_sizes.get_values()[0]
                assert off % 8 == 0 and size % 8 == 0 and not op.offsets and not op.sizes
                env[op.result] = env[op.source][off // 8:(off + size) // 8]
            elif isinstance(op, memref.AllocOp):
                self.fresh += 1
                n = op.memref.type.get_shape()[0] // 8
                cells = [("alloc", self.fresh, i) for i in range(n)]
                for c in cells:
                    self.mem[c] = self.mk(("uninit",))
                env[op.memref] = cells
            elif isinstance(op, memref.CopyOp):
                vals = [self.rd(c) for c in env[op.source]]
                for c, v in zip(env[op.destination], vals):
                    self.mem[c] = v
            elif isinstance(op, linalg.GenericOp):
                tag = op.attributes["tag"].value.data
                ins = tuple(tuple(self.rd(c) for c in env[v]) for v in op.inputs)
                self.log.append((tag, ins))
                for j, v in enumerate(op.outputs):
                    for k, c in enumerate(env[v]):
                        self.mem[c] = self.mk(("f", tag, j, k, len(self.log), ins))
            elif isinstance(op, scf.ForOp):
                n = self.trips[self.entry % len(self.trips)]
                self.entry += 1
                for _ in range(n):
                    self.run(op.body.block, env)
            elif isinstance(op, (arith.ConstantOp, scf.YieldOp, memref.DimOp, func.ReturnOp)):
                pass
            else:
                raise NotImplementedError(op.name)


def simulate_pipe(module, trips, tbl):
    from xdsl.dialects import func
    f = [o for o in module.walk() if isinstance(o, func.FuncOp)][0]
    s = SymC(trips, tbl)
    env = {}
    for arg, name in zip(f.body.block.args, PIPE16 + PIPE8):
        env[arg] = [(name, i) for i in range(2 if name in PIPE16 else 1)]
    s.run(f.body.block, env)
    obs = {f"{n}[{i}]": s.rd((n, i)) for n in PIPE16 + PIPE8 for i in range(2 if n in PIPE16 else 1)}
    return s.log, obs


def pipe_ids(case):
    return {n: i for i, n in enumerate(PIPE16 + PIPE8 + sorted(case["subs"]))}


def pipe_model_body(case):
    ids = pipe_ids(case)

    def conv(items):
        out = []
        for it in items:
            if it[0] == "for":
                out.append(["loop", conv(it[1])])
            elif it[0] == "op":
                out.append(["op", [ids[it[2]], ids[it[3]], ids[it[4]]]])
            else:
                out.append(["op", []])  # a host copy: occupies a position, needs no cast
        return out
    return conv(case["body"])


def pipe_cast_assignment(case, src):
    """run set-memory-space alone; for every operand of every accelerator op: [path of the op, value id, position of the
    memory_space_cast that feeds it] (positions = paths over the original items: casts and subviews are not counted)"""
    from xdsl.dialects import func, linalg, memref, scf
    from xdsl.ir import BlockArgument
    from snaxc.transforms.set_memory_space import SetMemorySpace
    m = fparse(src)
    SetMemorySpace().apply(_ctx(), m)
    ids = pipe_ids(case)
    f = [o for o in m.walk() if isinstance(o, func.FuncOp)][0]
    pos = {}

    def number(block, pre):
        k = 0
        pending = []
        for op in block.ops:
            if isinstance(op, memref.MemorySpaceCastOp):
                pending.append(op)
            elif isinstance(op, (linalg.GenericOp, memref.CopyOp, scf.ForOp)):
                pos[op] = pre + [k]
                for c in pending:
                    pos[c] = pre + [k]
                pending = []
                if isinstance(op, scf.ForOp):
                    number(op.body.block, pre + [k])
                k += 1
    number(f.body.block, [])

    def name_of(v):
        if isinstance(v, BlockArgument):
            return (PIPE16 + PIPE8)[v.index]
        o = v.owner
        assert isinstance(o, memref.SubviewOp)
        off = o.static_offsets.get_values()[0]
        return ("lo_" if off == 0 else "hi_") + name_of(o.source)
    out = []
    for op in f.walk():
        if isinstance(op, linalg.GenericOp):
            for v in op.operands:
                if isinstance(v.owner, memref.MemorySpaceCastOp):
                    out.append([pos[op], ids[name_of(v.owner.source)], pos.get(v.owner)])
                else:
                    out.append([pos[op], None, None])
    return out


def impl_pipe(case):
    src = pipe_src(case)
    try:
        before = fparse(src)
        before.verify()
    except Exception as e:
        return {"invalid_input": f"{type(e).__name__}: {str(e)[:100]}"}
    res = impl_pipe_sem(case, src, before)
    res["casts"] = pipe_cast_assignment(case, src)
    return res


def impl_pipe_sem(case, src, before):
    try:
        after = fpasses(src, "set-memory-space,realize-memref-casts")
        after.verify()
        if not dominance_ok(after):
            raise ValueError("an operand is used outside the region that defines it")
    except Exception as e:
        return {"valid": False, "why": f"{type(e).__name__}: {str(e)[:100]}", "sem": None}
    from xdsl.dialects import linalg
    bad_space = [op.attributes["tag"].value.data for op in after.walk() if isinstance(op, linalg.GenericOp)
                 and any(space_name(v.type) != "L1" for v in op.operands)]
    sem = None
    for trips in TRIPS:
        tbl = {}
        lb, ob = simulate_pipe(before, trips, tbl)
        la, oa = simulate_pipe(after, trips, tbl)
        if lb != la:
            k = next((i for i, (x, y) in enumerate(zip(lb, la)) if x != y), min(len(lb), len(la)))
            sem = {"trips": trips, "what": f"the accelerator operation executed as #{k} (tag {lb[k][0] if k < len(lb) else '?'}) reads different data"}
            break
        if ob != oa:
            sem = {"trips": trips, "what": f"final content of {sorted(k for k in ob if ob[k] != oa[k])} differs"}
            break
    return {"valid": True, "why": None, "sem": sem, "not_l1": bad_space}


def classify_pipe(case):
    """Clauses violated by the program, following where set-memory-space puts the L1 casts of a value. Code as found:
    ONE cast per value, directly in front of its first accelerator use in walk order, shared by all uses. With FC12c: a
    use re-uses a cast only if the cast dominates it, otherwise it gets a new cast in front of itself (a group of uses
    per cast).
    c: a later use lies outside the block of the cast (DC12c, invalid IR; code as found only);  a: the last use as
    output of a cast is nested deeper than the cast (DC12a);  b: the memory of the value is touched through another
    path - another value, a host copy, another cast of the same value - between the first use of a cast and the end of
    the item holding its last use (DC12b)."""
    flat = []

    def walk(items, path):
        for i, it in enumerate(items):
            if it[0] == "for":
                walk(it[1], path + [i])
            elif it[0] == "op":
                flat.append((path + [i], "op", [it[2], it[3]], [it[4]]))
            else:
                flat.append((path + [i], "hcopy", [it[1]], [it[2]]))
    walk(case["body"], [])
    tags = set()
    vals = sorted({v for e in flat if e[1] == "op" for v in e[2] + e[3]})
    group_of = {}  # (entry index, value) -> group id
    groups = []    # (value, [entry indices])
    for v in vals:
        uses = [i for i, e in enumerate(flat) if e[1] == "op" and v in e[2] + e[3]]
        mine = []
        for i in uses:
            path = flat[i][0]
            home = None
            for g in mine:
                first = flat[groups[g][1][0]][0]
                P = first[:-1]
                if not FIX_C or (path[:len(P)] == P and path[len(P)] >= first[-1]):
                    home = g
                    break
            if home is None:
                groups.append((v, [i]))
                home = len(groups) - 1
                mine.append(home)
            else:
                groups[home][1].append(i)
            group_of[(i, v)] = home
    for g, (v, uses) in enumerate(groups):
        P = flat[uses[0]][0][:-1]
        if any(flat[i][0][:len(P)] != P for i in uses):
            tags.add("c")
            continue
        outs = [i for i in uses if v in flat[i][3]]
        if outs and len(flat[outs[-1]][0]) > len(P) + 1:
            tags.add("a")
        top_last = flat[uses[-1]][0][:len(P) + 1]
        hi = uses[-1]
        while hi + 1 < len(flat) and flat[hi + 1][0][:len(P) + 1] == top_last:
            hi += 1
        for i in range(uses[0], hi + 1):
            path, kind, r, w = flat[i]
            for x in r + w:
                if (x != v and pipe_cells(x) & pipe_cells(v)) or (x == v and kind == "hcopy") or \
                        (x == v and kind == "op" and group_of[(i, v)] != g):
                    tags.add("b")
    return tags


def oracle_pipe(case, out):
    if "invalid_input" in out or "raised" in out:
        return []
    tags = classify_pipe(case)
    v = []
    if not out["valid"]:
        return [{"what": f"set-memory-space,realize-memref-casts produced invalid IR ({out['why']})",
                 "finding": "DC12c" if "c" in tags else None}]
    if out["not_l1"]:
        v.append({"what": f"accelerator operations {out['not_l1']} have operands outside L1", "finding": None})
    if out["sem"] is not None:
        fid = "DC12b" if "b" in tags else ("DC12a" if "a" in tags else None)
        v.append({"what": f"after set-memory-space,realize-memref-casts {out['sem']['what']} (trip counts per loop entry "
                          f"{out['sem']['trips']})", "finding": fid})
    return v



# ------------------------------------------------------------------------------------------------
# dynamic shapes: run-time shape of the stand-in buffer and of the copies ("dyn")
# ------------------------------------------------------------------------------------------------
# A cast of a memref with dynamic dimensions at arbitrary positions (16x?, ?x8x?, ?x?, ...) is realised with
# `memref.dim` ops + `memref.alloc(dyn operands)`. The lowered function is executed on concrete run-time shapes:
# arith.constant / memref.dim / memref.alloc are evaluated, every memref.copy must connect two buffers of the same
# run-time shape and the accelerator op must see operands of the source's run-time shape.

def gen_dyn(rng):
    rank = rng.choice([1, 2, 2, 3, 3])
    shape = [rng.choice([None, None, 2, 3, 4, 8, 16]) for _ in range(rank)]
    if all(x is not None for x in shape) and rng.random() < 0.8:
        shape[rng.randrange(rank)] = None
    rt = [x if x is not None else rng.choice([1, 5, 7, 9, 11]) for x in shape]
    return {"kind": "dyn", "shape": shape, "rt": rt, "el": rng.choice(["i8", "i32"]),
            "roles": rng.choice(["in", "out", "both", "inout"]), "chain": rng.random() < 0.3}


def dyn_src(case):
    sh = "x".join("?" if x is None else str(x) for x in case["shape"])
    el = case["el"]
    t3, t1 = f'memref<{sh}x{el}, "L3">', f'memref<{sh}x{el}, "L1">'
    rank = len(case["shape"])
    ident = "affine_map<(" + ", ".join(f"d{i}" for i in range(rank)) + ") -> (" + ", ".join(f"d{i}" for i in range(rank)) + ")>"
    roles = case["roles"]
    lines = [f"    %c0 = \"memref.memory_space_cast\"(%g) : ({t3}) -> {t1}"]
    if case["chain"]:  # a second cast in the chain (fused into one allocation)
        lines = [f"    %m0 = \"memref.memory_space_cast\"(%g) : ({t3}) -> {t3.replace('L3', 'L2')}",
                 f"    %c0 = \"memref.memory_space_cast\"(%m0) : ({t3.replace('L3', 'L2')}) -> {t1}"]
    lines.append(f"    %c1 = \"memref.memory_space_cast\"(%k) : ({t3}) -> {t1}")
    i1, i2, o = {"in": ("c0", "a", "b"), "out": ("a", "a", "c0"), "both": ("c0", "a", "c1"), "inout": ("c0", "c0", "c0")}[roles]
    lines.append(f'    linalg.generic {{indexing_maps = [{ident}, {ident}, {ident}], iterator_types = [{", ".join([chr(34) + "parallel" + chr(34)] * rank)}]}} '
                 f'ins(%{i1}, %{i2} : {t1}, {t1}) outs(%{o} : {t1}) attrs = {{tag = 1}} {{')
    lines += [f"    ^bb0(%x: {el}, %y: {el}, %z: {el}):", f"      %w = arith.muli %x, %y : {el}", f"      linalg.yield %w : {el}", "    }"]
    body = "\n".join(lines)
    return f"""builtin.module {{
  func.func @f(%g : {t3}, %k : {t3}, %a : {t1}, %b : {t1}) {{
{body}
    func.return
  }}
}}
"""


def impl_dyn(case):
    from xdsl.dialects import arith, func, linalg, memref
    src = dyn_src(case)
    try:
        fparse(src).verify()
    except Exception as e:
        return {"invalid_input": f"{type(e).__name__}: {str(e)[:100]}"}
    m = fpasses(src, "realize-memref-casts")
    m.verify()
    f = [o for o in m.walk() if isinstance(o, func.FuncOp)][0]
    rt = list(case["rt"])
    shape_of = {a: rt for a in f.body.block.args}
    val = {}
    allocs, copies, problems = [], [], []
    op_shapes = None
    for op in f.body.block.ops:
        if isinstance(op, arith.ConstantOp):
            val[op.result] = op.value.value.data
        elif isinstance(op, memref.DimOp):
            sh, i = shape_of[op.source], val[op.index]
            if not 0 <= i < len(sh):
                problems.append(f"memref.dim index {i} outside rank {len(sh)}")
                val[op.result] = -1
            else:
                val[op.result] = sh[i]
        elif isinstance(op, memref.AllocOp):
            dyn = [val[v] for v in op.dynamic_sizes]
            dims = [val[v.owner.index] if isinstance(v.owner, memref.DimOp) else None for v in op.dynamic_sizes]
            from xdsl.dialects.builtin import DYNAMIC_INDEX
            decl = [-1 if d == DYNAMIC_INDEX else d for d in op.memref.type.get_shape()]
            if sum(1 for d in decl if d == -1) != len(dyn):
                problems.append("number of dynamic sizes of the allocation differs from the number of dynamic dimensions")
            it = iter(dyn)
            sh = [next(it, -1) if d == -1 else d for d in decl]
            shape_of[op.memref] = sh
            allocs.append({"dims": dims, "shape": sh})
        elif isinstance(op, memref.MemorySpaceCastOp):
            shape_of[op.dest] = shape_of[op.source]
        elif isinstance(op, memref.CopyOp):
            copies.append([shape_of[op.source], shape_of[op.destination]])
        elif isinstance(op, linalg.GenericOp):
            op_shapes = [shape_of[v] for v in op.operands]
    return {"allocs": allocs, "copies": copies, "op_shapes": op_shapes, "problems": problems}


def oracle_dyn(case, out):
    if "raised" in out or "invalid_input" in out:
        return []
    rt = case["rt"]
    v = [{"what": p, "finding": None} for p in out["problems"]]
    for a in out["allocs"]:
        if a["shape"] != rt:
            v.append({"what": f"the L1 buffer standing in for a cast of memref<{case['shape']}> is allocated with run-time shape "
                              f"{a['shape']} (memref.dim indices {a['dims']}), the source has {rt}", "finding": None})
    for s_, d_ in out["copies"]:
        if s_ != d_:
            v.append({"what": f"a copy connects buffers of run-time shapes {s_} and {d_}", "finding": None})
    if out["op_shapes"] is not None and any(s_ != rt for s_ in out["op_shapes"]):
        v.append({"what": f"the accelerator op sees operands of run-time shapes {out['op_shapes']}, the original operands have {rt}", "finding": None})
    return v[:3]



# ------------------------------------------------------------------------------------------------
# a global read through subviews behind layout casts ("subg": ApplyLayoutCastSubviewGlobal)
# ------------------------------------------------------------------------------------------------
# memref.global (initialised or not) -> get_global -> 1..3 subviews (tiles) -> [memory_space_cast ->] layout_cast to the
# tile layout (dense or padded tsl) -> consumer; further subviews / the get_global itself may be consumed directly. The
# lowered module is executed on flat memories: a subview addresses, inside the storage of its source, the elements it
# selects (address = layout of the SOURCE type at offset + index * stride). Clauses: every consumer reads the logical
# elements of the global that its subview selects; the layout DECLARED by the type of every consumed / copied value
# describes where its elements really are (up to the base address); a re-laid-out global does not map two elements to
# one address.

def gen_subg(rng):
    rank = rng.choice([1, 2, 2, 2])
    tb = [[rng.choice([2, 2, 3, 4]) for _ in range(rng.choice([1, 1, 2]))] for _ in range(rank)]
    pos = [(d, k) for d in range(rank) for k in range(len(tb[d]))]
    rng.shuffle(pos)
    pad = rng.random() < 0.35
    cur, step = 1, {}
    for (d, k) in pos:
        step[(d, k)] = cur
        cur *= tb[d][k]
        if pad and rng.random() < 0.5:
            cur += rng.choice([1, 2, 3, 8])  # padding behind this stride
    ts = [[[step[(d, k)], tb[d][k]] for k in range(len(tb[d]))] for d in range(rank)]
    tile = shape_of(ts)
    ntiles = [rng.choice([1, 2, 2, 3, 4]) for _ in range(rank)]
    shape = [t * n for t, n in zip(tile, ntiles)]
    if rng.random() < 0.08:
        shape[rng.randrange(rank)] += rng.randrange(1, tile[0] + 1)  # the shape is not a whole number of tiles
    nsub = rng.choice([1, 1, 1, 2, 2, 3])
    subs = []
    for i in range(nsub):
        off = [rng.randrange(n) * t for n, t in zip(ntiles, tile)]
        if rng.random() < 0.06:
            d = rng.randrange(rank)
            off[d] = min(off[d] + 1, shape[d] - tile[d])  # not aligned to the tiles
        subs.append({"off": off, "cast": i == 0 or rng.random() < 0.6, "chain": rng.random() < 0.4})
    n = 1
    for x in shape:
        n *= x
    init = rng.random() < 0.6
    el = pick_el(rng)
    hi = el_hi(el)
    return {"kind": "subg", "ts": ts, "tile": tile, "shape": shape, "subs": subs, "el": el, "direct_use": rng.random() < 0.1,
            "data": [i % hi for i in range(n)] if init else None}


def subg_src(case):
    shape, tile, el = case["shape"], case["tile"], case["el"]
    sh = "x".join(str(x) for x in shape)
    tl = "x".join(str(x) for x in tile)
    lay = f"#tsl.tsl<{layout_text(case['ts'], 0)}>"
    rs = []
    acc = 1
    for x in reversed(shape):
        rs.insert(0, acc)
        acc *= x
    g0 = f"memref<{sh}x{el}>"
    init = "initial_value" if case["data"] is None else \
        f"initial_value = dense<{nested_literal(case['data'], shape, el)}> : tensor<{sh}x{el}>"
    lines = [f'    %g = "memref.get_global"() <{{name = @g}}> : () -> {g0}']
    for i, sv in enumerate(case["subs"]):
        lin = sum(o * r for o, r in zip(sv["off"], rs))
        ts_ = f"memref<{tl}x{el}, strided<[{', '.join(str(r) for r in rs)}], offset: {lin}>>"
        lines.append(f"    %s{i} = memref.subview %g[{', '.join(str(o) for o in sv['off'])}] [{', '.join(str(t) for t in tile)}] "
                     f"[{', '.join('1' for _ in tile)}] : {g0} to {ts_}")
        v, vt = f"%s{i}", ts_
        if sv["cast"]:
            if sv["chain"]:
                t1 = ts_[:-1] + ', "L1">'
                lines.append(f'    %m{i} = "memref.memory_space_cast"({v}) : ({vt}) -> {t1}')
                t2 = f'memref<{tl}x{el}, {lay}, "L1">'
                lines.append(f'    %c{i} = "snax.layout_cast"(%m{i}) : ({t1}) -> {t2}')
            else:
                t2 = f"memref<{tl}x{el}, {lay}>"
                lines.append(f'    %c{i} = "snax.layout_cast"({v}) : ({vt}) -> {t2}')
            v, vt = f"%c{i}", t2
        lines.append(f'    "test.op"({v}) {{consumer = {i}}} : ({vt}) -> ()')
    if case["direct_use"]:
        lines.append(f'    "test.op"(%g) {{consumer = 99}} : ({g0}) -> ()')
    body = "\n".join(lines)
    return f"""builtin.module {{
  "memref.global"() <{{sym_name = "g", type = {g0}, {init}, sym_visibility = "private"}}> : () -> ()
  func.func @f() {{
{body}
    func.return
  }}
}}
"""


def type_addr_fn(t):
    """logical index -> storage offset according to the layout the type declares (own arithmetic)"""
    from xdsl.dialects import builtin
    from snaxc.dialects.tsl import TiledStridedLayoutAttr
    shape = list(t.get_shape())
    lay = t.layout
    if isinstance(lay, builtin.NoneAttr):
        def f(idx):
            a = 0
            for i, n in zip(idx, shape):
                a = a * n + i
            return a
        return f
    if isinstance(lay, builtin.StridedLayoutAttr):
        strides, off = lay.get_strides(), lay.get_offset() or 0
        return lambda idx: off + sum(i * st for i, st in zip(idx, strides))
    if isinstance(lay, TiledStridedLayoutAttr):
        ts = [[(st.step, st.bound) for st in t_.strides] for t_ in lay.data.tstrides]
        off = lay.data.offset or 0
        # the outermost digit of a dimension is not reduced (tsl semantics; matters for shapes beyond the tiles)
        def f(idx):
            a = off
            for t_, i in zip(ts, idx):
                for k, (st, b) in enumerate(t_):
                    inner = 1
                    for _, b2 in t_[k + 1:]:
                        inner *= b2
                    a += st * ((i // inner) if k == 0 else (i // inner) % b)
            return a
        return f
    raise NotImplementedError(str(lay))


def impl_subg(case):
    from xdsl.dialects import builtin, func, memref
    from snaxc.dialects.snax import LayoutCast
    from snaxc.dialects.tsl import TiledStridedLayoutAttr
    import warnings
    src = subg_src(case)
    try:
        fparse(src).verify()
    except Exception as e:
        return {"invalid_input": f"{type(e).__name__}: {str(e)[:100]}"}
    with warnings.catch_warnings():
        warnings.simplefilter("ignore")
        m = fpasses(src, "realize-memref-casts")
    m.verify()
    res = {"fires": False, "global_ts": None, "global_data": None, "problems": [], "consumers": {}}
    gmem, gtype = {}, {}
    for op in m.walk():
        if isinstance(op, memref.GlobalOp):
            name = op.sym_name.data
            gtype[name] = op.type
            if isinstance(op.initial_value, builtin.DenseIntOrFPElementsAttr):
                vals = [int(v) for v in op.initial_value.get_values()]
                gmem[name] = dict(enumerate(vals))
            else:
                gmem[name] = {}
                vals = "uninitialised"
            if name == "g_transformed":
                res["fires"] = True
                res["global_data"] = vals
                lay = op.type.layout
                if isinstance(lay, TiledStridedLayoutAttr):
                    res["global_ts"] = [[[st.step, st.bound] for st in t_.strides] for t_ in lay.data.tstrides]
                # a re-laid-out global must not map two of its elements to one address
                fn = type_addr_fn(op.type)
                idxs = list(itertools.product(*[range(n) for n in op.type.get_shape()]))
                addrs = [fn(i) for i in idxs]
                if len(set(addrs)) != len(addrs):
                    seen_at = {}
                    for i, a in zip(idxs, addrs):
                        if a in seen_at:
                            res["problems"].append(f"the re-laid-out global maps elements {list(seen_at[a])} and {list(i)} to the same address {a}")
                            break
                        seen_at[a] = i
    views = {}  # value -> (memory, [(logical index of the GLOBAL or None, address)] in row-major order of the value's indices)

    def declared_ok(v, addrs):
        fn = type_addr_fn(v.type)
        idxs = list(itertools.product(*[range(n) for n in v.type.get_shape()]))
        decl = [fn(i) for i in idxs]
        return all(d - decl[0] == a - addrs[0] for d, a in zip(decl, addrs))

    f = [o for o in m.walk() if isinstance(o, func.FuncOp)][0]
    for op in f.body.block.ops:
        if isinstance(op, memref.GetGlobalOp):
            name = op.name_.root_reference.data
            fn = type_addr_fn(op.memref.type)
            idxs = list(itertools.product(*[range(n) for n in op.memref.type.get_shape()]))
            views[op.memref] = (gmem[name], [(i, fn(i)) for i in idxs], {i: k for k, i in enumerate(idxs)})
        elif isinstance(op, memref.SubviewOp):
            mem, ent, where = views[op.source]
            offs = op.static_offsets.get_values()
            sizes = op.static_sizes.get_values()
            strs = op.static_strides.get_values()
            idxs = list(itertools.product(*[range(n) for n in sizes]))
            sel = [tuple(o + i * st for o, i, st in zip(offs, idx, strs)) for idx in idxs]
            views[op.result] = (mem, [ent[where[g]] for g in sel], {i: k for k, i in enumerate(idxs)})
        elif isinstance(op, memref.AllocOp):
            fn = type_addr_fn(op.memref.type)
            idxs = list(itertools.product(*[range(n) for n in op.memref.type.get_shape()]))
            views[op.memref] = ({}, [(None, fn(i)) for i in idxs], {i: k for k, i in enumerate(idxs)})
        elif isinstance(op, (memref.MemorySpaceCastOp, LayoutCast)):
            if isinstance(op, LayoutCast) and op.dest.uses.get_length():
                res["problems"].append("a layout cast with uses survived the pass")
            views[op.results[0]] = views[op.operands[0]]
        elif isinstance(op, memref.CopyOp):
            sm, se, _ = views[op.source]
            dm, de, _ = views[op.destination]
            if not declared_ok(op.source, [a for _, a in se]):
                res["problems"].append(f"the type of the source of a copy ({op.source.type.layout}) does not describe where its elements are")
            vals = [(g, sm.get(a, "uninit")) for g, a in se]
            views[op.destination] = (dm, [(g, a) for (g, _), (_, a) in zip(vals, de)], views[op.destination][2])
            for (g, v_), (_, a) in zip(vals, de):
                dm[a] = v_
        elif op.name == "test.op":
            v = op.operands[0]
            mem, ent, _ = views[v]
            k = op.attributes["consumer"].value.data
            if not declared_ok(v, [a for _, a in ent]):
                res["problems"].append(f"the type of the operand of consumer {k} ({v.type.layout}) does not describe where its elements are")
            res["consumers"][str(k)] = [[list(g) if g is not None else None, mem.get(a, "uninit")] for g, a in ent]
    return res


def oracle_subg(case, out):
    if "raised" in out or "invalid_input" in out:
        return []
    tags = subg_known(case)
    v = [{"what": p, "finding": tags} for p in out["problems"]]
    if case["data"] is not None:
        shape = case["shape"]
        for k, ent in out["consumers"].items():
            for g, val in ent:
                lin = 0
                for i, n in zip(g, shape):
                    lin = lin * n + i
                if val != case["data"][lin]:
                    v.append({"what": f"consumer {k} reads {val} for element {g} of the global (= {case['data'][lin]})", "finding": tags})
                    break
    return v[:4]


def subg_known(case):
    """inputs on which the unchanged code is known to go wrong (finding id) - see known_findings.d/C12.json"""
    if any(o % t for sv in case["subs"] for o, t in zip(sv["off"], case["tile"])):
        return "DC12e"  # a subview that does not start at a tile boundary
    if any(n % t for n, t in zip(case["shape"], case["tile"])):
        return "DC12f"  # the global is not a whole number of tiles
    return None


def subg_fires_pre(case):
    """the syntactic part of the guard of ApplyLayoutCastSubviewGlobal: the get_global has one use, a subview behind a cast"""
    return len(case["subs"]) == 1 and not case["direct_use"] and case["subs"][0]["cast"]



# ------------------------------------------------------------------------------------------------
# remaining patterns / passes of the anchored files ("misc"): ApplyLayoutCastMemrefAlloc, the whole
# RemoveTransposeConstants pattern, alloc-to-global, clear-memory-space
# ------------------------------------------------------------------------------------------------

def gen_misc(rng):
    sub = rng.choice(["allocroot", "allocroot", "rtc", "a2g", "cms"])
    if sub == "allocroot":
        c = gen_const(rng)
        while any(st is None or b is None for t in c["ts"] for st, b in t):
            c = gen_const(rng)
        c2 = None
        if rng.random() < 0.5:
            pos = [(d, k) for d in range(len(c["ts"])) for k in range(len(c["ts"][d]))]
            rng.shuffle(pos)
            cur, step = 1, {}
            for (d, k) in pos:
                step[(d, k)] = cur
                cur *= c["ts"][d][k][1]
            c2 = [[[step[(d, k)], c["ts"][d][k][1]] for k in range(len(c["ts"][d]))] for d in range(len(c["ts"]))]
        return {"kind": "misc", "sub": sub, "shape": c["shape"], "ts": c["ts"], "ts2": c2, "el": c["el"],
                "extra": rng.choice([None, None, None, "direct", "return"])}
    if sub == "rtc":
        rows, cols = rng.randint(1, 5), rng.randint(1, 5)
        return {"kind": "misc", "sub": sub, "shape": [rows, cols], "data": [rng.randrange(-100, 100) for _ in range(rows * cols)],
                "el": rng.choice(["i8", "i32"]), "transposing": rng.random() < 0.8}
    if sub == "a2g":
        n = rng.randint(1, 3)
        return {"kind": "misc", "sub": sub, "allocs": [{"ret": rng.random() < 0.6, "space": rng.choice([None, None, "L1"]),
                                                       "dealloc": rng.random() < 0.3, "shape": [rng.choice([2, 4, 8])]} for _ in range(n)],
                "twice": rng.random() < 0.3}
    return {"kind": "misc", "sub": "cms", "spaces": [rng.choice([None, "L1", "L3"]) for _ in range(rng.randint(1, 3))],
            "tsl": rng.random() < 0.5, "subview": rng.random() < 0.5}


def misc_src(case):
    sub = case["sub"]
    if sub == "allocroot":
        sh = "x".join(str(x) for x in case["shape"])
        el = case["el"]
        t0 = f'memref<{sh}x{el}, "L1">'
        t1 = f'memref<{sh}x{el}, #tsl.tsl<{layout_text(case["ts"], 0)}>, "L1">'
        lines = [f'    %0 = "memref.alloc"() <{{operandSegmentSizes = array<i32: 0, 0>}}> : () -> {t0}',
                 f'    %1 = "snax.layout_cast"(%0) : ({t0}) -> {t1}',
                 f'    "test.op"(%1) {{consumer = 0}} : ({t1}) -> ()']
        if case["ts2"]:
            t2 = f'memref<{sh}x{el}, #tsl.tsl<{layout_text(case["ts2"], 0)}>, "L1">'
            lines += [f'    %2 = "snax.layout_cast"(%0) : ({t0}) -> {t2}', f'    "test.op"(%2) {{consumer = 1}} : ({t2}) -> ()']
        if case["extra"] == "direct":
            lines.append(f'    "test.op"(%0) {{consumer = 2}} : ({t0}) -> ()')
        ret = f"    func.return %0 : {t0}" if case["extra"] == "return" else "    func.return"
        sig = f" -> {t0}" if case["extra"] == "return" else ""
        return "builtin.module {\n  func.func @f()" + sig + " {\n" + "\n".join(lines) + "\n" + ret + "\n  }\n}\n"
    if sub == "rtc":
        r, c = case["shape"]
        el = case["el"]
        tin, tout = f"tensor<{r}x{c}x{el}>", f"tensor<{c}x{r}x{el}>"
        m0 = "affine_map<(d0, d1) -> (d1, d0)>" if case["transposing"] else "affine_map<(d0, d1) -> (d0, d1)>"
        if not case["transposing"]:
            tout = tin
        return f"""builtin.module {{
  func.func @f() -> {tout} {{
    %c = arith.constant dense<{nested_literal(case['data'], case['shape'])}> : {tin}
    %e = tensor.empty() : {tout}
    %t = linalg.generic {{indexing_maps = [{m0}, affine_map<(d0, d1) -> (d0, d1)>], iterator_types = ["parallel", "parallel"]}} ins(%c : {tin}) outs(%e : {tout}) {{
    ^bb0(%x: {el}, %y: {el}):
      linalg.yield %x : {el}
    }} -> {tout}
    func.return %t : {tout}
  }}
}}
"""
    if sub == "a2g":
        fs = []
        for fi in range(2 if case["twice"] else 1):
            lines, rets, rtys = [], [], []
            for i, a in enumerate(case["allocs"]):
                ty = f"memref<{a['shape'][0]}xi32" + (f', "{a["space"]}">' if a["space"] else ">")
                lines.append(f'    %a{i} = "memref.alloc"() <{{operandSegmentSizes = array<i32: 0, 0>}}> : () -> {ty}')
                lines.append(f'    "test.op"(%a{i}) : ({ty}) -> ()')
                if a["dealloc"]:
                    lines.append(f'    "memref.dealloc"(%a{i}) : ({ty}) -> ()')
                if a["ret"]:
                    rets.append(f"%a{i}")
                    rtys.append(ty)
            sig = f" -> ({', '.join(rtys)})" if rtys else ""
            ret = f"    func.return {', '.join(rets)} : {', '.join(rtys)}" if rets else "    func.return"
            fs.append(f"  func.func @f{fi}(){sig} {{\n" + "\n".join(lines) + "\n" + ret + "\n  }")
        return "builtin.module {\n" + "\n".join(fs) + "\n}\n"
    # cms
    tys = []
    for sp in case["spaces"]:
        lay = ", #tsl.tsl<[2, 4] -> (4, 1)>" if case["tsl"] else ""
        tys.append(f"memref<8xi32{lay}" + (f', "{sp}">' if sp else ">"))
    args = ", ".join(f"%a{i} : {t}" for i, t in enumerate(tys))
    lines = [f'    "test.op"(%a{i}) : ({t}) -> ()' for i, t in enumerate(tys)]
    if case["subview"] and not case["tsl"]:
        sp = case["spaces"][0]
        st = "memref<4xi32, strided<[1], offset: 4>" + (f', "{sp}">' if sp else ">")
        lines.append(f"    %s = memref.subview %a0[4] [4] [1] : {tys[0]} to {st}")
        lines.append(f'    "test.op"(%s) : ({st}) -> ()')
    return f"builtin.module {{\n  func.func @f({args}) -> {tys[0]} {{\n" + "\n".join(lines) + f"\n    func.return %a0 : {tys[0]}\n  }}\n}}\n"


def impl_misc(case):
    src = misc_src(case)
    try:
        fparse(src).verify()
    except Exception as e:
        return {"invalid_input": f"{type(e).__name__}: {str(e)[:120]}"}
    try:
        return impl_misc_run(case, src)
    except Exception as e:  # the input verified: a crash / invalid IR is the code's doing
        return {"crash": f"{type(e).__name__}: {str(e)[:160]}"}


def impl_misc_run(case, src):
    from xdsl.dialects import arith, builtin, func, memref
    from xdsl.pattern_rewriter import PatternRewriteWalker
    from snaxc.dialects.snax import LayoutCast
    sub = case["sub"]
    if sub == "allocroot":
        tbefore = {str(op.attributes["consumer"].value.data): str(op.operands[0].type)
                   for op in fparse(src).walk() if op.name == "test.op"}
        m = fpasses(src, "realize-memref-casts")
        f = [o for o in m.walk() if isinstance(o, func.FuncOp)][0]
        views, seen, problems, allocs = {}, {}, [], []
        for op in m.walk():
            if op.name == "test.op":
                k = str(op.attributes["consumer"].value.data)
                if str(op.operands[0].type) != tbefore[k]:
                    problems.append(f"the operand of consumer {k} changed its type from {tbefore[k]} to {op.operands[0].type}")
        for op in f.body.block.ops:
            if isinstance(op, memref.AllocOp):
                fn = type_addr_fn(op.memref.type)
                idxs = list(itertools.product(*[range(n) for n in op.memref.type.get_shape()]))
                views[op.memref] = ({}, [fn(i) for i in idxs])
                allocs.append({"layout": str(op.memref.type.layout), "space": space_name(op.memref.type)})
            elif isinstance(op, (memref.MemorySpaceCastOp, LayoutCast)):
                if isinstance(op, LayoutCast) and op.dest.uses.get_length():
                    problems.append("a layout cast with uses survived the pass")
                views[op.results[0]] = views[op.operands[0]]
            elif isinstance(op, memref.CopyOp):
                sm, sa = views[op.source]
                dm, da = views[op.destination]
                for x, y in zip(sa, da):
                    dm[y] = sm.get(x, "uninit")
            elif op.name == "test.op":
                k = op.attributes["consumer"].value.data
                mem, ad = views[op.operands[0]]
                seen[str(k)] = [mem.get(x, "uninit") for x in ad]
                for i, x in enumerate(ad):  # an unknown op may write its operand
                    mem[x] = [k, i]
                if len(set(ad)) != len(ad):
                    problems.append("two elements of an operand share an address")
        return {"seen": seen, "problems": problems, "first_alloc": allocs[0] if allocs else None, "n_allocs": len(allocs)}
    if sub == "rtc":
        from snaxc.transforms.frontend.remove_transpose_constants import RemoveTransposeConstants
        m = fparse(src)
        PatternRewriteWalker(RemoveTransposeConstants()).rewrite_module(m)
        m.verify()
        consts = [op for op in m.walk() if isinstance(op, arith.ConstantOp)]
        from xdsl.dialects import linalg
        return {"generics": sum(1 for op in m.walk() if isinstance(op, linalg.GenericOp)),
                "consts": [{"shape": list(op.result.type.get_shape()), "values": [int(v) for v in op.value.get_values()]} for op in consts]}
    if sub == "a2g":
        from snaxc.transforms.alloc_to_global import AllocToGlobalPass
        m = fparse(src)
        AllocToGlobalPass().apply(_ctx(), m)
        m.verify()
        globs = {op.sym_name.data: str(op.type) for op in m.walk() if isinstance(op, memref.GlobalOp)}
        fs = []
        for f in [o for o in m.walk() if isinstance(o, func.FuncOp)]:
            ret = [o for o in f.walk() if isinstance(o, func.ReturnOp)][0]
            fs.append({"returns": [[type(v.owner).__name__, str(v.type), v.owner.name_.root_reference.data if isinstance(v.owner, memref.GetGlobalOp) else None]
                                   for v in ret.arguments],
                       "allocs": sum(1 for o in f.walk() if isinstance(o, memref.AllocOp)),
                       "deallocs": sum(1 for o in f.walk() if isinstance(o, memref.DeallocOp)),
                       "sig": [str(t) for t in f.function_type.outputs]})
        return {"globals": globs, "funcs": fs}
    from snaxc.transforms.clear_memory_space import ClearMemorySpace
    m = fparse(src)
    ClearMemorySpace().apply(_ctx(), m)
    m.verify()
    f = [o for o in m.walk() if isinstance(o, func.FuncOp)][0]
    tys = []
    for op in m.walk():
        for v in list(op.operands) + list(op.results):
            if isinstance(v.type, builtin.MemRefType):
                tys.append([space_name(v.type), type(v.type.layout).__name__, list(v.type.get_shape())])
    sv = [str(op.result.type.layout) for op in m.walk() if isinstance(op, memref.SubviewOp)]
    return {"sig_in": [[space_name(t), type(t.layout).__name__] for t in f.function_type.inputs],
            "sig_out": [[space_name(t), type(t.layout).__name__] for t in f.function_type.outputs],
            "blockargs": [[space_name(a.type), type(a.type.layout).__name__] for a in f.body.block.args],
            "types": tys, "subview_layouts": sv}


def model_misc(case, impl_out):
    """harness-side prediction of the structure (no Lean function behind these patterns except transposeTuple)"""
    sub = case["sub"]
    if sub == "allocroot":
        fires = case["extra"] is None
        n = 1 + (1 if (case["ts2"] and (not fires or case["ts2"] != case["ts"])) else 0) + (0 if fires else 1)
        lay = f"#tsl.tsl<{layout_text(case['ts'], 0)}>" if fires else "none"
        return {"first_alloc": {"layout": lay, "space": "L1"}, "n_allocs": n}
    return None


def oracle_misc(case, out):
    if "raised" in out or "invalid_input" in out:
        return []
    sub = case["sub"]
    v = []
    if "crash" in out:
        return [{"what": f"{sub}: the pass crashed or produced invalid IR on a valid input ({out['crash']})", "finding": None}]
    if sub == "allocroot":
        idxs = list(itertools.product(*[range(n) for n in case["shape"]]))
        for ts in (case["ts"], case["ts2"]):
            if ts and len({addr_of(ts, i) for i in idxs}) != len(idxs):
                return []  # a target layout that maps two elements to one address: outside the quantifier (C09)
        v += [{"what": p, "finding": None} for p in out["problems"]]
        n = len(out["seen"].get("0", []))
        order = [k for k in ("0", "1", "2") if k in out["seen"]]
        prev = None
        for k in order:
            want = ["uninit"] * n if prev is None else [[int(prev), i] for i in range(n)]
            if out["seen"][k] != want:
                v.append({"what": f"consumer {k} of a cast of an allocation does not read what consumer {prev} left in the buffer "
                                  f"(element 0: {out['seen'][k][:1]} instead of {want[:1]})", "finding": None})
            prev = k
    elif sub == "rtc":
        r, c = case["shape"]
        if case["transposing"]:
            want = [case["data"][j * c + i] for i in range(c) for j in range(r)]
            ok = out["generics"] == 0 and len(out["consts"]) == 1 and out["consts"][0]["shape"] == [c, r] and out["consts"][0]["values"] == want
            if not ok:
                v.append({"what": f"RemoveTransposeConstants: the folded constant is not the transpose of the original ({out['consts']})", "finding": None})
        elif out["generics"] != 1 or out["consts"][0]["values"] != case["data"]:
            v.append({"what": "RemoveTransposeConstants changed a generic that does not transpose", "finding": None})
    elif sub == "a2g":
        names = set()
        for f, fo in zip(range(len(out["funcs"])), out["funcs"]):
            want_ret = [a for a in case["allocs"] if a["ret"]]
            if len(fo["returns"]) != len(want_ret):
                v.append({"what": "alloc-to-global changed the number of returned values", "finding": None})
                continue
            for a, (owner, ty, gname) in zip(want_ret, fo["returns"]):
                if a["space"] is None:
                    if owner != "GetGlobalOp" or out["globals"].get(gname) != ty or gname in names:
                        v.append({"what": f"a returned allocation without memory space is not a distinct global of its type ({owner}, {gname})", "finding": None})
                    names.add(gname)
                elif owner != "AllocOp":
                    v.append({"what": "an allocation with a memory space was turned into a global", "finding": None})
            if fo["sig"] != [r[1] for r in fo["returns"]]:
                v.append({"what": "returned types differ from the signature after alloc-to-global", "finding": None})
    else:
        if any(t[0] != "none" for t in out["types"]) or any(t[0] != "none" for t in out["sig_in"] + out["sig_out"] + out["blockargs"]):
            v.append({"what": "a memref type still has a memory space after clear-memory-space", "finding": None})
        if out["sig_in"] != out["blockargs"]:
            v.append({"what": "clear-memory-space: entry block arguments differ from the signature", "finding": None})
        if any(t[1] == "TiledStridedLayoutAttr" for t in out["types"]):
            v.append({"what": "a tsl layout survives clear-memory-space", "finding": None})
    return v[:3]



# -- syntactic clauses of the partial theorem, evaluated on the generated program (harness side) ---------

def classify(case):
    """Which named clause does the program violate?  DC12a: the last use as output of some cast is nested deeper than
    the cast.  DC12b: the source of a cast is addressed through another path (directly or through another cast) between
    the first and the last use of the cast.  Returns a set of finding ids."""
    casts = case["casts"]
    base = {}
    for n, (s, kind) in enumerate(casts):
        base[f"c{n}"] = base[s] if s in base else s
    out = set()
    flat = []  # (depth path, kind, names read, names written) in walk order

    def walk(items, path):
        for i, it in enumerate(items):
            if it[0] == "for":
                walk(it[1], path + [i])
            elif it[0] == "op":
                flat.append((path, [it[2], it[3]], [it[4]]))
            else:
                flat.append((path, [it[2]], [it[3]]))
    walk(case["body"], [])
    if case.get("ret"):
        flat.append(([], [case["ret"]], []))
    for n in range(len(casts)):
        me = f"c{n}"
        uses = [i for i, (p, r, w) in enumerate(flat) if me in r or me in w]
        if not uses:
            continue
        outs = [i for i in uses if me in flat[i][2]]
        if outs and flat[outs[-1]][0] != []:
            out.add("DC12a")
        # top-level items spanned by the uses
        first_top = flat[uses[0]][0][0] if flat[uses[0]][0] else None
        lo, hi = uses[0], uses[-1]
        # the copy-in is hoisted in front of the top-level item of the first use: everything inside that item counts
        if first_top is not None:
            while lo > 0 and flat[lo - 1][0][:1] == [first_top]:
                lo -= 1
        last_top = flat[hi][0][0] if flat[hi][0] else None
        if last_top is not None:
            while hi + 1 < len(flat) and flat[hi + 1][0][:1] == [last_top]:
                hi += 1
        for i in range(lo, hi + 1):
            p, r, w = flat[i]
            for x in r + w:
                if x != me and (x == base[me] or base.get(x) == base[me]):
                    out.add("DC12b")
    return out


# ------------------------------------------------------------------------------------------------

class C12(Prop):
    id = "C12"
    PARALLEL = True
    USES_IMPL = True
    CASE_TIMEOUT = 30
    exhaustive_thorough = True
    trusted_base = [
        "harness/props/c12.py: IR -> model block converter (per cast; other casts are treated as aliases of their sources), "
        "symbolic single-core interpreter (outputs are wholly overwritten, reads of an output operand are not modelled)",
    ]
    assumptions = [
        "an operation wholly overwrites its output operands and does not read them (the code's own notion of input/output)",
        "expects fixes/F10-realize-copy-in-before-first-use.diff applied to the code under test",
        "C12_realize_partial is a per-rule-application theorem with clause Accepted (Lean checker chk, proved sound, evaluated on the real output)",
    ]
    rule = ("distinct by canonical JSON; non-trivial: const = transformed data differs from the source order; realize = "
            "at least two uses of one cast or a nested use; memspace = at least one operand gets a cast")

    def cases(self, rng, tier):
        q = tier == "quick"
        for _ in range(300 if q else 5000):
            yield gen_const(rng, big=not q)
        for i, c in enumerate(perm_cases(2 if q else 3)):
            yield c
        for _ in range(150 if q else 2000):
            yield gen_glob(rng)
        for _ in range(350 if q else 6000):
            yield gen_pipe(rng, big=not q)
        for _ in range(150 if q else 2500):
            yield gen_dyn(rng)
        for _ in range(250 if q else 4000):
            yield gen_subg(rng)
        for _ in range(200 if q else 3000):
            yield gen_misc(rng)
        for _ in range(60 if q else 1500):
            cols, rows = rng.randint(0, 6), rng.randint(0, 6)
            n = cols * rows + (rng.choice([-1, 1, 2]) if rng.random() < 0.1 else 0)
            yield {"kind": "transpose", "a": [rng.randrange(-100, 100) for _ in range(max(n, 0))], "cols": cols, "rows": rows}
        for _ in range(250 if q else 4000):
            yield gen_memspace(rng)
        for _ in range(700 if q else 15000):
            yield gen_realize(rng, big=not q)

    # -- real code ------------------------------------------------------------------------
    def impl(self, case):
        k = case["kind"]
        if k == "const":
            return impl_const(case)
        if k == "glob":
            return impl_glob(case)
        if k == "pipe":
            return impl_pipe(case)
        if k == "dyn":
            return impl_dyn(case)
        if k == "subg":
            return impl_subg(case)
        if k == "misc":
            return impl_misc(case)
        if k == "transpose":
            from snaxc.transforms.frontend.remove_transpose_constants import RemoveTransposeConstants
            return {"out": list(RemoveTransposeConstants().transpose_tuple(tuple(case["a"]), case["cols"], case["rows"]))}
        if k == "memspace":
            return impl_memspace(case)
        if k == "realize":
            return impl_realize(case)
        raise ValueError(k)

    # -- model ------------------------------------------------------------------------------
    def requests(self, case, impl_out):
        k = case["kind"]
        if k == "glob" and (case.get("strided") or case.get("root") == "uninit"):
            return []  # `dest layout is not tsl`: not transformed; an uninitialised global is always re-typed
        if k == "pipe":
            return [{"fn": "c12.assignCasts", "args": {"fixed": FIX_C, "body": pipe_model_body(case)}}]
        if k == "dyn":
            return [{"fn": "c12.standIn", "args": {"shape": case["shape"], "rt": case["rt"]}}]
        if k == "misc":
            if case["sub"] == "rtc" and case["transposing"]:
                return [{"fn": "c12.transposeTuple", "args": {"a": case["data"], "cols": case["shape"][0], "rows": case["shape"][1]}}]
            return []
        if k == "subg":
            return [{"fn": "c12.subviewGlobal", "args": {"layout": {"ts": case["ts"], "offset": 0}, "shape": case["shape"],
                                                         "data": case["data"], "refuse_offset": FIX_D,
                                                         "offs": case["subs"][0]["off"], "fix_whole": FIX_F, "fix_aligned": FIX_E}}]
        if k in ("const", "glob"):
            return [{"fn": "c12.transformConstant", "args": {"data": case["data"], "refuse_offset": FIX_D,
                                                             "layout": {"ts": case["ts"], "offset": case["offset"]}}}]
        if k == "transpose":
            return [{"fn": "c12.transposeTuple", "args": {"a": case["a"], "cols": case["cols"], "rows": case["rows"]}}]
        if k == "memspace":
            sp = {f"a{i}": (s or "none") for i, s in enumerate(case["args"])}
            sp.update({f"m{i}": (s or "none") for i, s in enumerate(case["allocs"])})
            sp.update({f"g{i}": "none" for i in range(case["nglob"])})
            return [{"fn": "c12.memspace", "args": {
                "pub": case["vis"] in (None, "public"),
                "ins": [s or "none" for s in case["args"]] + [None, None, None],
                "outs": [sp[case["ret"]]] if case["ret"] else [],
                "operands": [], "allocs": [s or "none" for s in case["allocs"]], "globals": ["none"] * case["nglob"]}}]
        if k == "realize":
            if "per" not in impl_out:
                return []
            reqs = []
            for p in impl_out["per"]:
                reqs.append({"fn": "c12.realize", "args": {"fixed": FIXED, "blk": p["before"]}})
                reqs.append({"fn": "c12.chk", "args": {"src": p["src"], "alloc": p["alloc"],
                                                       "blk": p["after"] if p["after"] is not None else []}})
                reqs.append({"fn": "c12.syntactic", "args": {"src": p["src"], "alloc": p["alloc"], "blk": p["before"]}})
            return reqs
        raise ValueError(k)

    def model(self, case, answers, impl_out):
        k = case["kind"]
        if "invalid_input" in impl_out:
            return impl_out
        if k == "misc":
            if case["sub"] == "rtc" and case["transposing"]:
                a = answers[0]
                return {"consts": [{"shape": case["shape"][::-1], "values": a.get("ok")}], "generics": 0}
            return model_misc(case, impl_out)
        if k == "subg":
            a = answers[0]
            if "err" in a:
                return {"model_error": a["err"]}
            r = a["ok"]
            no = {"fires": False, "global_ts": None, "global_data": None}
            if not subg_fires_pre(case) or r.get("guard") is False:
                return no
            if case["data"] is None:
                return {"fires": True, "global_ts": r["layout"], "global_data": "uninitialised"}
            if isinstance(r["data"], dict) and "raised" in r["data"]:
                return {"raised": r["data"]["raised"]}
            if r["data"] is None:
                return no  # transform_constant refuses the layout: the cast is realised with a copy
            return {"fires": True, "global_ts": r["layout"], "global_data": r["data"]}
        if k == "dyn":
            a = answers[0]
            if "err" in a:
                return {"model_error": a["err"]}
            r = a["ok"]
            n_alloc = 2 if case["roles"] == "both" else 1
            n_copy = 1 if case["roles"] in ("in", "out") else 2
            return {"allocs": [{"dims": r["dims"], "shape": r["alloc"]}] * n_alloc,
                    "copies": [[r["alloc"], r["alloc"]]] * n_copy if r["alloc"] == case["rt"] else "?",
                    "op_shapes": [r["alloc"]] * 3, "problems": []}
        if k == "pipe":
            a = answers[0]
            if "err" in a:
                return {"model_error": a["err"]}
            return {"casts": a["ok"]}
        if k == "glob":
            if case.get("root") == "uninit":
                return {"out": "uninitialised", "operands": predict_glob(case, True)}
            if case.get("strided"):
                return {"out": None, "operands": predict_glob(case, False)}
            a = answers[0]
            if "err" in a:
                return {"model_error": a["err"]}
            r = a["ok"]
            if isinstance(r, dict) and "raised" in r:
                return {"raised": r["raised"]}
            return {"out": r, "operands": predict_glob(case, r is not None)}
        if k in ("const", "glob", "transpose"):
            a = answers[0]
            if "err" in a:
                return {"model_error": a["err"]}
            r = a["ok"]
            if isinstance(r, dict) and "raised" in r:
                return {"raised": r["raised"]}
            return {"out": r}
        if k == "memspace":
            a = answers[0]
            if "err" in a:
                return {"model_error": a["err"]}
            r = a["ok"]
            if "raised" in impl_out:
                return {"ins": r["ins"]}
            nops = len(impl_out["operands"])
            used = {x for a, b, _ in case["ops"] for x in (a, b)} | {case["ret"]}
            globs = [g for i, g in enumerate(r["globals"]) if f"g{i}" in used]  # unused get_global ops are erased as dead
            return {"ins": r["ins"], "outs": r["outs"], "blockargs": r["ins"],
                    "operands": [["L1", "L1"]] * nops, "allocs": r["allocs"], "globals": globs,
                    "returns": [r["outs"]], "valid": impl_out["valid"], "why": impl_out["why"]}
        if k == "realize":
            if "per" not in impl_out:
                return {"model": "no per-cast data"}
            per = []
            for i, p in enumerate(impl_out["per"]):
                a, c, y = answers[3 * i], answers[3 * i + 1], answers[3 * i + 2]
                if "err" in a or "err" in c or "err" in y:
                    return {"model_error": a.get("err") or c.get("err") or y.get("err")}
                per.append({**p, "after": a["ok"], "accepted": c["ok"], "syntactic": y["ok"]})
            return {"per": per}
        raise ValueError(k)

    def compare(self, case, impl_out, model_out):
        if isinstance(impl_out, dict) and "raised" in impl_out and case["kind"] != "memspace":
            if isinstance(model_out, dict) and model_out.get("raised") == impl_out["raised"]:
                return None
            return "the real code raised, the model did not (or another exception)"
        if case["kind"] == "misc":
            if model_out is None or "invalid_input" in impl_out or "crash" in impl_out:
                return None
            for key in model_out:
                if canon_json(impl_out.get(key)) != canon_json(model_out[key]):
                    return f"misc/{case['sub']}: {key} differs from the prediction"
            return None
        if case["kind"] == "subg" and "fires" in impl_out:
            for key in ("fires", "global_ts", "global_data"):
                if canon_json(impl_out[key]) != canon_json(model_out.get(key, "?")):
                    return f"ApplyLayoutCastSubviewGlobal: {key} differs from the model (subviewGlobalLayout / transformConstant)"
            return None
        if case["kind"] == "pipe":
            # model side: where set-memory-space puts / re-uses the L1 casts; the lowering as a whole is judged by the oracle
            if "casts" in impl_out and canon_json(impl_out["casts"]) != canon_json(model_out.get("casts")):
                return "set-memory-space: the cast feeding some operand differs from the model (assignCasts)"
            return None
        if case["kind"] == "glob" and "out" in impl_out:
            if canon_json(impl_out["out"]) != canon_json(model_out.get("out", "?")):
                return "data of the re-laid-out root differs from the model's transformConstant"
            if canon_json(impl_out["operands"]) != canon_json(model_out.get("operands")):
                return "cast structure / memory spaces of the consumer's operands differ from the model's prediction"
            return None
        if case["kind"] != "realize" or "per" not in impl_out:
            if case["kind"] == "memspace" and "raised" in impl_out:
                return None
            return super().compare(case, impl_out, model_out)
        if "per" not in model_out:
            return f"model side failed: {model_out}"
        for pi, pm in zip(impl_out["per"], model_out["per"]):
            if canon_json(pi["after"]) != canon_json(pm["after"]):
                return f"placement of the copies for {pi['cast']} differs from the model rule"
        for pm in model_out["per"]:
            if pm["syntactic"] and not pm["accepted"]:  # C12_placement_accepted says this cannot happen
                return f"the syntactic clauses hold for {pm['cast']} but the Lean checker rejects the real placement"
        if not FIXED:
            pass
        elif not classify(case) and not all(pm["syntactic"] for pm in model_out["per"]):
            return "the harness finds no violated clause but some cast does not satisfy the syntactic clauses (Lean synB)"
        elif all(pm["syntactic"] for pm in model_out["per"]) and classify(case):
            return f"the harness attributes the program to {sorted(classify(case))} but every cast satisfies the syntactic clauses"
        if all(pm["accepted"] for pm in model_out["per"]) and impl_out["sem"] is not None:
            return "the Lean checker accepts the real output for every cast but the interpreter sees a difference"
        if impl_out["casts_left_with_uses"]:
            return "a cast with uses survived the pass"
        return None

    # -- property on the implementation -------------------------------------------------------
    def oracle(self, case, out):
        k = case["kind"]
        if "raised" in out or "invalid_input" in out:
            return []
        if k == "const":
            return oracle_const(case, out)
        if k == "glob":
            return oracle_glob(case, out)
        if k == "pipe":
            return oracle_pipe(case, out)
        if k == "dyn":
            return oracle_dyn(case, out)
        if k == "subg":
            return oracle_subg(case, out)
        if k == "misc":
            return oracle_misc(case, out)
        if k == "transpose":
            a, cols, rows = case["a"], case["cols"], case["rows"]
            o = out["out"]
            if len(a) != cols * rows:
                return []
            for i in range(rows):
                for j in range(cols):
                    if o[i * cols + j] != a[j * rows + i]:
                        return [{"what": f"transpose_tuple: out[{i}][{j}] != in[{j}][{i}]", "finding": None}]
            return []
        if k == "memspace":
            return oracle_memspace(case, out)
        if k == "realize":
            v = []
            if out["casts_left_with_uses"]:
                v.append({"what": f"casts {out['casts_left_with_uses']} still have uses after realize-memref-casts", "finding": None})
            if out["sem"] is not None:
                cl = classify(case)
                fid = "DC12b" if "DC12b" in cl else ("DC12a" if "DC12a" in cl else None)
                v.append({"what": f"after realize-memref-casts {out['sem']['what']} (trip counts per loop entry {out['sem']['trips']})",
                          "finding": fid})
            return v
        return []

    def nontrivial(self, case, out):
        k = case["kind"]
        if "raised" in out or "invalid_input" in out:
            return False
        if k in ("const", "glob"):
            return k == "glob" or (out.get("out") is not None and out["out"] != case["data"])
        if k == "pipe":
            return "for" in str(case["body"])
        if k == "dyn":
            return None in case["shape"]
        if k == "subg":
            return bool(out.get("fires")) or len(case["subs"]) > 1
        if k == "transpose":
            return case["cols"] > 1 and case["rows"] > 1
        if k == "memspace":
            return any(s != "L1" for s in case["args"])
        if k == "realize":
            return any(sum(1 for _ in str(p["before"]).split("'cast'")) > 2 or "loop" in str(p["before"]) for p in out["per"])
        return True

    def stats_key(self, case, out):
        k = case["kind"]
        if isinstance(out, dict) and "raised" in out:
            return f"{k}:raised:{out['raised']}"
        if k == "glob":
            return f"glob:{case.get('root', 'init')}:{case.get('form')}:{'none' if out.get('out') is None else 'transformed'}"
        if k == "const":
            return f"{k}:{'none' if out.get('out') is None else 'transformed'}"
        if k == "misc":
            return f"misc:{case['sub']}"
        if k == "subg" and "fires" in out:
            return f"subg:{'fires' if out['fires'] else 'copy'}:{'init' if case['data'] is not None else 'uninit'}:{len(case['subs'])}sub"
        if k == "dyn":
            sh = case["shape"]
            late = any(x is None and any(y is not None for y in sh[:i]) for i, x in enumerate(sh))
            return f"dyn:{'dynamic-after-static' if late else ('dynamic-first' if None in sh else 'static')}"
        if k == "pipe":
            return f"pipe:{'invalid' if not out.get('valid', True) else ('ok' if out.get('sem') is None else 'differs')}"
        if k == "realize" and "per" in out:
            return f"realize:{'ok' if out['sem'] is None else 'differs'}:{case['where']}"
        if k == "memspace" and "valid" in out:
            return f"memspace:{'valid' if out['valid'] else 'invalid'}"
        return k

    def shrink(self, case):
        k = case["kind"]
        if k == "realize":
            def drop(items):
                for i in range(len(items)):
                    yield items[:i] + items[i + 1:]
                    if items[i][0] == "for":
                        yield items[:i] + items[i][1] + items[i + 1:]
                        for sub in drop(items[i][1]):
                            if sub:
                                yield items[:i] + [["for", sub]] + items[i + 1:]
            for b in drop(case["body"]):
                used = str(b)
                used = str(b) + str(case.get("ret"))
                if all(f"c{n}" in used for n in range(len(case["casts"]))):
                    yield {**case, "body": b}
            if case["where"] == "loop":
                yield {**case, "where": "top"}
        elif k == "pipe":
            def drop(items):
                for i in range(len(items)):
                    yield items[:i] + items[i + 1:]
                    if items[i][0] == "for":
                        yield items[:i] + items[i][1] + items[i + 1:]
                        for sub in drop(items[i][1]):
                            if sub:
                                yield items[:i] + [["for", sub]] + items[i + 1:]
            for b in drop(case["body"]):
                if b:
                    yield {**case, "body": b}
        elif k == "memspace":
            for i in range(len(case["ops"])):
                if len(case["ops"]) > 1:
                    yield {**case, "ops": case["ops"][:i] + case["ops"][i + 1:]}
        return


PROP = C12()
