"""C06 — setup/compute overlap keeps every launch's configuration."""
import random

import compat  # noqa: F401
import accfg_common as ac
import snaxrun
from framework import Prop
from props.c01 import convert, model_path

PASSES_BEFORE = "accfg-trace-states,accfg-dedup"
D26_SRC = "func.func private @g() -> ()\nfunc.func @f(%x0 : i32, %x1 : i32, %x2 : i32, %c0 : i1, %c1 : i1, %lb0 : index, %ub0 : index, %st0 : index, %lb1 : index, %ub1 : index, %st1 : index) {\n  %lv = arith.constant 1 : i5\n  %s0 = accfg.setup \"acc_b\" to (\"P\" = %x0 : i32, \"Q\" = %x1 : i32) : !accfg.state<\"acc_b\">\n  %t0 = \"accfg.launch\"(%lv, %s0) <{param_names = [\"launch\"], accelerator = \"acc_b\"}> : (i5, !accfg.state<\"acc_b\">) -> !accfg.token<\"acc_b\">\n  \"accfg.await\"(%t0) : (!accfg.token<\"acc_b\">) -> ()\n  scf.for %i = %lb0 to %ub0 step %st0 {\n    %ii = arith.index_cast %i : index to i32\n    %s1 = accfg.setup \"acc_b\" to (\"P\" = %ii : i32, \"Q\" = %x1 : i32) : !accfg.state<\"acc_b\">\n    %t1 = \"accfg.launch\"(%lv, %s1) <{param_names = [\"launch\"], accelerator = \"acc_b\"}> : (i5, !accfg.state<\"acc_b\">) -> !accfg.token<\"acc_b\">\n    \"accfg.await\"(%t1) : (!accfg.token<\"acc_b\">) -> ()\n    %s2 = accfg.setup \"acc_b\" to (\"P\" = %x0 : i32, \"Q\" = %x2 : i32) : !accfg.state<\"acc_b\">\n    %t2 = \"accfg.launch\"(%lv, %s2) <{param_names = [\"launch\"], accelerator = \"acc_b\"}> : (i5, !accfg.state<\"acc_b\">) -> !accfg.token<\"acc_b\">\n    \"accfg.await\"(%t2) : (!accfg.token<\"acc_b\">) -> ()\n  }\n  %s3 = accfg.setup \"acc_b\" to (\"P\" = %x0 : i32, \"Q\" = %x0 : i32) : !accfg.state<\"acc_b\">\n  %t3 = \"accfg.launch\"(%lv, %s3) <{param_names = [\"launch\"], accelerator = \"acc_b\"}> : (i5, !accfg.state<\"acc_b\">) -> !accfg.token<\"acc_b\">\n  \"accfg.await\"(%t3) : (!accfg.token<\"acc_b\">) -> ()\n  func.return\n}\n"


def loop_steps_with_other_setups(log):
    """Clause MovedFieldsUnique: a LoopLevel overlap step applied to a loop body that contains another setup of the same
    accelerator (the defect D26 needs exactly that)."""
    from snaxc.dialects import accfg
    from xdsl.dialects import scf
    hits = 0
    for (name, path, before, after, *_rest) in log:
        if name != "LoopLevelSetupAwaitOverlapPattern":
            continue
        mod = snaxrun.parse(before)
        f = ac.find_func(mod)
        # locate the matched op by path
        op = mod
        for (r, b, i) in path:
            op = list(list(op.regions)[r].blocks[b].ops)[i]
        loop = op.parent_op()
        n = sum(1 for o in loop.body.walk() if isinstance(o, accfg.SetupOp) and o.accelerator == op.accelerator)
        if n > 1:
            hits += 1
    return hits


def _touches(a, s):
    """Model/AccfgRules.lean touchesS on the AST"""
    if s[0] in ("setup", "ghost"):
        return s[1] == a
    if s[0] == "call":
        return bool(s[2])
    if s[0] == "if":
        return any(_touches(a, x) for x in s[2]) or any(_touches(a, x) for x in s[3])
    if s[0] == "for":
        return any(_touches(a, x) for x in s[5])
    return False


def _uses_outer_block(a, b):
    """Model/AccfgLoopOverlap.lean usesOuterB: a launch of `a` is reached before the state of `a` is redefined"""
    for s in b:
        if _uses_outer(a, s):
            return True
        if _touches(a, s):
            return False
    return False


def _uses_outer(a, s):
    if s[0] == "launch":
        return s[1] == a
    if s[0] == "if":
        return _uses_outer_block(a, s[2]) or _uses_outer_block(a, s[3])
    if s[0] == "for":
        return _uses_outer_block(a, s[5])
    return False


def nested_use_after(body, path, j):
    """launchGuard of the model rule aborts (`none`) for the setup at index j of the body of the loop at `path`: a NESTED statement
    behind the setup launches on its state before anything touches that state again"""
    try:
        blk = body
        k = 0
        while k + 2 < len(path) + 1 and k < len(path) - 1:  # path = [i0, r1, i1, ...]: statement index, region index, ...
            s, r = blk[path[k]], path[k + 1]
            blk = s[5] if s[0] == "for" else (s[2] if r == 0 else s[3])
            k += 2
        loop = blk[path[-1]]
        if loop[0] != "for" or loop[5][j][0] != "setup":
            return False
        a = loop[5][j][1]
        for s in loop[5][j + 1:]:
            if s[0] in ("if", "for") and _uses_outer(a, s):
                return True
            if _touches(a, s):
                return False
        return False
    except (IndexError, TypeError):
        return False


class Gen6(ac.Gen):
    """C06 programs: values computed by chains of pure ops from induction variables and outer values."""

    def setup_launch(self, vals, ind, cur):
        out = []
        if self.carried and self.r.random() < 0.25:
            # a conditional that yields one of the operands (a pure op with regions in the input chain)
            q = self.fresh("q")
            out += [f"{ind}{q} = scf.if {self.r.choice(['%c0', '%c1'])} -> (i32) {{", f"{ind}  scf.yield {self.r.choice(vals)} : i32",
                    f"{ind}}} else {{", f"{ind}  scf.yield {self.r.choice(vals)} : i32", f"{ind}}}"]
            vals += [q, q, q]
        # a small chain of arithmetic feeding the setup
        for _ in range(self.r.randint(0, 2)):
            v = self.fresh()
            a, b = self.r.choice(vals), self.r.choice(vals)
            if self.readcall and self.r.random() < self.readcall:
                # an impure input of the setup (a call returning a value): the setup must stay behind it, it must not be cloned
                out.append(f'{ind}{v} = func.call @r() {{"accfg.effects" = #accfg.effects<none>}} : () -> i32')
            else:
                out.append(f"{ind}{v} = arith.{self.r.choice(['addi', 'muli', 'subi'])} {a}, {b} : i32")
            vals += [v, v]
        return out + super().setup_launch(vals, ind, cur)


class C06(Prop):
    id = "C06"
    PARALLEL = True
    USES_IMPL = True
    CASE_TIMEOUT = 60
    loop_cov = __import__("collections").Counter()
    rule = ("random full-field programs with setup operands computed by chains of arith ops from induction variables and outer values, "
            "lb != 0 and step != 1 executions, several launches per body; traced and deduplicated by the real passes, then "
            "accfg-config-overlap with every rewrite step logged; non-trivial = at least one overlap rewrite happened")
    trusted_base = [
        "both overlap patterns are modelled as functions at a position (applyBlockMove, applyLoopOverlap) and every real rewrite step is "
        "replayed through them; block-level steps are all certified (block_move_preserves), loop-level steps are certified by "
        "loop_overlap_preserves when its decidable hypotheses hold on the step (counted in coverage.extra) and validated semantically "
        "(CSR machine before/after, SSA availability) otherwise; programs with loop-carried data values are oracle-only",
    ]
    assumptions = ["as C07"]

    def cases(self, rng, tier):
        yield {"kind": "d26_literal", "src": D26_SRC, "xseed": 1}
        n = 200 if tier == "quick" else 4000
        for i in range(n):
            g = Gen6(random.Random(rng.getrandbits(48)), full=True, depth=rng.choice([1, 2, 2, 3]),
                     carried=rng.choice([0.0, 0.0, 0.5]))
            g.const_bounds = rng.choice([0.3, 0.3, 0.75])  # constant bounds: trip counts 0, 1, 2 with ranges that are no multiple of the step
            if i % 4 == 1:
                g.nested = 0.7  # nests of rotation candidates: inner head setups read values of the enclosing loop bodies
                g.accs = g.accs[:1] if rng.random() < 0.7 else g.accs
                g.scope_accs = [g.accs]
            if i % 6 == 2:
                g.readcall = 0.3
            g.opaque = 0.6 if i % 9 == 4 else 0.0
            g.before = i % 7 == 5  # another function in front of @f: every function is transformed as if it were alone
            if i % 4 == 3:
                g.ifinput = 0.3  # a conditional computing from a region-local and an outer value is itself a setup input
            yield {"kind": "overlap", "src": g.program(), "xseed": rng.getrandbits(32)}

    def _run(self, case):
        pre = snaxrun.run_passes(case["src"], PASSES_BEFORE)
        log = []
        with snaxrun.log_greedy_steps(log):
            out = snaxrun.run_passes(pre, "accfg-config-overlap")
        return pre, log, out

    def impl(self, case):
        if case["kind"] == "d26_literal":
            pre, log, out = self._run(case)
            _, _, c1 = convert(pre)
            _, _, c2 = convert(out)
            return {"before": ac.canon_ast(c1.program()["body"]), "after": ac.canon_ast(c2.program()["body"])}
        try:
            _m = snaxrun.parse(case["src"])
            _m.verify()
            if not ac.well_formed_regions(_m):
                return {"invalid_input": "region without matching yield"}
        except Exception as e:
            return {"invalid_input": type(e).__name__}
        pre, log, out = self._run(case)
        irs = [pre] + [a for (_, _, _, a, *_r) in log]
        progs, convs = [], []
        for t in irs:
            try:
                m, _, c = convert(t, carried=True)
            except ac.Unsupported as e:
                return {"unmodelled": str(e), "n_steps": len(log), "kinds": ["oracle-only"], "d26_steps": loop_steps_with_other_setups(log)}
            from props.c07 import eval_cost, EVAL_LIMIT
            if eval_cost(c.body) > EVAL_LIMIT:
                return {"unmodelled": "evaluator cost", "n_steps": len(log), "kinds": ["oracle-only"], "d26_steps": loop_steps_with_other_setups(log)}
            convs.append((m, c))
            progs.append({"prog": c.program(), "points": ac.real_inference_at_points(c), "carried": bool(c.has_carried)})
        # the desugaring of carried values is part of the tie between model and code: validate it by execution — the model's CSR
        # machine on the desugared input and output of the pass against the harness machine on the real IR
        dexecs = []
        if progs[0]["carried"] or progs[-1]["carried"]:
            for which in (0, len(convs) - 1):
                m_, c_ = convs[which]
                f_ = ac.find_func(m_)
                for args in ac.executions(random.Random(case["xseed"] + which), 3):
                    try:
                        tr = ac.run_func(f_, args, calltag=c_.calltag, universe=c_.universe())
                    except ac.Undefined:
                        continue
                    dexecs.append({"which": which, "args": args, "trace": c_.trace_json(tr)})
        # block-level steps: the move performed by the real pattern, as (block path + start of the segment, flags)
        moves = []
        for k, (name, path, before, after, *rest) in enumerate(log):
            perm = rest[0] if rest else None
            if name != "BlockLevelSetupAwaitOverlapPattern":
                continue
            if perm is None:
                moves.append({"step": k, "error": "block-level step is not a permutation of one block"})
                continue
            changed = [i for i, q in enumerate(perm) if q != i]
            if not changed:
                continue
            start, end = changed[0], changed[-1]
            seg_after = perm[start:end + 1]           # before-positions in their new order
            cut = seg_after.index(start)              # the first staying statement is the one that was at `start`
            moved = set(seg_after[:cut])
            mb, cb = convs[k]
            try:
                # model statement indices of the segment (a loop with carried values occupies several statements)
                ops = list(cb.block_at(path, mb).ops)
                mp = cb.map_path(path, mb)
                first = cb.stmt_index[ops[start]]
                last = cb.span_end[ops[end]]
                owner = {}
                for q in range(start, end + 1):
                    for z in range(cb.stmt_index[ops[q]], cb.span_end[ops[q]] + 1):
                        owner[z] = q
                flags = [(owner.get(z) in moved) for z in range(first, last + 1)]
            except (ac.Unsupported, KeyError) as e:
                moves.append({"step": k, "skip": f"position outside the model ({e})"})
                continue
            moves.append({"step": k, "path": mp[:-1] + [first], "flags": flags, "carried": progs[k]["carried"],
                          "ok_order": seg_after[:cut] == sorted(seg_after[:cut]) and seg_after[cut:] == sorted(seg_after[cut:])})
        # loop-level steps: anchored at the loop, j = index of the matched setup in its body
        loops = []
        for k, (name, path, before, after, *rest) in enumerate(log):
            if name == "LoopLevelSetupAwaitOverlapPattern":
                mb, cb = convs[k]
                try:
                    mp = cb.map_path(path, mb)
                except (ac.Unsupported, KeyError) as e:
                    loops.append({"step": k, "skip": str(e)})
                    continue
                loops.append({"step": k, "path": mp[:-2], "j": mp[-1], "carried": progs[k]["carried"]})
        # trivially-dead erase steps of the greedy driver (the inputs of a rotated setup that became unused)
        dces = []
        for k, (name, path, before, after, *rest) in enumerate(log):
            if name == "dce":
                mb, cb = convs[k]
                try:
                    dces.append({"step": k, "path": cb.map_path(path, mb), "carried": progs[k]["carried"]})
                except (ac.Unsupported, KeyError) as e:
                    dces.append({"step": k, "skip": str(e)})
        kinds = sorted({n.replace("SetupAwaitOverlapPattern", "") for (n, *_r) in log})
        return {"progs": progs, "n_steps": len(log), "kinds": kinds, "d26_steps": loop_steps_with_other_setups(log),
                "moves": moves, "loops": loops, "dces": dces, "dexecs": dexecs}

    def requests(self, case, impl_out):
        if case["kind"] == "d26_literal":
            return [{"fn": "c06.witness", "args": {}}]
        if "progs" not in impl_out:
            return []
        reqs = [{"fn": "c07.analyse", "args": {"body": p["prog"]["body"], "fields": p["prog"]["fields"]}} for p in impl_out["progs"]]
        for m in impl_out.get("moves", []):
            if "error" in m or "skip" in m:
                continue
            before = impl_out["progs"][m["step"]]["prog"]   # progs[0] = input of the pass, progs[k+1] = after step k
            reqs.append({"fn": "c06.move", "args": {"path": m["path"], "flags": m["flags"], "body": before["body"]}})
        for m in impl_out.get("loops", []):
            if "skip" in m:
                continue
            before = impl_out["progs"][m["step"]]["prog"]
            reqs.append({"fn": "c06.loop", "args": {"path": m["path"], "j": m["j"], "fresh": before["nvars"] + 1000, "body": before["body"],
                                                    "fields": before["fields"], "carried": bool(m.get("carried"))}})
        for m in impl_out.get("dces", []):
            if "skip" in m:
                continue
            before = impl_out["progs"][m["step"]]["prog"]
            reqs.append({"fn": "c01.step", "args": {"rule": "dce", "path": m["path"], "j": 0, "body": before["body"],
                                                    "fields": before["fields"]}})
        for e in impl_out.get("dexecs", []):
            pr = impl_out["progs"][e["which"]]["prog"]
            reqs.append({"fn": "c07.exec", "args": {"body": pr["body"], "fields": pr["fields"], "args": e["args"], "init": ac.INIT}})
        return reqs

    def model(self, case, answers, impl_out):
        if case["kind"] == "d26_literal":
            r = answers[0]["ok"]
            return {"before": ac.canon_ast(r["before"]), "after": ac.canon_ast(r["after"])}
        if "progs" not in impl_out:
            return impl_out
        progs = []
        n = len(impl_out["progs"])
        for p, a in zip(impl_out["progs"], answers[:n]):
            if p.get("carried"):
                # programs with loop-carried data values / conditional data results (desugared by the converter): best effort —
                # what the model reproduces counts as certified, what it does not is validated by the oracle only
                good = "ok" in a and a["ok"]["wf"] and [sorted(x) for x in a["ok"]["annot"]] == p["points"]
                self.loop_cov["carried_programs_facts_agree" if good else "carried_programs_facts_oracle_only"] += 1
                progs.append(p)
                continue
            if "err" in a:
                return {"model_error": a["err"]}
            if not a["ok"]["wf"]:
                return {"model_error": "intermediate program violates the SSA well-formedness predicate of the theorems"}
            progs.append({"prog": p["prog"], "points": [sorted(x) for x in a["ok"]["annot"]], "carried": False})
        # certified block moves: the model's result must be the real IR after the step
        k = n
        for m in impl_out.get("moves", []):
            if "error" in m:
                return {"model_error": m["error"]}
            if "skip" in m:
                self.loop_cov["block_moves_oracle_only"] += 1
                continue
            a = answers[k]
            k += 1
            if m.get("carried"):
                real_after = impl_out["progs"][m["step"] + 1]["prog"]["body"]
                good = ("ok" in a and a["ok"]["after"] is not None and m["ok_order"] and a["ok"]["wf"] and a["ok"]["nodup"]
                        and ac.canon_ast(a["ok"]["after"]) == ac.canon_ast(real_after))
                self.loop_cov["carried_block_moves_certified" if good else "carried_block_moves_oracle_only"] += 1
                continue
            self.loop_cov["block_moves_certified"] += 1
            if "err" in a:
                return {"model_error": a["err"]}
            if a["ok"]["after"] is None:
                return {"model_error": f"block move of step {m['step']} is not certified: a moved statement depends on one it jumps over "
                                       f"(or the segment does not fit)", "move": m}
            if not m["ok_order"]:
                return {"model_error": f"block move of step {m['step']} does not keep the relative order of moved / staying statements"}
            real_after = impl_out["progs"][m["step"] + 1]["prog"]["body"]
            if ac.canon_ast(a["ok"]["after"]) != ac.canon_ast(real_after):
                return {"model_error": f"certified block move of step {m['step']} does not reproduce the real rewrite", "move": m}
        # loop-level steps: the model rule must reproduce the real rewrite
        for m in impl_out.get("loops", []):
            if "skip" in m:
                self.loop_cov["loop_steps_oracle_only"] += 1
                continue
            a = answers[k]
            k += 1
            if m.get("carried"):
                real_after = impl_out["progs"][m["step"] + 1]["prog"]["body"]
                same = "ok" in a and a["ok"]["after"] is not None and ac.canon_ast(a["ok"]["after"]) == ac.canon_ast(real_after)
                good = same and a["ok"]["covered"]
                self.loop_cov["carried_loop_steps_certified" if good else
                              ("carried_loop_steps_reproduced_not_certified:" + a["ok"]["why"] if same else "carried_loop_steps_oracle_only")] += 1
                continue
            if "err" in a:
                return {"model_error": a["err"]}
            if a["ok"]["after"] is None and nested_use_after(impl_out["progs"][m["step"]]["prog"]["body"], m["path"], m["j"]):
                # the real pattern fired although a nested launch runs on the state the matched setup defines: in the real IR that
                # launch reaches the state through a loop-carried / conditional state value (left by dedup after it elided the
                # nested setup), which the real guard ("all launches that use the out-state are in the setup's block") does not
                # see; the erased model cannot tell it from a direct nested use, where the real pattern aborts. Oracle only.
                self.loop_cov["loop_steps_oracle_only:nested-launch-through-carried-state"] += 1
                continue
            if a["ok"]["after"] is None:
                return {"model_error": f"loop-level overlap step {m['step']}: the model rule is not applicable at {m['path']} j={m['j']}", "loop": m}
            real_after = impl_out["progs"][m["step"] + 1]["prog"]["body"]
            if ac.canon_ast(a["ok"]["after"]) != ac.canon_ast(real_after):
                return {"model_error": f"loop-level overlap step {m['step']}: the model rule does not reproduce the real rewrite", "loop": m}
            # is this step covered by C06.loop_overlap_preserves (all hypotheses evaluated by the driver)?
            self.loop_cov["loop_steps"] += 1
            self.loop_cov["covered_by_loop_overlap_preserves" if a["ok"]["covered"] else "not_covered:" + a["ok"]["why"]] += 1
        for m in impl_out.get("dces", []):
            if "skip" in m:
                self.loop_cov["dce_steps_oracle_only"] += 1
                continue
            a = answers[k]
            k += 1
            real_after = impl_out["progs"][m["step"] + 1]["prog"]["body"]
            good = ("ok" in a and a["ok"]["after"] is not None and a["ok"].get("side", True)
                    and ac.canon_ast(a["ok"]["after"]) == ac.canon_ast(real_after))
            if m.get("carried"):
                self.loop_cov["carried_dce_steps_certified" if good else "carried_dce_steps_oracle_only"] += 1
                continue
            if not good:
                return {"model_error": f"dce step {m['step']} at {m['path']}: the model's erase (side condition: results unused) does not "
                                       f"reproduce the real rewrite", "dce": m}
            self.loop_cov["dce_steps_certified"] += 1
        dex = []
        for e in impl_out.get("dexecs", []):
            a = answers[k]
            k += 1
            dex.append(dict(e, trace=a.get("ok", a)))
            self.loop_cov["desugared_programs_executed_by_model"] += 1
        return dict(impl_out, progs=progs, dexecs=dex)

    def extra_coverage(self):
        return {"loop_level_steps": dict(self.loop_cov),
                "note": "loop-level steps replayed through the model rule; 'covered' = every hypothesis of loop_overlap_preserves holds; "
                        "not_covered:launch-observes-copy = a launch (or effectful call) may see a field last written by a copy (class of D26 / dedup-dropped "
                        "fields), not_covered:side = loopSide fails (e.g. non-pure statement in front of the setup)"}

    def oracle(self, case, impl_out):
        if case["kind"] == "d26_literal":
            return []
        if "invalid_input" in impl_out:
            return []
        if "raised" in impl_out:
            return [{"what": f"accfg-config-overlap pipeline raised {impl_out['raised']}: {impl_out.get('msg')}", "finding": None}]
        pre, log, out = self._run(case)
        d26 = loop_steps_with_other_setups(log)
        tag = "D26" if d26 else None
        try:
            m2 = snaxrun.parse(out)
            m2.verify()
        except Exception as e:
            return [{"what": f"accfg-config-overlap output is not valid IR: {type(e).__name__}: {str(e)[:200]}", "finding": None}]
        f1 = ac.find_func(snaxrun.parse(pre))
        f2 = ac.find_func(m2)
        for args in ac.executions(random.Random(case["xseed"]), 14):
            t1 = ac.run_func(f1, args)
            try:
                t2 = ac.run_func(f2, args)
            except ac.Undefined as e:
                return [{"what": f"after overlap: {e} (args={args})", "finding": None}]
            if t1 != t2:
                k = next((i for i, (x, y) in enumerate(zip(t1, t2)) if x != y), min(len(t1), len(t2)))
                return [{"what": f"launch trace differs at event {k}: before overlap {t1[k] if k < len(t1) else None} after "
                                 f"{t2[k] if k < len(t2) else None} (args={args}; loop-overlap steps on multi-setup loops: {d26})",
                         "finding": tag}]
        return []

    def nontrivial(self, case, impl_out):
        return impl_out.get("n_steps", 0) > 0

    def stats_key(self, case, impl_out):
        if "kinds" in impl_out:
            return "overlap:" + "+".join(impl_out["kinds"]) + (":multi-setup-loop" if impl_out.get("d26_steps") else "")
        return super().stats_key(case, impl_out)

    def mutants(self, case, rng):
        return ac.mutants(case, rng) if "src" in case else iter(())

    def shrink(self, case):
        if "src" not in case:
            return
        for t in ac.shrink_src(case["src"]):
            yield dict(case, src=t)
        lines = case["src"].split("\n")
        for i, l in enumerate(lines):
            if "accfg.setup" in l and i + 2 < len(lines) and "accfg.await" in lines[i + 2]:
                yield dict(case, src="\n".join(lines[:i] + lines[i + 3:]))


PROP = C06()
