"""C05 — DMA lowering of a copy moves every element to its layout position.

Real side: `snax-copy-to-dma` on a generated `memref.copy`, the emitted arith/scf/func.call IR interpreted against
run-time memref descriptors (pointer, sizes, strides, offset) with the DMA semantics of runtime/include/snax_rt.h.
Model side: Lean `Dma.lowerCopy` (driver entry c05.lower).  Oracle: byte-level memory with distinct contents.
"""
import itertools
import random

import compat  # noqa: F401
from framework import Prop, canon_json

import os

SRC_BASE, DST_BASE = 1 << 20, 1 << 24
BYVALUE = os.environ.get("C05_BYVALUE", "") == "1"


def _d42_fixed():
    import json
    p = os.path.join(os.path.dirname(os.path.dirname(os.path.dirname(os.path.abspath(__file__)))),
                     "known_findings.d", "C05.json")
    try:
        return any(f.get("id") == "D42" and f.get("status") == "fixed" for f in json.load(open(p)).get("findings", []))
    except OSError:
        return True


# model variant of from_stride follows the status of finding D42 (fix F42); C05_PRE42=1 checks an unpatched tree
PRE42 = os.environ.get("C05_PRE42", "") == "1" or (not _d42_fixed() and os.environ.get("C05_PRE42", "") != "0")
# the harness's own width table: bytes per element = ceil(bits / 8); the type under test is never asked for `.size`
WIDTHS = [1, 4, 7, 8, 8, 12, 16, 16, 20, 24, 32, 32, 32, 33, 64, 64]
ELT = {b: f"i{b}" for b in WIDTHS}


def el_bytes(bits):
    return (bits + 7) // 8


# ------------------------------------------------------------------------------------------------------
# case -> MLIR text
def _q(x):
    return "?" if x is None else str(x)


def layout_text(lay):
    if lay is None:
        return ""
    if "other" in lay:
        r = lay["other"]
        ds = ", ".join(f"d{i}" for i in range(r))
        return f", affine_map<({ds}) -> ({ds})>"
    if "tsl" in lay:
        t = lay["tsl"]
        parts = [f"[{', '.join(_q(s[1]) for s in d)}] -> ({', '.join(_q(s[0]) for s in d)})" for d in t["ts"]]
        s = ", ".join(parts)
        if t["offset"] != 0:
            s += f", offset: {_q(t['offset'])}"
        return f", #tsl.tsl<{s}>"
    return f", strided<[{', '.join(_q(x) for x in lay['strided'])}], offset: {_q(lay['offset'])}>"


def memref_text(ty):
    shp = "".join(f"{_q(x)}x" for x in ty["shape"])
    sp = f', "{ty["space"]}"' if ty.get("space") else ""
    return f"memref<{shp}{ty['elt']}{layout_text(ty['layout'])}{sp}>"


def module_text(case):
    ts, td = memref_text(case["src"]), memref_text(case["dst"])
    return (f'func.func @f(%a : {ts}, %b : {td}) {{\n  "memref.copy"(%a, %b) : ({ts}, {td}) -> ()\n'
            f'  func.return\n}}\n')


def multi_module_text(case):
    """several functions, several copies per function; optionally inside an scf.for with constant bounds and with
    operands that are results of ops in the body instead of block arguments."""
    out = []
    for fi, f in enumerate(case["funcs"]):
        tys = [(memref_text(c["src"]), memref_text(c["dst"])) for c in f["copies"]]
        body = []
        if f.get("via_ops"):
            args = ""
            for j, (ts, td) in enumerate(tys):
                body.append(f'  %a{j} = "test.source"() : () -> {ts}')
                body.append(f'  %b{j} = "test.source"() : () -> {td}')
        else:
            args = ", ".join(f"%a{j} : {ts}, %b{j} : {td}" for j, (ts, td) in enumerate(tys))
        copies = [f'"memref.copy"(%a{j}, %b{j}) : ({ts}, {td}) -> ()' for j, (ts, td) in enumerate(tys)]
        if f.get("loop"):
            body += ["  %c0 = arith.constant 0 : index", f"  %cn = arith.constant {f['loop']} : index",
                     "  %c1 = arith.constant 1 : index", "  scf.for %i = %c0 to %cn step %c1 {"]
            body += ["    " + c for c in copies] + ["  }"]
        else:
            body += ["  " + c for c in copies]
        out.append(f"func.func @f{fi}({args}) {{\n" + "\n".join(body) + "\n  func.return\n}\n")
    return "".join(out)


# ------------------------------------------------------------------------------------------------------
# interpreter of the emitted IR (recording mode)
class Unsupported(Exception):
    pass


def interp_block(block, env, rts, calls):
    from xdsl.dialects import arith, func, memref, scf
    for op in block.ops:
        if isinstance(op, arith.ConstantOp):
            env[op.result] = op.value.value.data
        elif isinstance(op, arith.MuliOp):
            env[op.result] = env[op.lhs] * env[op.rhs]
        elif isinstance(op, arith.AddiOp):
            env[op.result] = env[op.lhs] + env[op.rhs]
        elif isinstance(op, arith.DivUIOp):
            env[op.result] = env[op.lhs] // env[op.rhs]
        elif isinstance(op, memref.ExtractAlignedPointerAsIndexOp):
            env[op.aligned_pointer] = rts[op.source]["base"]
        elif isinstance(op, memref.DimOp):
            env[op.result] = rts[op.source]["shape"][env[op.index]]
        elif isinstance(op, memref.ExtractStridedMetaDataOp):
            rt = rts[op.source]
            env[op.offset] = rt["offset"]
            for r, v in zip(op.sizes, rt["shape"]):
                env[r] = v
            for r, v in zip(op.strides, rt["strides"]):
                env[r] = v
        elif isinstance(op, scf.ForOp):
            if op.iter_args:
                raise Unsupported("scf.for with iter_args")
            for i in range(env[op.lb], env[op.ub], env[op.step]):
                env[op.body.block.args[0]] = i
                interp_block(op.body.block, env, rts, calls)
        elif isinstance(op, func.CallOp):
            a = [env[x] for x in op.arguments]
            name = op.callee.string_value()
            if name == "snax_dma_1d_transfer" and len(a) == 3:
                calls.append(["1d"] + a)
            elif name == "snax_dma_2d_transfer" and len(a) == 6:
                calls.append(["2d"] + a)
            else:
                raise Unsupported(f"call {name}/{len(a)}")
        elif isinstance(op, (scf.YieldOp, func.ReturnOp)):
            pass
        elif isinstance(op, memref.CopyOp):
            calls.append(["copy"])
        elif getattr(getattr(op, "op_name", None), "data", None) == "test.source":
            rts[op.results[0]] = rts["__pending__"].pop(0)
        else:
            raise Unsupported(op.name)


def nest_bounds(block, env):
    """trip counts of the emitted scf.for nest, outermost first (loops of trip count 1 are invisible in the call
    sequence, so the nest itself is compared too)."""
    from xdsl.dialects import scf
    for op in block.ops:
        if isinstance(op, scf.ForOp):
            return [env[op.ub]] + nest_bounds(op.body.block, env)
    return []


def moves_of_call(c):
    """snax_rt.h: 1d(src,dst,size) -> snrt_dma_start_1d(dst,src,size); 2d(src,dst,size,src_stride,dst_stride,repeat)
    -> snrt_dma_start_2d(dst,src,size,dst_stride,src_stride,repeat): `repeat` bursts of `size` bytes."""
    if c[0] == "1d":
        _, s, d, n = c
        return [(s + k, d + k) for k in range(n)]
    _, s, d, n, ss, ds, rep = c
    return [(s + r * ss + k, d + r * ds + k) for r in range(rep) for k in range(n)]


def stride_json(s):
    return [s.step, s.bound]


def tsl_json(t):
    return {"ts": [[stride_json(s) for s in ts.strides] for ts in t.tstrides], "offset": t.offset}


# ------------------------------------------------------------------------------------------------------
# layout-defined addresses (specification side, independent of the Lean model)
def prod(xs):
    r = 1
    for x in xs:
        r *= x
    return r


def tsl_spec_steps(ts, shape):
    """Element steps of a TSL given as JSON strides per dim, with dynamic entries resolved on the run-time
    shape: a dynamic outer bound is the number of tiles needed to cover the extent; dynamic steps follow the
    contiguity convention of the dialect (right-to-left, innermost first, starting above the largest static step)."""
    bounds = []
    for d, strides in enumerate(ts):
        inner = prod(s[1] for s in strides[1:])
        b0 = strides[0][1] if strides[0][1] is not None else -(-shape[d] // inner)
        bounds.append([b0] + [s[1] for s in strides[1:]])
    mx, mkey = 0, (len(ts) - 1, len(ts[-1]) - 1)
    for d, strides in enumerate(ts):
        for k, s in enumerate(strides):
            if s[0] and s[0] > mx:
                mx, mkey = s[0], (d, k)
    dyn = bounds[mkey[0]][mkey[1]] * mx
    steps = [[None] * len(s) for s in ts]
    for d in reversed(range(len(ts))):
        for k in reversed(range(len(ts[d]))):
            if ts[d][k][0] is not None:
                steps[d][k] = ts[d][k][0]
            else:
                steps[d][k] = dyn
                dyn = dyn * bounds[d][k]
    return bounds, steps


def addr_fn(ty, rt):
    """element index -> element address (in elements, including the offset) under the memref's own layout."""
    lay = ty["layout"]
    shape = rt["shape"]
    if lay is None:
        st = [prod(shape[d + 1:]) for d in range(len(shape))]
        return lambda idx: sum(i * s for i, s in zip(idx, st))
    if "strided" in lay:
        st, off = rt["strides"], rt["offset"]
        return lambda idx: off + sum(i * s for i, s in zip(idx, st))
    t = lay["tsl"]
    ts = t["ts"]
    bounds, steps = tsl_spec_steps(ts, shape)
    off = t["offset"] or 0

    def f(idx):
        a = off
        for d, x in enumerate(idx):
            for k in range(len(ts[d])):
                inner = prod(bounds[d][k + 1:])
                dig = x // inner if k == 0 else (x % (inner * bounds[d][k])) // inner
                a += dig * steps[d][k]
        return a
    return f


def static_tsl_addr_real(ty, idx):
    """address by the real TiledStridedLayoutAttr.get_affine_map (static TSL only)."""
    from snaxc.dialects.tsl import TiledStridedLayoutAttr
    from snaxc.ir.tsl import Stride, TiledStride, TiledStridedLayout
    t = ty["layout"]["tsl"]
    tsl = TiledStridedLayout([TiledStride([Stride(s[0], s[1]) for s in d]) for d in t["ts"]], offset=t["offset"])
    return TiledStridedLayoutAttr(tsl).get_affine_map().eval(list(idx), [])[0] + (t["offset"] or 0)


# ------------------------------------------------------------------------------------------------------
# clause checks on a case (for attributing a failing input to a known finding)
def tile_divides(case):
    for ty in (case["src"], case["dst"]):
        lay = ty["layout"]
        if lay and "tsl" in lay:
            for d, strides in enumerate(lay["tsl"]["ts"]):
                if strides and strides[0][1] is None:
                    inner = prod(s[1] or 1 for s in strides[1:])
                    if case["rs"]["shape"][d] % inner:
                        return False
    return True


def zero_stride_tiled(case):
    """clause of strided_source_address (`s != 0`): a strided operand with a static stride 0 (broadcast) whose dimension
    is tiled to more than one depth by the other side's TSL -- from_stride's truthiness test turns the outer step into
    `None` (finding D42)."""
    for a, b in (("src", "dst"), ("dst", "src")):
        la, lb = case[a]["layout"], case[b]["layout"]
        if la and "strided" in la and lb and "tsl" in lb:
            for d, st in enumerate(la["strided"]):
                if st == 0 and d < len(lb["tsl"]["ts"]) and len(lb["tsl"]["ts"][d]) > 1:
                    return True
    return False


def equal_tile_bounds(case):
    ls, ld = case["src"]["layout"], case["dst"]["layout"]
    if ls and ld and "tsl" in ls and "tsl" in ld:
        return [[s[1] for s in d] for d in ls["tsl"]["ts"]] == [[s[1] for s in d] for d in ld["tsl"]["ts"]]
    return True


def static_bounds_match_shape(case):
    """a static TSL must tile exactly the extent of its dimension."""
    for ty in (case["src"], case["dst"]):
        lay = ty["layout"]
        if lay and "tsl" in lay:
            ts = lay["tsl"]["ts"]
            if len(ts) != len(case["rs"]["shape"]):
                return False
            for d, strides in enumerate(ts):
                if not strides or any(s[1] is None for s in strides[1:]):
                    return False
                if strides[0][1] is not None and prod(s[1] for s in strides) != case["rs"]["shape"][d]:
                    return False
    return True


def by_value_distinct(tS, shape):
    """ByValueDistinct: two different (dim, depth) positions of the source TSL carry the same Stride value only if
    both have run-time bound 1."""
    flat = []
    for d, strides in enumerate(tS["ts"]):
        inner = prod(s[1] or 1 for s in strides[1:])
        for k, s in enumerate(strides):
            b = s[1] if s[1] is not None else shape[d] // inner
            flat.append((tuple(s), b))
    for i in range(len(flat)):
        for j in range(i + 1, len(flat)):
            if flat[i][0] == flat[j][0] and flat[i][0][0] is not None and not (flat[i][1] == 1 and flat[j][1] == 1):
                return False
    return True


# ------------------------------------------------------------------------------------------------------
# generator
def tile_dim(rng, n, dynamic):
    """tile bounds of one dim of extent n (outermost first); outer bound None if dynamic."""
    r = rng.random()
    fs = [f for f in (2, 3, 4) if n % f == 0 and n > f]
    if fs and r < 0.5:
        f = rng.choice(fs)
        m = n // f
        gs = [g for g in (2, 3) if m % g == 0 and m > g]
        if gs and rng.random() < 0.3:
            g = rng.choice(gs)
            tb = [m // g, g, f]
        else:
            tb = [m, f]
    elif r < 0.6:
        tb = [n, 1] if rng.random() < 0.5 else [1, n]
    else:
        tb = [n]
    if dynamic:
        tb[0] = None
    return tb


def gen_tsl(rng, tbs, shape, dyn_dims):
    """injective TSL over the tile bounds `tbs`; keys with static bound get static steps in a random order (with
    gaps); dynamic-bound keys sit on top in the traversal order of the contiguity convention."""
    keys = [(d, k) for d, tb in enumerate(tbs) for k in range(len(tb)) if tb[k] is not None]
    rng.shuffle(keys)
    cur = rng.choice([1, 1, 1, 1, 2])
    st = {}
    for (d, k) in keys:
        st[(d, k)] = cur
        cur *= tbs[d][k] * rng.choice([1, 1, 1, 2])
    first = True
    if st and cur <= max(st.values()):
        cur = 2 * max(st.values())  # strictly above every static step: it must be THE largest static step
    for d in sorted(dyn_dims, reverse=True):
        st[(d, 0)] = cur if first else None
        first = False
    ts = [[[st[(d, k)], tbs[d][k]] for k in range(len(tb))] for d, tb in enumerate(tbs)]
    off = rng.choice([0, 0, 0, 5, 16])
    return {"tsl": {"ts": ts, "offset": off}}


def gen_strided(rng, shape, dyn_dims, rt_shape):
    rank = len(shape)
    perm = list(range(rank))
    if rng.random() < 0.5:
        perm.reverse()  # row-major order most of the time
    else:
        rng.shuffle(perm)
    rts = [0] * rank
    cur = rng.choice([1, 1, 1, 2])
    for d in perm:
        rts[d] = cur
        cur *= max(rt_shape[d], 1) * rng.choice([1, 1, 1, 2])
    rt_off = rng.choice([0, 0, 3, 7])
    strides = list(rts)
    # a stride above a dynamic extent is dynamic in the type; others sometimes
    seen_dyn = False
    for d in perm:
        if seen_dyn or rng.random() < 0.1:
            strides[d] = None
        if d in dyn_dims:
            seen_dyn = True
    off = rt_off if rng.random() < 0.75 else None
    return {"strided": strides, "offset": off}, rts, rt_off


def gen_case(rng, tier, odd=False):
    big = tier != "quick"
    rank = rng.choice([1, 2, 2, 3, 3] + ([4] if big else []))
    rt_shape = [rng.choice([1, 2, 3, 4, 4, 6, 8, 8] + ([12, 16] if big else [])) for _ in range(rank)]
    dyn_dims = set()
    if rng.random() < 0.35:
        dyn_dims = {d for d in range(rank) if rng.random() < 0.6}
    shape = [None if d in dyn_dims else rt_shape[d] for d in range(rank)]
    bits = rng.choice(WIDTHS)
    tbs = [tile_dim(rng, rt_shape[d], d in dyn_dims) for d in range(rank)]
    if odd and dyn_dims:
        # run-time extent that is not a multiple of the inner tile (D32)
        d = rng.choice(sorted(dyn_dims))
        if len(tbs[d]) > 1:
            rt_shape[d] += 1

    def side(base):
        k = rng.choice(["none", "strided", "strided", "tsl", "tsl", "tsl"])
        rt = {"base": base, "shape": list(rt_shape), "strides": [], "offset": 0}
        if k == "none":
            lay = None
        elif k == "strided":
            lay, rts, ro = gen_strided(rng, shape, dyn_dims, rt_shape)
            rt["strides"], rt["offset"] = rts, ro
        else:
            lay = gen_tsl(rng, tbs, shape, dyn_dims)
        return {"shape": shape, "elt": ELT[bits], "el": el_bytes(bits), "int": True, "layout": lay}, rt

    src, rs = side(SRC_BASE)
    dst, rd = side(DST_BASE)
    if rng.random() < 0.15 and src["layout"] is not None:
        # identical layouts on both sides (large common blocks)
        dst = dict(src)
        rd = dict(rs, base=DST_BASE)
        lay = src["layout"]
        if "strided" in lay:
            # same type, different run-time descriptor: dynamic offset / the largest dynamic stride get other values
            if lay["offset"] is None:
                rd["offset"] = rs["offset"] + rng.choice([0, 1, 4])
            dyn = [d for d, x in enumerate(lay["strided"]) if x is None]
            if dyn:
                top = max(range(rank), key=lambda d: rs["strides"][d])
                if top in dyn:
                    rd["strides"] = list(rs["strides"])
                    rd["strides"][top] = rs["strides"][top] + rng.choice([0, 1, 2, 5])
    if rng.random() < 0.3:
        # memory spaces as in the upstream inputs (ignored by the pass)
        src = dict(src, space=rng.choice(["L3", "L1"]))
        dst = dict(dst, space=rng.choice(["L1", "L3"]))
    return {"kind": "copy", "src": src, "dst": dst, "rs": rs, "rd": rd}


def gen_module(rng, tier):
    """several copies in one module: two or three functions / several copies per function / a copy inside scf.for /
    operands defined by ops. Every copy gets its own disjoint memory regions."""
    funcs = []
    j = 0
    for _ in range(rng.choice([1, 2, 2, 3])):
        copies = []
        for _ in range(rng.choice([1, 2, 2, 3])):
            c = gen_case(rng, tier) if rng.random() < 0.6 else gen_special(rng)
            c = json_copy(c)
            c["rs"]["base"] = (1 << 22) * (2 * j + 1)
            c["rd"]["base"] = (1 << 22) * (2 * j + 2)
            j += 1
            copies.append(c)
        funcs.append({"copies": copies, "loop": rng.choice([0, 0, 0, 2, 3]), "via_ops": rng.random() < 0.3})
    return {"kind": "module", "funcs": funcs}


def gen_lcb_pair(rng):
    """two layouts of the same (dim, depth) structure for the common-contiguous-block function itself: equal, or
    differing in a step, in a tile bound at a position of the contiguity chain (same steps, other tiling), in a bound
    that is static on one side and `?` on the other, or unrelated."""
    rank = rng.choice([1, 1, 2, 2, 3])
    tbs = []
    for _ in range(rank):
        depth = rng.choice([1, 2, 2, 3])
        tbs.append([rng.choice([1, 2, 2, 3, 4, 4, 8]) for _ in range(depth)])
    keys = [(d, k) for d, tb in enumerate(tbs) for k in range(len(tb))]
    order = list(keys)
    if rng.random() < 0.5:
        order.sort(key=lambda dk: (-dk[0], -dk[1]))      # row-major, innermost tile first
    else:
        rng.shuffle(order)
    st, cur = {}, 1
    for (d, k) in order:
        st[(d, k)] = cur
        cur *= tbs[d][k] * rng.choice([1, 1, 1, 1, 2])
    a = [[[st[(d, k)], tbs[d][k]] for k in range(len(tb))] for d, tb in enumerate(tbs)]
    b = json_copy(a)
    r = rng.random()
    if r < 0.15:
        pass
    elif r < 0.45:      # another tiling with the same steps: swap / change bounds, steps untouched
        for _ in range(rng.choice([1, 1, 2])):
            d = rng.randrange(rank)
            if len(b[d]) > 1 and rng.random() < 0.7:
                i, j = rng.sample(range(len(b[d])), 2)
                b[d][i][1], b[d][j][1] = b[d][j][1], b[d][i][1]
            else:
                k = rng.randrange(len(b[d]))
                b[d][k][1] = rng.choice([1, 2, 3, 4, 8])
    elif r < 0.6:       # a step differs somewhere
        d = rng.randrange(rank)
        k = rng.randrange(len(b[d]))
        b[d][k][0] = rng.choice([1, 2, 4, 8, 16, b[d][k][0] * 2])
    elif r < 0.8:       # dynamic entries on one or both sides
        for L in rng.choice([[a], [b], [a, b]]):
            d = rng.randrange(rank)
            L[d][0][1] = None
            if rng.random() < 0.4:
                L[d][0][0] = None
    else:               # unrelated steps over the same bounds
        order2 = list(keys)
        rng.shuffle(order2)
        cur = 1
        for (d, k) in order2:
            b[d][k][0] = cur
            cur *= tbs[d][k]
    if rng.random() < 0.5:
        a, b = b, a
    return {"kind": "lcb", "a": {"ts": a, "offset": 0}, "b": {"ts": b, "offset": 0}}


def to_real_tsl(t):
    from snaxc.ir.tsl import Stride, TiledStride, TiledStridedLayout
    return TiledStridedLayout([TiledStride([Stride(s[0], s[1]) for s in d]) for d in t["ts"]], offset=t["offset"])


def gen_special(rng):
    """hand-shaped families: upstream filecheck inputs, equal steps with unit bounds, single-element LCB."""
    fam = rng.randrange(13)
    bits = rng.choice(WIDTHS)
    el = el_bytes(bits)

    def ty(shape, lay):
        return {"shape": shape, "elt": ELT[bits], "el": el, "int": True, "layout": lay}

    def rt(base, shape, strides=(), off=0):
        return {"base": base, "shape": list(shape), "strides": list(strides), "offset": off}
    if fam == 0:  # ?x? default layout (MatchSimpleCopy)
        r = rng.choice([1, 2])
        shp = [rng.choice([0, 1, 3, 5]) for _ in range(r)]
        return {"kind": "copy", "src": ty([None] * r, None), "dst": ty([None] * r, None),
                "rs": rt(SRC_BASE, shp), "rd": rt(DST_BASE, shp)}
    if fam == 1:  # strided<[1], offset: ?>
        n = rng.choice([1, 5, 8])
        lay = {"strided": [1], "offset": None}
        return {"kind": "copy", "src": ty([n], lay), "dst": ty([n], lay),
                "rs": rt(SRC_BASE, [n], [1], rng.choice([0, 2, 9])), "rd": rt(DST_BASE, [n], [1], rng.choice([0, 4]))}
    if fam == 2:  # strided<[?, 1]> on ?x? (upstream sample; D40 when the run-time stride is not the row length)
        a, b = rng.choice([1, 2, 3]), rng.choice([1, 2, 4])
        lay = {"strided": [None, 1], "offset": 0}
        return {"kind": "copy", "src": ty([None, None], lay), "dst": ty([None, None], lay),
                "rs": rt(SRC_BASE, [a, b], [b + rng.choice([0, 0, 1, 3]), 1]),
                "rd": rt(DST_BASE, [a, b], [b + rng.choice([0, 0, 2]), 1])}
    if fam == 3:  # 5x5 strided<[10,1]> -> strided<[20,1]>
        n, m = rng.choice([2, 5]), rng.choice([1, 5])
        s1, s2 = m * rng.choice([1, 2]), m * rng.choice([1, 4])
        return {"kind": "copy", "src": ty([n, m], {"strided": [s1, 1], "offset": 0}),
                "dst": ty([n, m], {"strided": [s2, 1], "offset": 0}),
                "rs": rt(SRC_BASE, [n, m], [s1, 1]), "rd": rt(DST_BASE, [n, m], [s2, 1])}
    if fam == 4:  # upstream 8x8 tsl pair
        return {"kind": "copy",
                "src": ty([8, 8], {"tsl": {"ts": [[[4, 2], [1, 4]], [[32, 2], [8, 4]]], "offset": 0}}),
                "dst": ty([8, 8], {"tsl": {"ts": [[[16, 2], [1, 4]], [[32, 2], [4, 4]]], "offset": 0}}),
                "rs": rt(SRC_BASE, [8, 8]), "rd": rt(DST_BASE, [8, 8])}
    if fam == 5:  # equal steps in different dimensions with unit bounds
        n = rng.choice([2, 4])
        s = rng.choice([1, n, 16])
        src = {"tsl": {"ts": [[[s, 1]], [[1, n]], [[s, 1]]], "offset": 0}}
        dst = {"tsl": {"ts": [[[s, 1]], [[rng.choice([1, 2]), n]], [[rng.choice([s, 7]), 1]]], "offset": 0}}
        return {"kind": "copy", "src": ty([1, n, 1], src), "dst": ty([1, n, 1], dst),
                "rs": rt(SRC_BASE, [1, n, 1]), "rd": rt(DST_BASE, [1, n, 1])}
    if fam == 6:  # no unit step anywhere: LCB is the single-element default
        n, m = rng.choice([2, 3]), rng.choice([2, 4])
        return {"kind": "copy", "src": ty([n, m], {"strided": [2 * m, 2], "offset": 1}),
                "dst": ty([n, m], {"strided": [3, 3 * n], "offset": 0}),
                "rs": rt(SRC_BASE, [n, m], [2 * m, 2], 1), "rd": rt(DST_BASE, [n, m], [3, 3 * n], 0)}
    if fam == 8:  # D41 family: the same source Stride value at two positions (self-overlapping / broadcast-like
        # source, equal steps in different dimensions), destination injective
        n, m = rng.choice([2, 3]), rng.choice([2, 2, 4])
        if rng.random() < 0.5:
            n = m
        s = rng.choice([1, 1, 2])
        d1 = rng.choice([1, 1, 3])
        dst_st = [d1, d1 * n * rng.choice([1, 2])] if rng.random() < 0.6 else [m * d1, d1]
        shape = [n, m] if rng.random() < 0.7 else [None, None]
        sst = [s, s] if shape[0] is not None or rng.random() < 0.5 else [s, None]
        return {"kind": "copy", "src": ty(shape, {"strided": sst, "offset": 0}),
                "dst": ty(shape, {"strided": dst_st, "offset": 0}),
                "rs": rt(SRC_BASE, [n, m], [s, s]), "rd": rt(DST_BASE, [n, m], dst_st)}
    if fam == 9:  # identical (source, destination) stride pairs at several positions, some of them block members:
        # exercises the order of the remaining strides after removal by position (TSL with repeated strides)
        n = rng.choice([2, 3])
        k = rng.choice([3, 4])
        a = rng.choice([1, 2])
        ts_s = [[[a, n]] for _ in range(k)]
        ts_d = [[[a, n]] for _ in range(k)]
        j = rng.randrange(k)
        ts_d[j] = [[a * rng.choice([1, n, 5]), n]]
        if rng.random() < 0.5:
            i = rng.randrange(k)
            ts_s[i] = [[a * n, n]]
            ts_d[i] = [[a * n, n]]
        return {"kind": "copy", "src": ty([n] * k, {"tsl": {"ts": ts_s, "offset": 0}}),
                "dst": ty([n] * k, {"tsl": {"ts": ts_d, "offset": 0}}),
                "rs": rt(SRC_BASE, [n] * k), "rd": rt(DST_BASE, [n] * k)}
    if fam == 12:  # zero stride: a broadcast source (every row / column is the same data)
        n, m = rng.choice([2, 4]), rng.choice([2, 4])
        sst = [0, 1] if rng.random() < 0.6 else [1, 0]
        k = rng.random()
        if k < 0.35:
            dlay = None
        elif k < 0.6:
            dlay = {"strided": [m * 2, 1], "offset": rng.choice([0, 3])}
        elif k < 0.8:
            dlay = {"tsl": {"ts": [[[m, n]], [[1, m]]], "offset": 0}}
        else:  # tiled destination: from_stride's truthiness makes the outer source step dynamic (D42)
            dlay = {"tsl": {"ts": [[[2 * m, n // 2], [m, 2]], [[1, m]]], "offset": 0}}
        drt = [m * 2, 1] if dlay and "strided" in dlay else []
        return {"kind": "copy", "src": ty([n, m], {"strided": sst, "offset": 0}), "dst": ty([n, m], dlay),
                "rs": rt(SRC_BASE, [n, m], sst), "rd": rt(DST_BASE, [n, m], drt, dlay["offset"] if drt else 0)}
    if fam in (10, 11):
        # the SAME memref type on both sides, but different run-time descriptors: everything that is dynamic in the type
        # (strides `?`, offset `?`, extents `?`) is a per-memref run-time value (two subviews of different parents).
        # Static inner dimensions keep the copy away from the single 1-D burst.
        k_in = rng.choice([1, 1, 2])                      # static inner dims, row-major (optionally padded)
        k_out = rng.choice([1, 1, 2])                     # outer dims with dynamic strides
        inner = [rng.choice([2, 3, 4]) for _ in range(k_in)]
        outer = [rng.choice([1, 2, 3, 4]) for _ in range(k_out)]
        in_st, cur = [], rng.choice([1, 1, 2])
        for n in reversed(inner):
            in_st.insert(0, cur)
            cur *= n * rng.choice([1, 1, 2])

        def outer_strides():
            st, c = [], cur * rng.choice([1, 2, 3]) + rng.choice([0, 0, 1, 3])
            for n in reversed(outer):
                st.insert(0, c)
                c = c * n * rng.choice([1, 2]) + rng.choice([0, 0, 2])
            return st
        so, do = outer_strides(), outer_strides()
        if fam == 11 and so == do:
            do = [x + 1 + i for i, x in enumerate(do)]    # make sure they differ (still above the inner block)
            do = sorted(do, reverse=True) if k_out > 1 and do[0] < do[1] * outer[1] else do
        dyn_shape = rng.random() < 0.5
        shape = [None if dyn_shape else n for n in outer] + inner
        dyn_off = rng.random() < 0.4
        lay = {"strided": [None] * k_out + in_st, "offset": None if dyn_off else 0}
        rshape = outer + inner
        return {"kind": "copy", "src": ty(shape, lay), "dst": ty(shape, lay),
                "rs": rt(SRC_BASE, rshape, so + in_st, rng.choice([0, 3, 8]) if dyn_off else 0),
                "rd": rt(DST_BASE, rshape, do + in_st, rng.choice([0, 5]) if dyn_off else 0)}
    # fam 7: tiled dynamic block layout  [?, t] -> (?, t), [?, t] -> (?, 1)  against the default layout
    t = rng.choice([2, 4])
    a, b = t * rng.choice([1, 2, 3]), t * rng.choice([1, 2])
    blk = {"tsl": {"ts": [[[None, None], [t, t]], [[None, None], [1, t]]], "offset": 0}}
    pair = [ty([None, None], blk), ty([None, None], None)]
    if rng.random() < 0.5:
        pair.reverse()
    return {"kind": "copy", "src": pair[0], "dst": pair[1], "rs": rt(SRC_BASE, [a, b]), "rd": rt(DST_BASE, [a, b])}


def gen_malformed(rng):
    """inputs outside the property's quantifier: the two sides must only agree on the outcome."""
    fam = rng.randrange(12)

    def ty(shape, lay, elt="i32", el=4, isint=True):
        return {"shape": shape, "elt": elt, "el": el, "int": isint, "layout": lay}

    def rt(base, shape, strides=(), off=0):
        return {"base": base, "shape": list(shape), "strides": list(strides), "offset": off}
    if fam == 0:  # float element type with a layout: TransformDMA leaves the copy in place
        lay = {"strided": [4, 1], "offset": 0}
        return {"kind": "malformed", "src": ty([2, 4], lay, "f32", 4, False), "dst": ty([2, 4], lay, "f32", 4, False),
                "rs": rt(SRC_BASE, [2, 4], [4, 1]), "rd": rt(DST_BASE, [2, 4], [4, 1])}
    if fam == 1:  # unequal tile bounds, same structure
        return {"kind": "malformed",
                "src": ty([8], {"tsl": {"ts": [[[4, 2], [1, 4]]], "offset": 0}}),
                "dst": ty([8], {"tsl": {"ts": [[[2, 4], [1, 2]]], "offset": 0}}),
                "rs": rt(SRC_BASE, [8]), "rd": rt(DST_BASE, [8])}
    if fam == 2:  # dynamic inner tile bound: assert in get_bound_ops
        return {"kind": "malformed",
                "src": ty([None], {"tsl": {"ts": [[[4, 2], [1, None]]], "offset": 0}}),
                "dst": ty([None], None),
                "rs": rt(SRC_BASE, [8]), "rd": rt(DST_BASE, [8])}
    if fam in (9, 10):  # the debugging option test_ignore_transform (true: always a 1-D transfer; None: as false)
        c = gen_case(rng, "quick") if rng.random() < 0.7 else gen_special(rng)
        c["ignore"] = True if fam == 9 else None
        if fam == 9:
            c["kind"] = "malformed"
        return c
    if fam == 11:  # rank 0: default source, strided destination: the DESTINATION's `if not strides: return`
        return {"kind": "malformed", "src": ty([], None), "dst": ty([], {"strided": [], "offset": 0}),
                "rs": rt(SRC_BASE, []), "rd": rt(DST_BASE, [])}
    if fam == 4:  # rank 0, default layout: `assert total_size_op is not None` in MatchSimpleCopy
        return {"kind": "malformed", "src": ty([], None), "dst": ty([], None),
                "rs": rt(SRC_BASE, []), "rd": rt(DST_BASE, [])}
    if fam == 5:  # rank 0, strided: `if not strides: return`
        lay = {"strided": [], "offset": 0}
        return {"kind": "malformed", "src": ty([], lay), "dst": ty([], lay),
                "rs": rt(SRC_BASE, []), "rd": rt(DST_BASE, [])}
    if fam == 6:  # a layout attribute that is neither strided nor TSL: NotImplementedError in extract_strides
        other = {"other": 2}
        good = rng.choice([None, {"strided": [4, 1], "offset": 0}, {"tsl": {"ts": [[[4, 2]], [[1, 4]]], "offset": 0}},
                           other])
        pair = [ty([2, 4], other), ty([2, 4], good)]
        if rng.random() < 0.5:
            pair.reverse()
        return {"kind": "malformed", "src": pair[0], "dst": pair[1],
                "rs": rt(SRC_BASE, [2, 4], [4, 1]), "rd": rt(DST_BASE, [2, 4], [4, 1])}
    if fam == 7:  # index elements: not a FixedBitwidthType, MatchSimpleCopy asserts before looking at the layout
        lay = rng.choice([None, {"strided": [1], "offset": 0}])
        return {"kind": "malformed", "src": ty([4], lay, "index", 0, False), "dst": ty([4], lay, "index", 0, False),
                "rs": rt(SRC_BASE, [4], [1]), "rd": rt(DST_BASE, [4], [1])}
    if fam == 8:  # float elements, default layout: MatchSimpleCopy lowers them (only TransformDMA wants integers)
        return {"kind": "malformed", "src": ty([3, 4], None, "f32", 4, False), "dst": ty([3, 4], None, "f32", 4, False),
                "rs": rt(SRC_BASE, [3, 4]), "rd": rt(DST_BASE, [3, 4])}
    # remaining strides with a dynamic last LCB member: assert lcb[-1].bound is not None
    lay = {"tsl": {"ts": [[[None, 2]], [[1, None]]], "offset": 0}}
    lay2 = {"tsl": {"ts": [[[None, 2]], [[1, None]]], "offset": 0}}
    return {"kind": "malformed", "src": ty([2, None], lay), "dst": ty([2, None], lay2),
            "rs": rt(SRC_BASE, [2, 3]), "rd": rt(DST_BASE, [2, 3])}


# ------------------------------------------------------------------------------------------------------
class C05(Prop):
    id = "C05"
    PARALLEL = True
    exhaustive_thorough = True
    trusted_base = [
        "modelled: largest_common_contiguous_block, from_strides, get_bound_ops/get_step_ops (their run-time values), "
        "MatchSimpleCopy, TransformDMA steps 1-6, snrt_dma_start_1d/2d byte semantics (Model/Dma.lean)",
        "harness interpreter of arith/scf/func.call/memref.dim/extract_strided_metadata (harness/props/c05.py)",
    ]
    assumptions = [
        "addresses are unbounded naturals (no 32-bit wrap-around of index arithmetic)",
        "dynamic `?` steps of a TSL mean what get_step_ops' contiguity convention computes (there is no other definition "
        "in the code base: get_affine_map raises for dynamic layouts); the oracle re-states that convention independently",
        "source and destination regions do not overlap each other; DMA bursts are executed in program order",
        "layout pairs whose (dim, depth) structure differs are outside the model (outside the property's quantifier)",
        "test_ignore_transform=true (documented as producing wrong data) is not modelled",
    ]
    rule = ("random layout pairs {default, strided(+gaps, offset, dynamic strides/offset), TSL depth<=3} x rank<=3(4), "
            "static and dynamic extents, widths i1..i64 incl. sub-byte and odd ones (bytes = ceil(bits/8) from the harness table), plus hand-shaped families (upstream inputs, unit bounds with equal "
            "steps, single-element LCB, dynamic block layouts, same strided type on both sides with different run-time strides/offsets; layout pairs for the common-block function itself); non-trivial = more than one DMA burst is issued")

    # -- generators
    def cases(self, rng, tier):
        n = 1500 if tier == "quick" else 12000
        for i in range(n):
            r = rng.random()
            if r < 0.70:
                yield gen_case(rng, tier)
            elif r < 0.75:
                yield gen_case(rng, tier, odd=True)
            elif r < 0.92:
                yield gen_special(rng)
            elif r < 0.95:
                yield gen_module(rng, tier)
            elif r < 0.98:
                yield gen_lcb_pair(rng)
            else:
                yield gen_malformed(rng)
        if tier == "thorough":
            yield from self.exhaustive()

    def exhaustive(self):
        """named small space: rank 2, extents {1,2,4}^2, every assignment of steps that is a permutation-dense layout
        over tile bounds [n] or [n/2,2], both sides, i32."""
        def ty(shape, lay):
            return {"shape": shape, "elt": "i32", "el": 4, "int": True, "layout": lay}
        for n0, n1 in itertools.product([1, 2, 4], repeat=2):
            for t0, t1 in itertools.product([False, True], repeat=2):
                tbs = [[n0 // 2, 2] if (t0 and n0 > 1) else [n0], [n1 // 2, 2] if (t1 and n1 > 1) else [n1]]
                keys = [(d, k) for d in range(2) for k in range(len(tbs[d]))]
                lays = []
                for perm in itertools.permutations(keys):
                    st, cur = {}, 1
                    for (d, k) in perm:
                        st[(d, k)] = cur
                        cur *= tbs[d][k]
                    lays.append({"tsl": {"ts": [[[st[(d, k)], tbs[d][k]] for k in range(len(tbs[d]))] for d in range(2)],
                                         "offset": 0}})
                for ls, ld in itertools.product(lays, repeat=2):
                    yield {"kind": "copy", "src": ty([n0, n1], ls), "dst": ty([n0, n1], ld),
                           "rs": {"base": SRC_BASE, "shape": [n0, n1], "strides": [], "offset": 0},
                           "rd": {"base": DST_BASE, "shape": [n0, n1], "strides": [], "offset": 0}}

    # -- real code
    def impl_module(self, case):
        """the pass on a whole module (state across operations / functions), next to every copy lowered alone"""
        import snaxrun
        from snaxc.transforms.snax_copy_to_dma import SNAXCopyToDMA
        from xdsl.dialects import func
        module = snaxrun.parse(multi_module_text(case))
        SNAXCopyToDMA().apply(snaxrun.ctx(), module)
        module.verify()
        funcs = []
        for fi, f in enumerate(case["funcs"]):
            fop = [o for o in module.ops if isinstance(o, func.FuncOp) and o.sym_name.data == f"f{fi}"][0]
            descs = [d for c in f["copies"] for d in (c["rs"], c["rd"])]
            rts = {"__pending__": list(descs)}
            if not f.get("via_ops"):
                rts.update(dict(zip(fop.body.block.args, descs)))
            calls = []
            interp_block(fop.body.block, {}, rts, calls)
            funcs.append({"calls": calls})
        decls = sorted(o.sym_name.data for o in module.ops if isinstance(o, func.FuncOp) and o.is_declaration)
        alone = []
        for f in case["funcs"]:
            for c in f["copies"]:
                try:
                    alone.append(self.impl(c))
                except BaseException as e:
                    alone.append({"raised": type(e).__name__})
        return {"funcs": funcs, "decls": decls, "alone": alone}

    def impl(self, case):
        if case["kind"] == "module":
            return self.impl_module(case)
        if case["kind"] == "lcb":
            a, b = to_real_tsl(case["a"]), to_real_tsl(case["b"])
            out = {"lcb": [stride_json(x) for x in a.largest_common_contiguous_block(b)]}
            if hasattr(a, "largest_common_contiguous_block_keys"):
                out["keys"] = [list(k) for k in a.largest_common_contiguous_block_keys(b)]
            return out
        import snaxrun
        from snaxc.ir.tsl import TiledStridedLayout
        from snaxc.transforms.snax_copy_to_dma import SNAXCopyToDMA
        from xdsl.dialects import func
        module = snaxrun.parse(module_text(case))
        log = []
        orig = TiledStridedLayout.largest_common_contiguous_block

        def wrapped(self_, other, *a, **kw):
            r = orig(self_, other, *a, **kw)
            log.append((tsl_json(self_), tsl_json(other), [stride_json(s) for s in r]))
            return r
        TiledStridedLayout.largest_common_contiguous_block = wrapped
        try:
            if "ignore" in case:  # pass option test_ignore_transform = true / None (None means false)
                SNAXCopyToDMA(test_ignore_transform=case["ignore"]).apply(snaxrun.ctx(), module)
            else:
                SNAXCopyToDMA().apply(snaxrun.ctx(), module)
        finally:
            TiledStridedLayout.largest_common_contiguous_block = orig
        module.verify()
        f = [o for o in module.ops if isinstance(o, func.FuncOp) and o.sym_name.data == "f"][0]
        a, b = f.body.block.args
        rts = {a: case["rs"], b: case["rd"]}
        calls = []
        env = {}
        interp_block(f.body.block, env, rts, calls)
        if calls == [["copy"]]:
            return {"unchanged": True}
        out = {"calls": calls, "nest": nest_bounds(f.body.block, env)}
        if log:
            out["tS"], out["tD"], out["lcb"] = log[0]
        return out

    # -- model
    def requests(self, case):
        if case["kind"] == "lcb":
            return [{"fn": "c05.lcb", "args": {"a": case["a"], "b": case["b"]}}]
        if case["kind"] == "module":
            return [r for f in case["funcs"] for c in f["copies"] for r in self.requests(c)]
        idxs = self._sample_idxs(case)

        def mt(t):
            return {"shape": t["shape"], "el": t["el"], "int": t["int"], "layout": t["layout"]}
        # C05_BYVALUE=1: model of the code BEFORE fix F21 (LCB membership by Stride value), for an unpatched tree
        return [{"fn": "c05.lower", "args": {"src": mt(case["src"]), "dst": mt(case["dst"]), "rs": case["rs"],
                                             "rd": case["rd"], "idxs": idxs, "byValue": BYVALUE,
                                             "ignore": bool(case.get("ignore")), "pre42": PRE42}}]

    def _sample_idxs(self, case):
        shape = case["rs"]["shape"]
        if not shape or prod(shape) == 0:
            return []
        if prod(shape) <= 48:
            # small boxes: the model's layout-defined address is compared on EVERY index
            return [list(i) for i in itertools.product(*[range(n) for n in shape])]
        pts = [[0] * len(shape), [n - 1 for n in shape], [n // 2 for n in shape]]
        for d in range(len(shape)):
            pts.append([(n - 1 if e == d else 0) for e, n in enumerate(shape)])
            pts.append([(1 if e == d and n > 1 else 0) for e, n in enumerate(shape)])
        return pts

    def model(self, case, answers):
        if case["kind"] == "lcb":
            a = answers[0]
            if "err" in a:
                return {"model_error": a["err"]}
            if isinstance(a["ok"], dict) and "error" in a["ok"]:
                return {"raised": a["ok"]["error"]}
            return {"lcb": a["ok"]}
        if case["kind"] == "module":
            alone = [self.model(c, [a]) for (c, a) in zip([c for f in case["funcs"] for c in f["copies"]], answers)]
            raised = [m for m in alone if "raised" in m]
            if raised:
                return {"raised": raised[0]["raised"], "_alone": alone}
            funcs, k, names = [], 0, set()
            for f in case["funcs"]:
                calls = []
                for _ in f["copies"]:
                    calls += alone[k]["calls"]
                    names |= {"snax_dma_1d_transfer" if c[0] == "1d" else "snax_dma_2d_transfer" for c in alone[k]["calls"][:1]}
                    if not alone[k]["calls"]:
                        # zero-trip nests still contain the call op
                        names.add("snax_dma_2d_transfer" if alone[k].get("nest") else "snax_dma_1d_transfer")
                    k += 1
                funcs.append({"calls": calls * (f["loop"] or 1)})
            return {"funcs": funcs, "decls": sorted(names), "_alone": alone}
        a = answers[0]
        if "err" in a:
            return {"model_error": a["err"]}
        r = a["ok"]
        if "error" in r:
            if r["error"] == "noMatch":
                return {"unchanged": True}
            return {"raised": r["error"]}
        p = r["prog"]
        x = p["xfer"]
        calls = [[x[0], s, d] + x[1:] for s, d in p["calls"]]
        out = {"calls": calls, "nest": [l[0] for l in p["loops"]]}
        if r["path"] == "transform":
            out["tS"], out["tD"], out["lcb"] = r["tS"], r["tD"], r["lcb"]
            out["_addrs"] = r["addrs"]
            out["_entries"] = r["entries"]
        return out

    def compare(self, case, impl_out, model_out):
        if model_out is None:
            return None
        if case["kind"] == "lcb":
            i = {k: v for k, v in impl_out.items() if k in ("lcb", "raised")}
            return None if canon_json(i) == canon_json(model_out) else "impl and model outputs differ"
        if case["kind"] == "module":
            alone_m = model_out.get("_alone", [])
            if "raised" in impl_out or "raised" in model_out:
                return None if impl_out.get("raised") == model_out.get("raised") else "impl and model outputs differ"
            if canon_json(impl_out["funcs"]) != canon_json(model_out["funcs"]):
                return "whole-module lowering differs from the model's per-operation lowering"
            if impl_out["decls"] != model_out["decls"]:
                return f"external declarations {impl_out['decls']} but the calls need {model_out['decls']}"
            subs = [c for f in case["funcs"] for c in f["copies"]]
            for c, io, mo in zip(subs, impl_out["alone"], alone_m):
                d = self.compare(c, io, mo)
                if d:
                    return "copy alone: " + d
            return None
        m = dict(model_out)
        addrs = m.pop("_addrs", None)
        m.pop("_entries", None)  # ResolutionConsistent is a theorem now (C05.resolution_consistent)
        i = dict(impl_out)
        if "raised" in i:
            i = {"raised": i["raised"]}
        if canon_json(i) != canon_json(m):
            return "impl and model outputs differ"
        # the model's layout-defined address (the one its theorem speaks about) against the specification side
        if (addrs is not None and case["kind"] == "copy" and self._in_quantifier(case) and tile_divides(case)
                and not (PRE42 and zero_stride_tiled(case))):
            fs, fd = addr_fn(case["src"], case["rs"]), addr_fn(case["dst"], case["rd"])
            el = case["src"]["el"]
            offs = case["rs"]["base"], case["rd"]["base"]
            mb = None
            if m.get("calls"):
                # model addresses are relative to the pointers after offset application
                pass
            for side in ("src", "dst"):
                # the specification side itself against the real TiledStridedLayoutAttr.get_affine_map (static TSL)
                lay = case[side]["layout"]
                if lay and "tsl" in lay and all(s[0] is not None and s[1] is not None for d in lay["tsl"]["ts"] for s in d):
                    f = fs if side == "src" else fd
                    for idx in self._sample_idxs(case):
                        if f(idx) != static_tsl_addr_real(case[side], idx):
                            return (f"specification address of {side}{idx} = {f(idx)} but get_affine_map says "
                                    f"{static_tsl_addr_real(case[side], idx)}")
            for idx, (ms, md) in zip(self._sample_idxs(case), addrs):
                es, ed = el * fs(idx), el * fd(idx)
                e0s, e0d = el * fs([0] * len(idx)), el * fd([0] * len(idx))
                if (ms, md) != (es - e0s, ed - e0d):
                    return f"model elemAddr{idx}={(ms, md)} but the layouts say {(es - e0s, ed - e0d)}"
        return None

    # -- property on the real code
    def _in_quantifier(self, case):
        # test_ignore_transform=true is documented as producing wrong data: no property is claimed for it
        return (case["kind"] == "copy" and not case.get("ignore") and equal_tile_bounds(case) and static_bounds_match_shape(case)
                and case["src"]["shape"] == case["dst"]["shape"])

    def oracle_module(self, case, impl_out):
        """(a) every operation of a module is lowered exactly as it is alone (no state survives from one operation,
        function or loop body to the next); (b) the property for every copy alone. The copies use disjoint memory, so
        (a) and (b) give the property for the module."""
        if "raised" in impl_out:
            return []
        out = []
        subs = [c for f in case["funcs"] for c in f["copies"]]
        k = 0
        for fi, f in enumerate(case["funcs"]):
            exp = []
            for _ in f["copies"]:
                a = impl_out["alone"][k]
                exp += a.get("calls") or []
                k += 1
            exp = exp * (f["loop"] or 1)
            if impl_out["funcs"][fi]["calls"] != exp:
                out.append({"what": f"function f{fi}: the DMA calls of the module differ from the calls of its copies "
                                    f"lowered one by one ({len(impl_out['funcs'][fi]['calls'])} vs {len(exp)} calls)",
                            "finding": None})
        for c, a in zip(subs, impl_out["alone"]):
            out += self.oracle(c, a)
        return out

    def oracle_lcb(self, case, impl_out):
        """`lcb_contiguous` stated on the real function, for ANY two layouts of the same structure: every reported
        position carries the same (step, bound) in both layouts, the first step is 1 and each next step is the previous
        step x bound -- so the block is one contiguous burst in BOTH layouts and the same addresses in both; where all
        members are static this is also checked on the addresses themselves."""
        if "raised" in impl_out or "keys" not in impl_out:
            return []
        A, B = case["a"]["ts"], case["b"]["ts"]
        keys = [tuple(k) for k in impl_out["keys"]]
        want = [A[d][k] for d, k in keys] or [[1, 1]]
        if impl_out["lcb"] != want:
            return [{"what": f"block {impl_out['lcb']} is not the strides at its positions {keys} ({want})", "finding": None}]
        cur = 1
        for (d, k) in keys:
            sa, sb = A[d][k], B[d][k]
            if sa != sb:
                return [{"what": f"common contiguous block of {A} and {B}: position {(d, k)} is reported as common but the "
                                 f"first layout has {sa[1]} -> {sa[0]} there and the second {sb[1]} -> {sb[0]}: the block "
                                 f"{impl_out['lcb']} is not a burst of the second layout", "finding": None}]
            if sa[0] != cur:
                return [{"what": f"common contiguous block of {A} and {B}: position {(d, k)} has step {sa[0]}, the block "
                                 f"below it ends at {cur}: not contiguous", "finding": None}]
            cur = sa[0] * sa[1] if sa[0] is not None and sa[1] is not None else None
        if all(A[d][k][0] is not None and A[d][k][1] is not None and B[d][k][0] is not None and B[d][k][1] is not None
               for d, k in keys):
            for L, name in ((A, "first"), (B, "second")):
                addrs = sorted(sum(i * L[d][k][0] for i, (d, k) in zip(idx, keys))
                               for idx in itertools.product(*[range(L[d][k][1]) for d, k in keys]))
                n = prod(A[d][k][1] for d, k in keys)
                if addrs != list(range(n)):
                    return [{"what": f"block at {keys} is not the contiguous range 0..{n - 1} in the {name} layout "
                                     f"({addrs[:10]}…)", "finding": None}]
        return []

    def oracle(self, case, impl_out):
        if case["kind"] == "lcb":
            return self.oracle_lcb(case, impl_out)
        if case["kind"] == "module":
            return self.oracle_module(case, impl_out)
        if not self._in_quantifier(case):
            return []
        if "raised" in impl_out or impl_out.get("unchanged"):
            # no DMA code was emitted (the pass refused the input): nothing to execute, the property is silent.
            # The model must still agree on this outcome (correspondence).
            return []
        el = case["src"]["el"]
        shape = case["rs"]["shape"]
        fs, fd = addr_fn(case["src"], case["rs"]), addr_fn(case["dst"], case["rd"])
        sb, db = case["rs"]["base"], case["rd"]["base"]
        # cross-check the specification side against the real affine map where one exists
        mem = {}
        reads, writes = set(), set()
        for c in impl_out["calls"]:
            for s, d in moves_of_call(c):
                mem[d] = mem.get(s, s)  # every byte initially holds its own address as content
                reads.add(s)
                writes.add(d)
        problems = []
        src_fp, dst_fp = set(), set()
        wrong = None
        all_idx = list(itertools.product(*[range(n) for n in shape]))
        if len({fd(idx) for idx in all_idx}) != len(all_idx):
            return []  # the destination layout maps two elements to one address: no copy can satisfy the property
        for idx in all_idx:
            sa, da = sb + el * fs(idx), db + el * fd(idx)
            for k in range(el):
                src_fp.add(sa + k)
                dst_fp.add(da + k)
                if wrong is None and mem.get(da + k, da + k) != sa + k:
                    wrong = (list(idx), k, da + k, mem.get(da + k, da + k), sa + k)
        if wrong:
            problems.append(f"element {wrong[0]} byte {wrong[1]}: destination address {wrong[2]} holds the byte of "
                            f"address {wrong[3]}, expected source address {wrong[4]}")
        if not reads <= src_fp:
            problems.append(f"reads outside the source footprint, e.g. {sorted(reads - src_fp)[:3]}")
        if not writes <= dst_fp:
            problems.append(f"writes outside the destination footprint, e.g. {sorted(writes - dst_fp)[:3]}")
        if not problems:
            return []
        fid = None
        if PRE42 and zero_stride_tiled(case):
            fid = "D42"  # only on a tree without fix F42 (C05_PRE42=1); the finding is fixed
        elif not tile_divides(case):
            fid = "D32"
        elif any(s[0] is None for s in impl_out.get("lcb") or []):
            fid = "D40"
        elif BYVALUE and "tS" in impl_out and not by_value_distinct(impl_out["tS"], shape):
            fid = "D41"  # only when checking an unpatched tree with C05_BYVALUE=1 (finding is fixed by F21)
        return [{"what": "; ".join(problems), "finding": fid}]

    def nontrivial(self, case, impl_out):
        if case.get("kind") == "lcb":
            return isinstance(impl_out, dict) and len(impl_out.get("keys") or []) >= 1
        if case.get("kind") == "module":
            return isinstance(impl_out, dict) and any(f["calls"] for f in impl_out.get("funcs", []))
        c = impl_out.get("calls") if isinstance(impl_out, dict) else None
        return bool(c) and (len(c) > 1 or (c[0][0] == "2d" and c[0][6] > 1))

    def stats_key(self, case, impl_out):
        if case.get("kind") == "lcb":
            n = len(impl_out.get("keys") or []) if isinstance(impl_out, dict) else 0
            same = [[s[1] for s in d] for d in case["a"]["ts"]] == [[s[1] for s in d] for d in case["b"]["ts"]]
            return f"lcb:{'equal' if same else 'unequal'}-tile-bounds:{min(n, 3)}{'+' if n > 3 else ''}members"
        if case.get("kind") == "module":
            n = sum(len(f["copies"]) for f in case["funcs"])
            tag = "raised" if isinstance(impl_out, dict) and "raised" in impl_out else "ok"
            return (f"module:{len(case['funcs'])}funcs:{n}copies:" + ("loop:" if any(f["loop"] for f in case["funcs"]) else "")
                    + ("viaops:" if any(f["via_ops"] for f in case["funcs"]) else "") + tag)

        def k(t):
            lay = t["layout"]
            return "none" if lay is None else ("tsl" if "tsl" in lay else "strided")
        dyn = "dyn" if any(x is None for x in case["src"]["shape"]) else "static"
        base = f"{case['kind']}:{k(case['src'])}->{k(case['dst'])}:{dyn}"
        if isinstance(impl_out, dict) and "raised" in impl_out:
            return base + ":raised:" + impl_out["raised"]
        if isinstance(impl_out, dict) and impl_out.get("unchanged"):
            return base + ":unchanged"
        c = impl_out.get("calls") or [["none"]]
        n = len(impl_out.get("nest") or [])
        return base + ":" + c[0][0] + (f"+{n}loops" if n else "")

    def shrink(self, case):
        if case.get("kind") == "lcb":
            for d in range(len(case["a"]["ts"])):
                if len(case["a"]["ts"]) > 1:
                    c = json_copy(case)
                    del c["a"]["ts"][d]
                    del c["b"]["ts"][d]
                    yield c
                for k in range(len(case["a"]["ts"][d])):
                    if len(case["a"]["ts"][d]) > 1:
                        c = json_copy(case)
                        del c["a"]["ts"][d][k]
                        del c["b"]["ts"][d][k]
                        yield c
            return
        if case.get("kind") == "module":
            for fi, f in enumerate(case["funcs"]):
                if len(case["funcs"]) > 1:
                    c = json_copy(case)
                    del c["funcs"][fi]
                    yield c
                for j in range(len(f["copies"])):
                    if len(f["copies"]) > 1:
                        c = json_copy(case)
                        del c["funcs"][fi]["copies"][j]
                        yield c
            return
        yield from self._shrink_copy(case)

    def _shrink_copy(self, case):
        # smaller run-time extents for dynamic dims; drop offsets
        for d, x in enumerate(case["src"]["shape"]):
            if x is None and case["rs"]["shape"][d] > 1:
                c = json_copy(case)
                c["rs"]["shape"][d] -= 1
                c["rd"]["shape"][d] -= 1
                yield c
        for side in ("rs", "rd"):
            if case[side]["offset"]:
                c = json_copy(case)
                c[side]["offset"] = 0
                ty = c["src" if side == "rs" else "dst"]
                if ty["layout"] and "strided" in ty["layout"] and ty["layout"]["offset"] is not None:
                    ty["layout"]["offset"] = 0
                yield c


def json_copy(x):
    import json
    return json.loads(json.dumps(x))


PROP = C05()
