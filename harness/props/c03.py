"""C03 — scheduling preserves the iteration space (shared machinery with C16: harness/props/c16.py).

Real code: snaxc/ir/dart/access_pattern.py, snaxc/ir/dart/scheduler.py.  Model: lean/SnaxVerif/Model/Scheduler.lean.
"""
import itertools
import random

import compat  # noqa: F401
import numpy as np
from framework import Prop, canon_json

FUEL = 40           # recursion depth of scheduler_backtrack <= n + template dims + 1 <= 12 in every generator
MAX_VOL = 3000      # boxes are enumerated point by point
MAX_RESULTS = 5000   # harness limit; generators keep list(scheduler_backtrack) far below (max seen ~800)


# ------------------------------------------------------------------------------------------------
# JSON <-> real objects
# ------------------------------------------------------------------------------------------------
def _arr(A, ncols):
    return np.array(A, dtype=np.int64).reshape(len(A), ncols)


def mk_sched(j):
    from snaxc.ir.dart.access_pattern import Schedule, SchedulePattern
    from snaxc.ir.dart.affine_transform import AffineTransform
    n = len(j["bounds"])
    ncols = j.get("ncols", n)   # "ncols" != len(bounds): a malformed pattern for the real constructor to reject
    return Schedule(SchedulePattern(list(j["bounds"]), AffineTransform(_arr(o["A"], ncols), np.array(o["b"], dtype=np.int64)))
                    for o in j["ops"])


def mk_tmpl(j):
    from snaxc.ir.dart.access_pattern import Template, TemplatePattern
    from snaxc.ir.dart.affine_transform import AffineTransform
    n = len(j["bounds"])
    return Template(TemplatePattern(list(j["bounds"]), AffineTransform(_arr(o["A"], n), np.array(o["b"], dtype=np.int64)))
                    for o in j["ops"])


def of_sched(s):
    """Canonical JSON of a real Schedule; per-pattern copies of the bounds are reported when they differ."""
    bl = [[int(b) for b in p.bounds] for p in s]
    ops = [{"A": [[int(x) for x in row] for row in p.pattern.A.tolist()], "b": [int(x) for x in p.pattern.b.tolist()]} for p in s]
    if all(b == bl[0] for b in bl):
        return {"bounds": bl[0] if bl else [], "ops": ops}
    return {"bounds": {"per_pattern": bl}, "ops": ops}


def image_rows(s):
    """Operand-index tuple of every iteration, in execution order (last dim fastest), computed with the
    real AffineTransform.eval on the real object: array of shape (volume, total number of results)."""
    bounds = s[0].bounds
    n = len(bounds)
    pts = np.array(list(itertools.product(*[range(b) for b in bounds])), dtype=np.int64).reshape(vol(bounds), n)
    cols = []
    for p in s:
        if p.bounds != bounds:
            raise ValueError("patterns of one schedule disagree on the bounds")
        cols.append(p.pattern.eval(pts).reshape(len(pts), p.pattern.A.shape[0]))
    return np.concatenate(cols, axis=1) if cols else np.zeros((len(pts), 0), dtype=np.int64)


def image_json(s):
    rows = image_rows(s)
    out = []
    widths = [p.pattern.A.shape[0] for p in s]
    for r in rows.tolist():
        tup, i = [], 0
        for w in widths:
            tup.append(r[i:i + w])
            i += w
        out.append(tup)
    return out


def same_multiset(a, b):
    if a.shape != b.shape:
        return False
    if a.shape[1] == 0 or a.shape[0] == 0:
        return True
    a = a[np.lexsort(a.T[::-1])]
    b = b[np.lexsort(b.T[::-1])]
    return bool((a == b).all())


def vol(bounds):
    v = 1
    for b in bounds:
        v *= b
    return v


MUTATIONS = []   # filled by the purity wrappers below; read (and cleared) by impl()


def snapshot(pc):
    return [(tuple(p.bounds), p.pattern.A.copy(), p.pattern.b.copy()) for p in pc]


def same_snapshot(a, b):
    return len(a) == len(b) and all(x[0] == y[0] and np.array_equal(x[1], y[1]) and np.array_equal(x[2], y[2]) for x, y in zip(a, b))


def pure(name, f):
    """a predicate must not modify what it is asked about: template and schedule are deep-copied before the call and
    compared after it (numpy views of the scheduler's working schedule make an in-place edit corrupt the search)"""
    def g(t, s):
        bt, bs = snapshot(t), snapshot(s)
        r = f(t, s)
        at, as_ = snapshot(t), snapshot(s)
        if not same_snapshot(bt, at) or not same_snapshot(bs, as_):
            j = next((i for i, (x, y) in enumerate(zip(bs, as_)) if not np.array_equal(x[1], y[1])), None)
            MUTATIONS.append(f"{name} modified its argument" + (
                f": operand {j} of the schedule had A={bs[j][1].tolist()} before and A={as_[j][1].tolist()} after the call"
                if j is not None else " (template, bounds or bias)"))
        return r
    return g


def mk_checks(specs):
    from snaxc.ir.dart.scheduler import is_memory_flexible_enough, is_output_channel_stationary, is_pure_output_stationary
    out = []
    for c in specs:
        if c[0] == "pos":
            out.append(pure("is_pure_output_stationary", is_pure_output_stationary))
        elif c[0] == "mem":
            out.append(pure("is_memory_flexible_enough", lambda t, s, sizes=list(c[1]): is_memory_flexible_enough(t, s, sizes)))
        elif c[0] == "ocs":
            out.append(pure("is_output_channel_stationary", lambda t, s, ch=c[1]: is_output_channel_stationary(t, s, ch)))
        else:
            raise ValueError(c)
    return out


def run_backtrack(case):
    from snaxc.ir.dart.scheduler import scheduler_backtrack
    t, s = mk_tmpl(case["t"]), mk_sched(case["s"])
    res = []
    for r in scheduler_backtrack(t, s, case["k"], mk_checks(case["checks"])):
        res.append(r)
        if len(res) > MAX_RESULTS:
            raise RuntimeError("generator produced a case with too many results (harness limit)")
    return res


def guard(f):
    try:
        return f()
    except Exception as e:  # the real code raised: an observable outcome of that sub-call
        return {"raised": type(e).__name__}


def strip_msg(x):
    if isinstance(x, dict):
        return {k: strip_msg(v) for k, v in x.items() if k != "msg"}
    if isinstance(x, list):
        return [strip_msg(v) for v in x]
    return x


def image_of_json(j):
    """Operand-index tuples of (bounds, [A, b]) computed with numpy only (no snaxc code): array (volume, results).
    A bound <= 0 means no iterations."""
    bounds = [max(int(b), 0) for b in j["bounds"]]
    n = len(bounds)
    pts = np.array(list(itertools.product(*[range(b) for b in bounds])), dtype=np.int64).reshape(vol(bounds), n)
    cols = []
    for o in j["ops"]:
        A = np.array(o["A"], dtype=np.int64).reshape(len(o["A"]), n)
        cols.append(pts @ A.T + np.array(o["b"], dtype=np.int64).reshape(1, len(o["A"])))
    return np.concatenate(cols, axis=1) if cols else np.zeros((len(pts), 0), dtype=np.int64)


# ------------------------------------------------------------------------------------------------
# affine expressions (JSON as in Drv/Basic.lean: ["d", i] | ["c", n] | [op, a, b]), TRUE semantics
# ------------------------------------------------------------------------------------------------
NONLIN = ("//", "%", "ceildiv")
OPTEXT = {"+": "+", "*": "*", "//": "floordiv", "%": "mod", "ceildiv": "ceildiv"}


def ev(e, x):
    """value of the expression at the point x with Python floor semantics (what xDSL/MLIR define)."""
    t = e[0]
    if t == "d":
        return x[e[1]]
    if t == "c":
        return e[1]
    a, b = ev(e[1], x), ev(e[2], x)
    if t == "+":
        return a + b
    if t == "*":
        return a * b
    if t == "//":
        return a // b
    if t == "%":
        return a % b
    return -((-a) // b)


def has_divmod(e):
    return e[0] not in "dc" and (e[0] in NONLIN or has_divmod(e[1]) or has_divmod(e[2]))


def has_dim(e):
    return e[0] == "d" or (e[0] != "c" and (has_dim(e[1]) or has_dim(e[2])))


def has_dim_product(e):
    """a raw product of two dim-dependent sub-expressions: not an affine expression at all (xDSL's parser and
    `*` refuse to build it), outside the property's quantifier"""
    if e[0] in "dc":
        return False
    return (e[0] == "*" and has_dim(e[1]) and has_dim(e[2])) or has_dim_product(e[1]) or has_dim_product(e[2])


def expr_text(e):
    if e[0] == "d":
        return f"d{e[1]}"
    if e[0] == "c":
        return str(e[1])
    return f"({expr_text(e[1])} {OPTEXT[e[0]]} {expr_text(e[2])})"


def to_x(e):
    """raw xDSL expression nodes (no smart constructors: the tree is exactly the JSON tree)"""
    from xdsl.ir.affine import AffineBinaryOpExpr, AffineBinaryOpKind, AffineConstantExpr, AffineDimExpr
    kinds = {"+": AffineBinaryOpKind.Add, "*": AffineBinaryOpKind.Mul, "//": AffineBinaryOpKind.FloorDiv,
             "%": AffineBinaryOpKind.Mod, "ceildiv": AffineBinaryOpKind.CeilDiv}
    if e[0] == "d":
        return AffineDimExpr(e[1])
    if e[0] == "c":
        return AffineConstantExpr(e[1])
    return AffineBinaryOpExpr(kinds[e[0]], to_x(e[1]), to_x(e[2]))


def of_x(e):
    from xdsl.ir.affine import AffineBinaryOpExpr, AffineBinaryOpKind, AffineConstantExpr, AffineDimExpr
    tags = {AffineBinaryOpKind.Add: "+", AffineBinaryOpKind.Mul: "*", AffineBinaryOpKind.FloorDiv: "//",
            AffineBinaryOpKind.Mod: "%", AffineBinaryOpKind.CeilDiv: "ceildiv"}
    if isinstance(e, AffineDimExpr):
        return ["d", e.position]
    if isinstance(e, AffineConstantExpr):
        return ["c", e.value]
    if isinstance(e, AffineBinaryOpExpr):
        return [tags[e.kind], of_x(e.lhs), of_x(e.rhs)]
    raise ValueError(f"unsupported affine expression {e}")


_PARSED = {}


def parsed_exprs(n, exprs):
    """the expression trees the pass really sees: xDSL's parser builds them with its smart constructors (constant
    folding, re-association); parser and printer are trusted, the semantics is unchanged"""
    dims = ", ".join(f"d{k}" for k in range(n))
    text = f"affine_map<({dims}) -> ({', '.join(expr_text(e) for e in exprs)})>"
    if text not in _PARSED:
        import snaxrun
        from xdsl.parser import Parser
        m = Parser(snaxrun.ctx(), text).parse_attribute().data
        _PARSED[text] = [of_x(r) for r in m.results]
    return _PARSED[text]


def gen_lin(rng, n, depth, nonneg):
    """a linear expression as a random tree of +, * const (either side), dims and constants"""
    cs = [0, 1, 1, 2, 3, 4, 16] if nonneg else [0, 1, 1, 2, -1, -3, 4, 16]
    if depth == 0 or rng.random() < 0.3:
        return ["d", rng.randrange(n)] if rng.random() < 0.75 else ["c", rng.choice(cs)]
    u = rng.random()
    if u < 0.55:
        return ["+", gen_lin(rng, n, depth - 1, nonneg), gen_lin(rng, n, depth - 1, nonneg)]
    c = ["c", rng.choice(cs)]
    sub = gen_lin(rng, n, depth - 1, nonneg)
    return ["*", sub, c] if rng.random() < 0.7 else ["*", c, sub]


def gen_nonlin_term(rng, n, nonneg, allow_product):
    if allow_product and rng.random() < 0.15:
        return ["*", gen_lin(rng, n, 1, nonneg), ["d", rng.randrange(n)]]
    lhs = gen_lin(rng, n, rng.choice([0, 0, 1]), nonneg)
    if not has_dim(lhs) or rng.random() < 0.3:
        lhs = ["d", rng.randrange(n)]
    return [rng.choice(NONLIN), lhs, ["c", rng.choice([2, 2, 3, 4, 8])]]


def gen_expr_with(rng, n, depth, nonneg, allow_product):
    """an expression with exactly one non-linear sub-term at a uniformly chosen POSITION of the tree: top level,
    lhs or rhs of an addition, nested, under a multiplication by a constant (on either side)"""
    if depth == 0 or rng.random() < 0.25:
        return gen_nonlin_term(rng, n, nonneg, allow_product)
    u = rng.random()
    inner = gen_expr_with(rng, n, depth - 1, nonneg, allow_product)
    if u < 0.6:
        other = gen_lin(rng, n, depth - 1, nonneg)
        return ["+", inner, other] if rng.random() < 0.5 else ["+", other, inner]
    c = ["c", rng.choice([1, 2, 4, 16] if nonneg else [1, 2, -1, 4, 16])]
    return ["*", inner, c] if rng.random() < 0.7 else ["*", c, inner]


def gen_from_map_case(rng):
    n = rng.randint(1, 3)
    nres = rng.randint(1, 3)
    rs = []
    for _ in range(nres):
        if rng.random() < 0.5:
            rs.append(gen_lin(rng, n, rng.randint(0, 3), False))
        else:
            rs.append(gen_expr_with(rng, n, rng.randint(0, 3), False, True))
    return {"kind": "from_map", "n": n, "rs": rs, "bounds": [rng.choice([1, 2, 3, 4, 5]) for _ in range(n)]}


def gen_pass_expr_case(rng):
    """dart-scheduler on snax_alu operations whose first operand is indexed by a map with arbitrary (also
    non-linear) result expressions; the other operands are indexed by the identity so the bounds are defined"""
    n = rng.choice([1, 2, 2, 2, 3])
    ops = []
    for i in range(rng.choice([1, 1, 2])):
        bounds = [rng.choice([2, 4, 4, 8, 16]) for _ in range(n)]
        op = {"bounds": bounds, "maps": [list(range(n))] * 3}
        if i == 0 or rng.random() < 0.5:
            nres = rng.choice([1, 1, 2])
            op["expr0"] = [gen_lin(rng, n, rng.randint(1, 3), True) if rng.random() < 0.45
                           else gen_expr_with(rng, n, rng.randint(0, 2), True, False) for _ in range(nres)]
        ops.append(op)
    if rng.random() < 0.3:
        ops.reverse()
    return {"kind": "pass", "acc": "snax_alu", "ops": ops}


def gen_pass_const_case(rng):
    """snax_alu operations whose first operand is indexed with CONSTANT offsets: a fixed row/column broadcast
    `(c, d1)`, shifted windows `(d0 + c, d1)`, a single fixed element `(c)`; the emitted dart.schedule must carry them"""
    n = rng.choice([1, 2, 2, 3])
    ops = []
    for i in range(rng.choice([1, 1, 2])):
        bounds = [rng.choice([1, 2, 4, 4, 8, 16]) for _ in range(n)]
        res = []
        for d in range(n):
            u = rng.random()
            c = rng.choice([1, 2, 3, 5])
            if u < 0.35:
                res.append(["c", c])                              # this operand dim is fixed
            elif u < 0.6:
                res.append(["+", ["d", d], ["c", c]])             # shifted
            elif u < 0.7:
                res.append(["c", 0])
            else:
                res.append(["d", d])
        if rng.random() < 0.2:
            res = [["c", rng.choice([1, 4])]] + res               # extra leading fixed dim
        ops.append({"bounds": bounds, "maps": [list(range(n))] * 3, "exprs": [res, None, None]})
    return {"kind": "pass", "acc": "snax_alu", "ops": ops}


def conv_op(B, OY, OX, F, FY, FX, C, stride=1):
    d = [["d", i] for i in range(7)]

    def win(o, f):
        return ["+", o if stride == 1 else ["*", o, ["c", stride]], f]
    return {"bounds": [B, OY, OX, F, FY, FX, C], "maps": [[0, 1, 2, 6], [3, 4, 5, 6], [0, 1, 2, 3]],
            "exprs": [[d[0], win(d[1], d[4]), win(d[2], d[5]), d[6]], None, None]}


def gen_pass_conv_case(rng):
    """i8 convolutions on snax_gemmx (operands narrower than a bank: the memory-granularity constraint decides between
    candidates), one or two operations per module"""
    ops = []
    for _ in range(rng.choice([1, 1, 2])):
        while True:
            shape = (rng.choice([1, 1, 2]), rng.choice([1, 2, 4, 8]), rng.choice([8, 8, 16]), rng.choice([8, 8, 16]),
                     rng.choice([1, 3, 3]), rng.choice([1, 3, 3]), rng.choice([4, 8, 8, 16]))
            if vol(shape) <= 40000:
                break
        ops.append(conv_op(*shape, stride=rng.choice([1, 1, 1, 2])))
    return {"kind": "pass", "acc": "snax_gemmx", "ops": ops}


CONV_PROBES = [{"kind": "pass", "acc": "snax_gemmx", "ops": [conv_op(1, 4, 8, 8, 3, 3, 8)]},
               {"kind": "pass", "acc": "snax_gemmx", "ops": [conv_op(2, 8, 8, 8, 3, 3, 4), conv_op(1, 4, 8, 8, 3, 3, 8)]}]


def op_exprs(op, k):
    """result expressions of operand k given explicitly ("exprs" for any operand, "expr0" for the first), else None"""
    if op.get("exprs") and op["exprs"][k] is not None:
        return op["exprs"][k]
    if k == 0 and "expr0" in op:
        return op["expr0"]
    return None


def op_has_exprs(op):
    return "expr0" in op or bool(op.get("exprs"))


def op_points(op):
    bounds = op["bounds"]
    return list(itertools.product(*[range(b) for b in bounds]))


def image_of_passop(op):
    """operand-index tuples of a generated operation, from the case data and the TRUE map semantics"""
    n = len(op["bounds"])
    pts = op_points(op)
    rows = []
    for x in pts:
        r = []
        for k, pm in enumerate(op["maps"]):
            if op_exprs(op, k) is not None:
                r += [ev(e, x) for e in op_exprs(op, k)]
            else:
                r += [x[p] for p in pm]
        rows.append(r)
    width = sum(len(op_exprs(op, k)) if op_exprs(op, k) is not None else len(pm) for k, pm in enumerate(op["maps"]))
    return np.array(rows, dtype=np.int64).reshape(len(pts), width)


# ------------------------------------------------------------------------------------------------
# the real `dart-scheduler` pass on modules with several operations (history inside one pass run)
# ------------------------------------------------------------------------------------------------
ELEM = {"i8": 1, "i32": 4, "i64": 8}
ACC_TYPES = {"snax_alu": ["i64", "i64", "i64"], "snax_gemmx": ["i8", "i8", "i32"]}
_TEMPLATES = {}


def perm_rows(perm, n):
    return [[1 if c == p else 0 for c in range(n)] for p in perm]


def pass_op_sched(op):
    """the operation's own access patterns as a schedule JSON (from the case data only)"""
    n = len(op["bounds"])
    ops = [{"A": perm_rows(pm, n), "b": [0] * len(pm)} for pm in op["maps"]]
    for k in range(len(ops)):   # placeholders, replaced by the model's from_affine_map of the expressions
        if op_exprs(op, k) is not None:
            ops[k] = {"A": [[0] * n for _ in op_exprs(op, k)], "b": [0] * len(op_exprs(op, k))}
    return {"bounds": list(op["bounds"]), "ops": ops}


def render_pass_module(case):
    acc = case["acc"]
    tys = ACC_TYPES[acc]
    args, body = [], []
    for i, op in enumerate(case["ops"]):
        n = len(op["bounds"])
        dims = ", ".join(f"d{k}" for k in range(n))
        mapl = [f"affine_map<({dims}) -> ({', '.join('d%d' % p for p in pm)})>" for pm in op["maps"]]
        mts = ["memref<" + "".join(f"{op['bounds'][p]}x" for p in pm) + ty + ">" for pm, ty in zip(op["maps"], tys)]
        if op_has_exprs(op):
            corners = list(itertools.product(*[(0, b - 1) for b in op["bounds"]]))   # generated maps are monotone (coefficients >= 0)
            for k in range(3):
                ex = op_exprs(op, k)
                if ex is None:
                    continue
                ext = [max(ev(e, x) for x in corners) + 1 for e in ex]
                mapl[k] = f"affine_map<({dims}) -> ({', '.join(expr_text(e) for e in ex)})>"
                mts[k] = "memref<" + "".join(f"{max(v, 1)}x" for v in ext) + tys[k] + ">"
        if op.get("tensor"):   # operands that are not memrefs: AutoflowScheduler leaves the operation alone
            mts = [mt.replace("memref<", "tensor<") for mt in mts]
        maps = ", ".join(mapl)
        args += [f"%t{i}_{k} : {mt}" for k, mt in enumerate(mts)]
        operands = ", ".join(f"%t{i}_{k}" for k in range(3))
        st = [f"!dart.stream<{ty}>" for ty in tys]
        if acc == "snax_alu":
            inner = (f'    %r{i} = "dart.generic"(%s{i}_0, %s{i}_1) <{{library_call = "snax_alu"}}> ({{\n'
                     f"    ^bb1(%x{i} : i64, %y{i} : i64, %z{i} : i64):\n"
                     f"      %w{i} = kernel.add %x{i}, %y{i} : i64, i64 -> i64\n      dart.yield %w{i} : i64\n"
                     f"    }}) : ({st[0]}, {st[1]}) -> {st[2]}\n")
        else:
            inner = (f'    %r{i} = "dart.generic"(%s{i}_0, %s{i}_1, %c0, %c0) <{{library_call = "snax_gemmx"}}> ({{\n'
                     f"    ^bb1(%x{i} : i8, %y{i} : i8, %p{i} : i32, %q{i} : i32, %z{i} : i32):\n"
                     f"      %w{i} = kernel.qmac %x{i}, %y{i} zp_lhs : %p{i} zp_rhs : %q{i} : i8, i8, i32, i32 -> i32\n"
                     f"      dart.yield %w{i} : i32\n"
                     f"    }}) : ({st[0]}, {st[1]}, i32, i32) -> {st[2]}\n")
        body.append(f'  "dart.operation"({operands}) <{{patterns = [{maps}], accelerator = "{acc}", '
                    f"operandSegmentSizes = array<i32: 2, 1>}}> ({{\n"
                    f"  ^bb0(%s{i}_0 : {st[0]}, %s{i}_1 : {st[1]}, %s{i}_2 : {st[2]}):\n" + inner +
                    f"    dart.yield %r{i} : {st[2]}\n  }}) : ({', '.join(mts)}) -> ()\n")
    return (f"func.func public @f({', '.join(args)}) {{\n  %c0 = arith.constant 0 : i32\n" + "".join(body)
            + "  func.return\n}\n")


def pass_name(acc):
    return "insert-accfg-op{accelerator=%s},dart-scheduler" % acc


def map_to_json(m):
    """(A, b) of an xDSL AffineMap from its values on the origin and the unit vectors."""
    n = m.num_dims
    b = [int(v) for v in m.eval([0] * n, [])]
    cols = [[int(v) - c for v, c in zip(m.eval([1 if k == d else 0 for k in range(n)], []), b)] for d in range(n)]
    return {"A": [[cols[d][r] for d in range(n)] for r in range(len(b))], "b": b}


def run_pass_case(case):
    import snaxrun
    from snaxc.dialects import dart
    out = snaxrun.run_passes(render_pass_module(case), pass_name(case["acc"]))
    res = []
    for op in snaxrun.parse(out).walk():
        if isinstance(op, dart.ScheduleOp):
            res.append({"bounds": [int(b.value.data) for b in op.bounds], "ops": [map_to_json(pm.data) for pm in op.patterns],
                        "maps": [[of_x(r) for r in pm.data.results] for pm in op.patterns]})   # the emitted expressions themselves
        elif isinstance(op, dart.OperationOp):
            res.append({"unscheduled": True})
    return res


RESCALE_ATTRS = ("{input_zp = 0 : i32, output_zp = 0 : i32, multiplier = array<i32: 1>, shift = array<i32: 1>, "
                 "max_int = 127 : i32, min_int = -128 : i32, double_round = true}")


def gemmx_body_text(body):
    """a chain of dart.generic ops, one per kernel name, then the yield"""
    lines = []
    for i, k in enumerate(body):
        src = f"%v{i - 1}" if i > 0 else "%s2"
        if k == "qmac":
            lines.append(f'    %v{i} = "dart.generic"(%s0, %s1, %c0, %c0) <{{library_call = "snax_gemmx"}}> ({{\n'
                         f"    ^bb1(%a{i} : i8, %b{i} : i8, %p{i} : i32, %q{i} : i32, %z{i} : i32):\n"
                         f"      %w{i} = kernel.qmac %a{i}, %b{i} zp_lhs : %p{i} zp_rhs : %q{i} : i8, i8, i32, i32 -> i32\n"
                         f"      dart.yield %w{i} : i32\n    }}) : (!dart.stream<i8>, !dart.stream<i8>, i32, i32) -> !dart.stream<i32>")
        elif k == "mac":
            lines.append(f'    %v{i} = "dart.generic"(%s0, %s1) <{{library_call = "snax_gemmx"}}> ({{\n'
                         f"    ^bb1(%a{i} : i8, %b{i} : i8, %z{i} : i32):\n      %w{i} = kernel.mac %a{i}, %b{i} : i8, i8 -> i32\n"
                         f"      dart.yield %w{i} : i32\n    }}) : (!dart.stream<i8>, !dart.stream<i8>) -> !dart.stream<i32>")
        elif k == "rescale":
            lines.append(f'    %v{i} = "dart.generic"({src}) <{{library_call = "snax_gemmx"}}> ({{\n    ^bb1(%a{i} : i32, %z{i} : i32):\n'
                         f'      %w{i} = "kernel.rescale"(%a{i}) {RESCALE_ATTRS} : (i32) -> i32\n'
                         f"      dart.yield %w{i} : i32\n    }}) : (!dart.stream<i32>) -> !dart.stream<i32>")
        else:
            kop = "kernel.add" if k == "add" else "kernel.mul"
            lines.append(f'    %v{i} = "dart.generic"({src}, %s2) <{{library_call = "snax_gemmx"}}> ({{\n'
                         f"    ^bb1(%a{i} : i32, %b{i} : i32, %z{i} : i32):\n      %w{i} = {kop} %a{i}, %b{i} : i32, i32 -> i32\n"
                         f"      dart.yield %w{i} : i32\n    }}) : (!dart.stream<i32>, !dart.stream<i32>) -> !dart.stream<i32>")
    last = f"%v{len(body) - 1}" if body else "%s2"
    lines.append(f"    dart.yield {last} : !dart.stream<i32>")
    return "\n".join(lines)


def real_template(case):
    """the real get_template of the accelerator (non-default geometry through the constructor) on an operation whose
    body is the given chain of kernels"""
    import snaxrun
    from snaxc.dialects import dart
    if case["acc"] == "snax_alu":
        from snaxc.accelerators.snax_alu import SNAXAluAccelerator
        src = render_pass_module({"acc": "snax_alu", "ops": [{"bounds": [8], "maps": [[0], [0], [0]]}]})
        acc = SNAXAluAccelerator()
    else:
        from snaxc.accelerators.snax_gemmx import SNAXGEMMXAccelerator
        m = ("affine_map<(d0, d1, d2) -> (d0, d2)>, affine_map<(d0, d1, d2) -> (d2, d1)>, "
             "affine_map<(d0, d1, d2) -> (d0, d1)>")
        src = (f"func.func @f(%A : memref<16x16xi8>, %B : memref<16x16xi8>, %C : memref<16x16xi32>) {{\n"
               f"  %c0 = arith.constant 0 : i32\n"
               f'  "dart.operation"(%A, %B, %C) <{{patterns = [{m}], accelerator = "snax_gemmx", '
               f"operandSegmentSizes = array<i32: 2, 1>}}> ({{\n"
               f"  ^bb0(%s0 : !dart.stream<i8>, %s1 : !dart.stream<i8>, %s2 : !dart.stream<i32>):\n"
               f"{gemmx_body_text(case['body'])}\n"
               f"  }}) : (memref<16x16xi8>, memref<16x16xi8>, memref<16x16xi32>) -> ()\n  func.return\n}}")
        g = case.get("geom")
        acc = SNAXGEMMXAccelerator(m=g[0], n=g[1], k=g[2]) if g else SNAXGEMMXAccelerator()
    op = next(o for o in snaxrun.parse(src).walk() if isinstance(o, dart.OperationOp))
    t = acc.get_template(op)
    bl = [[None if b is None else int(b) for b in p.bounds] for p in t]
    return {"bounds": bl[0] if all(b == bl[0] for b in bl) else {"per_pattern": bl},
            "ops": [{"A": [[int(x) for x in row] for row in p.pattern.A.tolist()], "b": [int(x) for x in p.pattern.b.tolist()]}
                    for p in t]}


def gen_template_case(rng):
    if rng.random() < 0.15:
        return {"kind": "template", "acc": "snax_alu"}
    u = rng.random()
    if u < 0.6:
        body = rng.choice([["qmac"], ["mac"], ["qmac", "add"], ["mac", "add"], ["qmac", "rescale"], ["qmac", "add", "rescale"],
                           ["rescale"], ["qmac", "rescale", "rescale"]])
    else:
        body = [rng.choice(["qmac", "mac", "add", "rescale", "other"]) for _ in range(rng.randint(0, 4))]
    geom = None if rng.random() < 0.3 else [rng.choice([1, 2, 4, 8, 16]) for _ in range(3)]
    return {"kind": "template", "acc": "snax_gemmx", "geom": geom, "body": body}


def parse_collection_str(text):
    """inverse of PatternCollection.__str__: per line the bounds ('?' = None / 0) and the printed affine map as (A, b)"""
    import snaxrun
    from xdsl.parser import Parser
    out = []
    for line in text.split("\n"):
        bpart, mpart = line[1:line.index(")")], line[line.index(")") + 2:]
        bounds = [None if t.strip() == "?" else int(t) for t in bpart.split(",")] if bpart.strip() else []
        m = Parser(snaxrun.ctx(), f"affine_map<{mpart}>").parse_attribute().data
        j = map_to_json(m)
        out.append({"bounds": bounds, "A": j["A"], "b": j["b"]})
    return out


def template_of(case):
    """the accelerator template of the pass cases, from the MODEL's table (Model/Scheduler.lean: aluTemplate /
    gemmxTemplate for the default 8x8x8 array and a (q)mac body); the table is tied to the real get_template by the
    `template` correspondence stream of C16, so a changed get_template shows up as a disagreement AND in the oracles"""
    acc = case["acc"]
    if acc not in _TEMPLATES:
        import leandrv
        args = {"acc": acc} if acc == "snax_alu" else {"acc": acc, "geom": [8, 8, 8], "body": ["qmac"]}
        ans, = leandrv.run_batch([{"fn": "c16.template", "args": args}])
        _TEMPLATES[acc] = ans["ok"]
    return _TEMPLATES[acc]


def gen_pass_case(rng):
    acc = "snax_alu" if rng.random() < 0.8 else "snax_gemmx"
    nops = rng.choice([1, 2, 2, 2, 3, 3])
    ops = []
    if acc == "snax_alu":
        n = rng.choice([1, 2, 2, 2, 3])
        ident = list(range(n))

        def rperm():
            p = list(ident)
            if rng.random() < 0.3:
                rng.shuffle(p)
            return p
        maps = [rperm(), rperm(), rperm()]
        base = [rng.choice([1, 1, 4, 8, 16, 16, 32, 2, 3, 6]) for _ in range(n)]
        if n >= 2 and rng.random() < 0.6:
            base[rng.randrange(n)] = 1                      # a unit dim somewhere
        for i in range(nops):
            u = rng.random()
            if i == 0 or u < 0.15:
                b = list(base)                               # identical operation
            elif u < 0.65:
                b = list(base)
                rng.shuffle(b)                               # same extents, unit dim (if any) elsewhere
            elif u < 0.8:
                b = [rng.choice([1, 4, 8, 16, 32]) for _ in range(n)]
            else:
                b = list(base)
                k = rng.randrange(n)
                b[k] = rng.choice([1, 4, 8, 16])
            m = maps if rng.random() < 0.85 else [rperm(), rperm(), rperm()]
            ops.append({"bounds": b, "maps": [list(x) for x in m]})
    else:
        for i in range(nops):
            order = [0, 1, 2]
            if rng.random() < 0.3:
                rng.shuffle(order)                           # which iteration dim plays m, n, k
            m_, n_, k_ = order
            b = [0, 0, 0]
            for d in order:
                b[d] = rng.choice([8, 8, 16, 16, 24, 32]) if rng.random() < 0.93 else rng.choice([1, 12])
            ops.append({"bounds": b, "maps": [[m_, k_], [k_, n_], [m_, n_]]})
    if rng.random() < 0.3:
        rng.shuffle(ops)
    if rng.random() < 0.12:
        ops[rng.randrange(len(ops))]["tensor"] = True
    return {"kind": "pass", "acc": acc, "ops": ops}


# ------------------------------------------------------------------------------------------------
# malformed stream: what the constructor must reject (and what happens when it does not)
# ------------------------------------------------------------------------------------------------
def gen_construct_case(rng):
    t, s = gen_matching_pair(rng, "quick")
    n = len(s["bounds"])
    u = rng.random()
    if n and u < 0.75:
        for _ in range(rng.choice([1, 1, 2])):
            s["bounds"][rng.randrange(n)] = rng.choice([0, 0, 0, -1, -5])
    if u >= 0.75 and u < 0.9 and s["ops"] and any(o["A"] for o in s["ops"]):
        # number of bounds != number of matrix columns (AccessPattern.__init__ must raise)
        s["ncols"] = n
        if rng.random() < 0.5 and n:
            s["bounds"] = s["bounds"][:-1]
        else:
            s["bounds"] = s["bounds"] + [rng.choice([1, 2, 4])]
        n = len(s["bounds"])
    d_tile = rng.randrange(max(n, 1))
    b = s["bounds"][d_tile] if d_tile < n else 1
    return {"kind": "construct", "t": t, "s": s, "d_rot": rng.randint(1, max(n, 1)), "d_tile": d_tile,
            "tf": rng.choice([1, 2, 3, 4, max(abs(b), 1)])}


# ------------------------------------------------------------------------------------------------
# generators
# ------------------------------------------------------------------------------------------------
ENTRY = [0, 0, 0, 1, 1, 1, 2, -1, 3, 4, 8, 64, -7]
BOUNDS = [1, 2, 2, 3, 4, 4, 5, 6, 8, 12, 16]


def gen_bounds(rng, n, maxvol=MAX_VOL):
    bs = []
    for _ in range(n):
        b = rng.choice(BOUNDS)
        while vol(bs + [b]) > maxvol:
            b = max(1, b // 2)
        bs.append(b)
    return bs


def gen_rows(rng, r, n, entries=ENTRY):
    return [[rng.choice(entries) for _ in range(n)] for _ in range(r)]


def gen_random_sched(rng, n=None, nops=None):
    n = rng.randint(0, 5) if n is None else n
    nops = rng.randint(1, 4) if nops is None else nops
    bounds = gen_bounds(rng, n)
    ops = []
    for _ in range(nops):
        r = rng.choice([0, 1, 1, 2, 2, 3])
        ops.append({"A": gen_rows(rng, r, n), "b": [rng.choice([0, 0, 1, -3, 5]) for _ in range(r)]})
    return {"bounds": bounds, "ops": ops}


def gen_template(rng, tn, rows_per_op):
    bounds = [rng.choice([2, 2, 4, 4, 8, 3, None, None]) for _ in range(tn)]
    ops = []
    for r in rows_per_op:
        style = rng.random()
        if style < 0.5:
            A = [[1 if rng.random() < 0.5 else 0 for _ in range(tn)] for _ in range(r)]
        elif style < 0.8:
            A = [[1 if (i % max(tn, 1)) == c else 0 for c in range(tn)] for i in range(r)]
        else:
            A = gen_rows(rng, r, tn, [0, 1, 1, 2, -1])
        ops.append({"A": A, "b": [0] * r})
    return {"bounds": bounds, "ops": ops}


def gen_matching_pair(rng, tier):
    """A template and a schedule that contains the template's columns among its dimensions (bounds
    multiples of / below / not divisible by the template bounds), plus extra outer dims, shuffled."""
    tn = rng.choice([1, 1, 2, 2, 3])
    nops = rng.choice([1, 2, 2, 3, 3, 4]) if tier != "quick" else rng.choice([1, 2, 2, 3, 3])
    rows = [rng.choice([1, 1, 2, 2, 3]) for _ in range(nops)]
    t = gen_template(rng, tn, rows)
    extra = rng.choice([0, 1, 1, 2, 2, 3]) if tn < 3 else rng.choice([0, 1, 2])
    # schedule operand j may have fewer rows than the template (broadcast) or, rarely, more
    srows = []
    for r in rows:
        u = rng.random()
        srows.append(r if u < 0.75 else (max(0, r - 1) if u < 0.92 else r + 1))
    dims = []  # (bound, [column per op])
    for i in range(tn):
        tb = t["bounds"][i]
        if tb is None:
            b = rng.choice([1, 2, 3, 4, 6])
        else:
            u = rng.random()
            b = tb * rng.choice([1, 2, 3]) if u < 0.6 else (rng.randint(1, tb) if u < 0.85 else tb * 2 + 1)
        cols = []
        for j, o in enumerate(t["ops"]):
            col = [row[i] for row in o["A"]]
            r, sr = len(col), srows[j]
            if sr <= r:
                col = col[r - sr:]
            else:
                col = [rng.choice([0, 1])] * (sr - r) + col
            if rng.random() < 0.06:
                col = [rng.choice(ENTRY) for _ in col]
            cols.append(col)
        dims.append((b, cols))
    for _ in range(extra):
        b = rng.choice([1, 2, 2, 3, 4, 6])
        cols = []
        for j in range(nops):
            if rng.random() < 0.35:
                cols.append([0] * srows[j])           # reduction-like dim for this operand
            else:
                cols.append([rng.choice([0, 1, 1, 2, 4, 8, -1, 5]) for _ in range(srows[j])])
        dims.append((b, cols))
    while vol([d[0] for d in dims]) > MAX_VOL:
        i = rng.randrange(len(dims))
        dims[i] = (max(1, dims[i][0] // 2), dims[i][1])
    if rng.random() < 0.8:
        rng.shuffle(dims)
    s = {"bounds": [d[0] for d in dims],
         "ops": [{"A": [[d[1][j][r] for d in dims] for r in range(srows[j])],
                  "b": [rng.choice([0, 0, 0, 1, -2]) for _ in range(srows[j])]} for j in range(nops)]}
    return t, s


def gen_checks(rng, nops, rows_last=0):
    """a random combination (any subset, any order) of the three extra checks of scheduler.py"""
    u = rng.random()
    sizes = [rng.choice([1, 1, 2, 4, 8, 8, 16]) for _ in range(nops if rng.random() < 0.85 else max(0, nops - 1))]
    if u < 0.3:
        cs = []
    elif u < 0.55:
        cs = [["pos"]]
    elif u < 0.75:
        cs = [["mem", sizes]]
    else:
        cs = [["pos"], ["mem", sizes]]
    if rows_last >= 1 and rng.random() < 0.35:
        # is_output_channel_stationary on a channel dim the last operand has (so that it cannot raise)
        cs.insert(rng.randint(0, len(cs)), ["ocs", rng.randrange(min(rows_last, 2))])
    return cs


def gen_backtrack_case(rng, tier, kind="backtrack"):
    u = rng.random()
    if u < 0.8:
        t, s = gen_matching_pair(rng, tier)
    else:
        s = gen_random_sched(rng, n=rng.randint(0, 4))
        tn = rng.choice([0, 1, 1, 2, 2, 3])
        rows = [len(o["A"]) for o in s["ops"]]
        if rng.random() < 0.15:
            rows = rows[:-1] if rng.random() < 0.5 else rows + [1]   # operand-count mismatch
        t = gen_template(rng, tn, rows)
    if rng.random() < 0.3:
        # what AutoflowScheduler does first (computed here without the code under test)
        keep = [i for i, b in enumerate(s["bounds"]) if b > 1]
        s = {"bounds": [s["bounds"][i] for i in keep],
             "ops": [{"A": [[row[i] for i in keep] for row in o["A"]], "b": o["b"]} for o in s["ops"]]}
    k = 1 if rng.random() < 0.9 else rng.choice([0, 2, 3])
    return {"kind": kind, "t": t, "s": s, "k": k,
            "checks": gen_checks(rng, len(s["ops"]), len(s["ops"][-1]["A"]) if s["ops"] else 0)}


def sparse_bounds(rng, n):
    """many loops, almost all of extent 1, the few live ones with DIFFERENT extents and one of them at index >= 8"""
    live = {rng.randrange(8, n)} | set(rng.sample(range(n), rng.choice([0, 1, 1, 2, 3])))
    exts = rng.sample([2, 3, 4, 5, 6, 8], len(live)) if len(live) <= 6 else [2] * len(live)
    bounds = [1] * n
    for i, e in zip(sorted(live, key=lambda _: rng.random()), exts):
        bounds[i] = e
    return bounds


def gen_sparse_sched(rng):
    n = rng.randint(9, 14)
    bounds = sparse_bounds(rng, n)
    ops = []
    for _ in range(rng.randint(1, 3)):
        r = rng.choice([1, 2, 2, 3])
        ops.append({"A": gen_rows(rng, r, n, [0, 1, 1, 2, 3, 5, 7, -1, 16]), "b": [rng.choice([0, 0, 1, -3]) for _ in range(r)]})
    return {"bounds": bounds, "ops": ops}


def gen_pass_sparse_case(rng):
    """snax_alu operations over 9-11 loops of which only a few are not unit loops (memref<1x1x..x4x..x6>)"""
    ops = []
    for _ in range(rng.choice([1, 1, 2])):
        n = rng.randint(9, 11)
        ops.append({"bounds": sparse_bounds(rng, n), "maps": [list(range(n))] * 3})
    return {"kind": "pass", "acc": "snax_alu", "ops": ops}


def gen_xform_case(rng):
    s = gen_sparse_sched(rng) if rng.random() < 0.12 else gen_random_sched(rng)
    n = len(s["bounds"])
    d_tile = rng.randint(0, n + 1) if rng.random() < 0.15 else rng.randrange(max(n, 1))
    b = s["bounds"][d_tile] if d_tile < n else 4
    divs = [x for x in range(1, b + 1) if b % x == 0]
    t = rng.choice(divs) if rng.random() < 0.75 else rng.choice([0, 1, 2, 3, 5, 7, b + 1])
    u = rng.random()
    cb = [rng.choice([1, 1, 2, 3, 4]) for _ in range(n if u < 0.85 else max(0, n + rng.choice([-1, 1])))]
    if cb and rng.random() < 0.05:
        cb[rng.randrange(len(cb))] = 0
    return {"kind": "xform", "s": s, "d_rot": rng.randint(0, n + 1) if rng.random() < 0.2 else rng.randint(1, max(n, 1)),
            "d_tile": d_tile, "tf": t, "k": rng.randint(0, n + 2) if rng.random() < 0.3 else rng.randint(1, max(n, 1)),
            "custom": cb}


def exhaustive_small_space():
    """thorough tier: every schedule with 1 operand (1 row) or 2 operands (1 row each) ... see `rule`."""
    for n in (1, 2, 3):
        for bounds in itertools.product((1, 2, 4), repeat=n):
            for row in itertools.product((0, 1, 2), repeat=n):
                for row2 in itertools.product((0, 1), repeat=n):
                    s = {"bounds": list(bounds), "ops": [{"A": [list(row)], "b": [0]}, {"A": [list(row2)], "b": [1]}]}
                    for tn in (1, 2):
                        for tb in itertools.product((2, None), repeat=tn):
                            for trow in itertools.product((0, 1), repeat=tn):
                                t = {"bounds": list(tb), "ops": [{"A": [list(trow)], "b": [0]},
                                                                 {"A": [list(trow[::-1])], "b": [0]}]}
                                yield {"kind": "backtrack", "t": t, "s": s, "k": 1, "checks": [["pos"]] if n == 3 else []}


# ------------------------------------------------------------------------------------------------
class SchedProp(Prop):
    """impl / requests / model shared by C03 and C16."""
    PARALLEL = True

    def compare(self, case, impl_out, model_out):
        if canon_json(strip_msg(impl_out)) == canon_json(strip_msg(model_out)):
            return None
        return "impl and model outputs differ"

    # real code -------------------------------------------------------------------------------
    def impl(self, case):
        MUTATIONS.clear()
        out = self._impl(case)
        if MUTATIONS and isinstance(out, dict):
            out = dict(out, mutations=sorted(set(MUTATIONS))[:3])   # the model never has this key: also a disagreement
        return out

    @staticmethod
    def purity_violations(impl_out):
        return [{"what": "an extra check is not read-only: " + m, "finding": None}
                for m in (impl_out.get("mutations", []) if isinstance(impl_out, dict) else [])]

    def _impl(self, case):
        kind = case["kind"]
        if kind == "xform":
            s = mk_sched(case["s"])
            out = {
                "rotate": guard(lambda: of_sched(s.rotate(case["d_rot"]))),
                "tile": guard(lambda: of_sched(s.tile_dim(case["d_tile"], case["tf"]))),
                "add_dim": guard(lambda: of_sched(s.add_dim())),
                "clear": guard(lambda: of_sched(s.clear_unused_dims())),
                "canon": guard(lambda: of_sched(s.canonicalize())),
                "inner": guard(lambda: of_sched(s.inner_dims(case["k"]))),
                "image": image_json(s),
            }
            # what dart-scheduler writes into dart.schedule: every pattern as an AffineMap, read back with its constants
            out["to_map"] = guard(lambda: [map_to_json(p.pattern.to_affine_map()) for p in s])
            # PatternCollection.__str__ / AccessPattern.__str__ (one line "(bounds) map" per operand), read back; max_dim
            out["str"] = guard(lambda: parse_collection_str(str(s)))
            out["max_dim"] = guard(lambda: int(s.max_dim))
            if "custom" in case:
                out["clear_with"] = guard(lambda: of_sched(s.clear_unused_dims(tuple(case["custom"]))))
                # PatternCollection.__eq__ / AffineTransform.__eq__: a schedule equals its canonical form iff nothing was dropped
                out["eq_canon"] = guard(lambda: bool(s == s.canonicalize()) and bool(s.canonicalize() == s))
                out["eq_self"] = guard(lambda: bool(s == mk_sched(case["s"])) and not bool(s == 3))
            return out
        if kind == "backtrack":
            return {"results": [of_sched(r) for r in run_backtrack(case)]}
        if kind == "construct":
            return {"accepted": of_sched(mk_sched(case["s"]))}      # ValueError = rejected
        if kind == "from_map":
            # the construction path of every pattern: AffineMap -> SchedulePattern -> AffineTransform.from_affine_map
            from snaxc.ir.dart.access_pattern import SchedulePattern
            from xdsl.ir.affine import AffineMap
            p = SchedulePattern(case["bounds"], AffineMap(case["n"], 0, tuple(to_x(e) for e in case["rs"])))
            return {"A": [[int(v) for v in row] for row in p.pattern.A.tolist()], "b": [int(v) for v in p.pattern.b.tolist()]}
        if kind == "scheduler":
            # the top-level entry point; an empty search raises StopIteration, a bad index IndexError
            from snaxc.ir.dart.scheduler import scheduler
            kw = {} if case.get("default_checks") else {"extra_checks": mk_checks(case["checks"])}
            if case.get("idx") is not None:
                kw["schedule_idx"] = case["idx"]
            return {"result": of_sched(scheduler(mk_tmpl(case["t"]), mk_sched(case["s"]), **kw))}
        if kind == "template":
            return {"template": real_template(case)}
        if kind == "pass":
            out = {"schedules": run_pass_case(case)}
            if len(case["ops"]) > 1:
                # no state may survive from one operation / pass run to the next: every operation alone, in its own module and
                # pass instance, must get the schedule it got inside the module; and a second run of the module the same output
                out["alone"] = [run_pass_case(dict(case, ops=[op]))[0] for op in case["ops"]]
                if sum(sum(op["bounds"]) for op in case["ops"]) % 3 == 0:     # a deterministic third of the modules
                    out["again"] = run_pass_case(case)
            return out
        if kind == "match":
            return {"matches": bool(mk_tmpl(case["t"]).matches(mk_sched(case["s"])))}
        if kind == "check":
            return {"holds": bool(mk_checks([case["check"]])[0](mk_tmpl(case["t"]), mk_sched(case["s"])))}
        if kind == "ocs":
            from snaxc.ir.dart.scheduler import is_output_channel_stationary
            f = pure("is_output_channel_stationary", lambda t, s: is_output_channel_stationary(t, s, case["ch"]))
            return {"holds": bool(f(mk_tmpl(case["t"]), mk_sched(case["s"])))}
        raise ValueError(kind)

    # model -----------------------------------------------------------------------------------
    def requests(self, case):
        kind = case["kind"]
        if kind == "xform":
            s = case["s"]
            return [{"fn": "c03.rotate", "args": {"s": s, "d": case["d_rot"]}},
                    {"fn": "c03.tile", "args": {"s": s, "d": case["d_tile"], "t": case["tf"]}},
                    {"fn": "c03.add_dim", "args": {"s": s}},
                    {"fn": "c03.clear", "args": {"s": s}},
                    {"fn": "c03.canon", "args": {"s": s}},
                    {"fn": "c03.inner", "args": {"s": s, "k": case["k"]}},
                    {"fn": "c03.image", "args": {"s": s}}] + (
                        [{"fn": "c03.clear_with", "args": {"s": s, "bounds": case["custom"]}}] if "custom" in case else [])
        if kind == "backtrack":
            return [{"fn": "c03.backtrack", "args": {"t": case["t"], "s": case["s"], "k": case["k"],
                                                      "checks": case["checks"], "fuel": FUEL}}]
        if kind == "scheduler":
            return [{"fn": "c03.backtrack", "args": {"t": case["t"], "s": case["s"], "k": 1,
                                                      "checks": case["checks"], "fuel": FUEL}}]
        if kind == "from_map":
            return [{"fn": "c03.from_affine_map", "args": {"n": case["n"], "results": case["rs"]}}]
        if kind == "construct":
            return [{"fn": "c03.construct", "args": {"bounds": case["s"]["bounds"], "ops": case["s"]["ops"]}}]
        if kind == "pass":
            sizes = [ELEM[ty] for ty in ACC_TYPES[case["acc"]]]
            return [{"fn": "c03.autoflow", "args": dict({"t": template_of(case), "s": pass_op_sched(op), "sizes": sizes,
                                                          "fuel": FUEL}, **({"exprs": [None if op_exprs(op, k) is None else parsed_exprs(len(op["bounds"]), op_exprs(op, k))
                                                                       for k in range(3)]} if op_has_exprs(op) else {}))}
                    for op in case["ops"] if not op.get("tensor")]
        if kind == "template":
            return [{"fn": "c16.template", "args": {"acc": case["acc"], "geom": case.get("geom") or [8, 8, 8], "body": case.get("body", [])}}]
        if kind == "match":
            return [{"fn": "c16.matches", "args": {"t": case["t"], "s": case["s"]}}]
        if kind == "check":
            return [{"fn": "c16.check", "args": {"t": case["t"], "s": case["s"], "check": case["check"]}}]
        if kind == "ocs":
            return [{"fn": "c16.ocs", "args": {"t": case["t"], "s": case["s"], "ch": case["ch"]}}]
        return []

    def model(self, case, answers):
        for a in answers:
            if "err" in a:
                return {"model_error": a["err"]}
        kind = case["kind"]
        vals = [a["ok"] for a in answers]
        if kind == "xform":
            m = dict(zip(["rotate", "tile", "add_dim", "clear", "canon", "inner", "image", "clear_with"], vals))
            m["to_map"] = [dict(o) for o in case["s"]["ops"]]   # emission is the identity on (A, b)
            m["str"] = [{"bounds": [b if b else None for b in case["s"]["bounds"]], "A": o["A"], "b": o["b"]} for o in case["s"]["ops"]]
            m["max_dim"] = len(case["s"]["bounds"])
            if "custom" in case:
                m["eq_canon"] = m["canon"] == case["s"]   # equality of schedules = equality of (bounds, A, b)
                m["eq_self"] = True
            return m
        if kind in ("construct", "from_map"):
            return vals[0]
        if kind == "scheduler":
            # scheduler() = first (or idx-th) element of the search, or "no schedule"
            v = vals[0]
            if isinstance(v, dict) and "raised" in v:
                return v
            idx = case.get("idx")
            if idx is None:
                return {"result": v[0]} if v else {"raised": "StopIteration"}
            return {"result": v[idx]} if idx < len(v) else {"raised": "IndexError"}
        if kind == "pass":
            # every operation is scheduled on its own; an operation without any schedule makes the pass raise
            it = iter(vals)
            full = [{"unscheduled": True} if op.get("tensor") else next(it) for op in case["ops"]]
            for v in full:
                if isinstance(v, dict) and "raised" in v:
                    return v
            if len(case["ops"]) > 1:
                m = {"schedules": full, "alone": full}
                if sum(sum(op["bounds"]) for op in case["ops"]) % 3 == 0:
                    m["again"] = full
                return m
            return {"schedules": full}
        key = {"backtrack": "results", "match": "matches", "check": "holds", "ocs": "holds", "template": "template"}[kind]
        v = vals[0]
        if isinstance(v, dict) and "raised" in v:
            return v
        return {key: v}

    def stats_key(self, case, impl_out):
        k = case["kind"]
        if isinstance(impl_out, dict) and "raised" in impl_out:
            return f"{k}:raised:{impl_out['raised']}"
        if k == "pass":
            return f"pass:{case['acc']}:{len(case['ops'])} ops" + (":expr" if any(op_has_exprs(o) for o in case["ops"]) else "")
        if k == "from_map":
            return "from_map:accepted" + (":nonaffine-product" if any(has_dim_product(e) for e in case["rs"]) else "")
        if k == "scheduler":
            return "scheduler:returned" + ("" if case.get("idx") is None else ":idx")
        if k == "backtrack":
            n = len(impl_out["results"])
            return f"backtrack:{'0' if n == 0 else '1' if n == 1 else '2-9' if n < 10 else '10+'} results"
        return k

    # shrinking -------------------------------------------------------------------------------
    def shrink(self, case):
        if case.get("kind") == "pass":
            ops = case["ops"]
            for i in range(len(ops)):
                if len(ops) > 1:
                    yield dict(case, ops=ops[:i] + ops[i + 1:])
            for i, op in enumerate(ops):
                for k, b in enumerate(op["bounds"]):
                    for nb in (4, b // 2):
                        if 1 < nb < b:
                            nop = dict(op, bounds=op["bounds"][:k] + [nb] + op["bounds"][k + 1:])
                            yield dict(case, ops=ops[:i] + [nop] + ops[i + 1:])
            return
        if "s" not in case:
            return
        s = case["s"]
        n = len(s["bounds"])
        if len(s["ops"]) > 1:
            for j in range(len(s["ops"])):
                c = dict(case, s=dict(s, ops=s["ops"][:j] + s["ops"][j + 1:]))
                if "t" in case and len(case["t"]["ops"]) == len(s["ops"]):
                    c["t"] = dict(case["t"], ops=case["t"]["ops"][:j] + case["t"]["ops"][j + 1:])
                if "checks" in c:
                    c["checks"] = [ch if ch[0] != "mem" else ["mem", ch[1][:j] + ch[1][j + 1:]] for ch in c["checks"]]
                yield c
        for i in range(n):
            ops = [{"A": [row[:i] + row[i + 1:] for row in o["A"]], "b": o["b"]} for o in s["ops"]]
            c = dict(case, s={"bounds": s["bounds"][:i] + s["bounds"][i + 1:], "ops": ops})
            if case["kind"] == "xform":
                m = max(n - 1, 1)
                c.update(d_rot=min(case["d_rot"], m), d_tile=min(case["d_tile"], m - 1), k=min(case["k"], m))
            yield c
        for i in range(n):
            if s["bounds"][i] > 2:
                for nb in (2, s["bounds"][i] // 2):
                    yield dict(case, s=dict(s, bounds=s["bounds"][:i] + [nb] + s["bounds"][i + 1:]))
        for ch in range(len(case.get("checks", []))):
            yield dict(case, checks=case["checks"][:ch] + case["checks"][ch + 1:])
        for j, o in enumerate(s["ops"]):
            for r, row in enumerate(o["A"]):
                for i, x in enumerate(row):
                    if x not in (0, 1):
                        ops = [dict(p) for p in s["ops"]]
                        ops[j] = {"A": [list(rw) for rw in o["A"]], "b": o["b"]}
                        ops[j]["A"][r][i] = 1
                        yield dict(case, s=dict(s, ops=ops))


class C03(SchedProp):
    id = "C03"
    exhaustive_thorough = True
    trusted_base = [
        "modelled: SchedulePattern.rotate/tile_dim/add_dim, PatternCollection.clear_unused_dims/canonicalize/inner_dims, "
        "scheduler_backtrack (Model/Scheduler.lean); the matcher plugged into the model is the exact matchesQ (C16)",
        "AffineTransform.eval / numpy integer matmul are used by the oracle to enumerate the box",
    ]
    assumptions = [
        "all SchedulePatterns of one Schedule carry the same bounds (true of every constructor path in snaxc; the converter "
        "reports per-pattern bounds of real outputs and a difference is a disagreement)",
        "numpy int64 wrap-around is not modelled (generator entries <= 64 in magnitude, bounds <= 16)",
        "AutoflowScheduler (the xDSL rewrite around scheduler()) is covered through Schedule.canonicalize + scheduler_backtrack "
        "on the Schedule objects it builds, not through the IR pass (needs an accelerator context)",
        "the SVD matcher is compared with the exact matcher only for |entries| <= 64 (C16 / D27)",
    ]
    rule = ("xform: random schedule (0-5 dims, 1-4 operands, 0-3 rows, entries from a fixed signed set up to 64, volume <= 3000) "
            "with rotate/tile/add_dim/clear/canonicalize/inner_dims + image; backtrack: template (1-3 dims, bounded/unbounded) and a "
            "schedule containing the template columns with bounds below/multiple of/not divisible by the template bounds, extra "
            "outer dims, shuffled, 4 extra-check combinations, WHOLE result list compared; non-trivial = at least one result that "
            "differs from the input (backtrack) / any (xform). thorough adds the exhaustive space: 2 one-row operands, 1-3 dims, "
            "bounds in {1,2,4}, entries {0,1,2}x{0,1}, templates 1-2 dims with bounds in {2,None}, rows in {0,1}")

    def cases(self, rng, tier):
        nb, nx = (800, 800) if tier == "quick" else (6000, 6000)
        for _ in range(nx):
            yield gen_xform_case(rng)
        for _ in range(nb):
            yield gen_backtrack_case(rng, tier)
        for _ in range(150 if tier == "quick" else 3000):
            yield gen_construct_case(rng)
        for _ in range(120 if tier == "quick" else 2500):
            yield gen_pass_case(rng)
        for _ in range(400 if tier == "quick" else 8000):
            yield gen_from_map_case(rng)
        for _ in range(80 if tier == "quick" else 1500):
            yield gen_pass_expr_case(rng)
        for _ in range(60 if tier == "quick" else 1000):
            yield gen_pass_const_case(rng)
        for _ in range(25 if tier == "quick" else 400):
            yield gen_pass_sparse_case(rng)
        yield from CONV_PROBES
        for _ in range(10 if tier == "quick" else 150):
            yield gen_pass_conv_case(rng)
        if tier == "thorough":
            yield from exhaustive_small_space()

    def extra_search_cases(self, rng, tier):
        # finite: the main stream already runs the oracle on every case, this only widens it
        for _ in range(2500 if tier == "quick" else 60000):
            yield gen_xform_case(rng)
            yield gen_backtrack_case(rng, "thorough")
            yield gen_construct_case(rng)
            yield gen_pass_case(rng)
            yield gen_from_map_case(rng)
            yield gen_pass_expr_case(rng)
            yield gen_pass_const_case(rng)
            yield gen_pass_sparse_case(rng)

    def oracle(self, case, impl_out):
        """The property on the real objects: same multiset of operand-index tuples (numpy enumeration)."""
        out = self.purity_violations(impl_out)
        kind = case["kind"]
        if kind == "xform":
            s = mk_sched(case["s"])
            base = image_rows(s)
            n = len(case["s"]["bounds"])

            def chk(name, f, applicable=True):
                if not applicable:
                    return
                try:
                    r = f()
                except Exception as e:
                    out.append({"what": f"{name} raised {type(e).__name__} on a schedule inside its domain", "finding": None})
                    return
                try:
                    ok = same_multiset(image_rows(r), base)
                except Exception as e:
                    ok = False
                    name += f" ({type(e).__name__}: {e})"
                if not ok:
                    out.append({"what": f"{name} changes the multiset of operand-index tuples", "finding": None})
            d, dt, t = case["d_rot"], case["d_tile"], case["tf"]
            chk(f"rotate({d})", lambda: s.rotate(d), 1 <= d <= n)
            chk(f"tile_dim({dt},{t})", lambda: s.tile_dim(dt, t), dt < n and t > 0 and case["s"]["bounds"][dt] % t == 0)
            chk("add_dim()", lambda: s.add_dim())
            chk("clear_unused_dims()", lambda: s.clear_unused_dims())
            chk("canonicalize()", lambda: s.canonicalize())
            if isinstance(impl_out.get("to_map"), list):
                # the emitted maps, evaluated with xDSL's own AffineMap.eval at every point of the box
                pts = None
                for j, p in enumerate(s):
                    m = p.pattern.to_affine_map()
                    A, b = case["s"]["ops"][j]["A"], case["s"]["ops"][j]["b"]
                    trees = [of_x(r) for r in m.results]
                    if not any(has_divmod(e) or has_dim_product(e) for e in trees) and map_to_json(m) == {"A": A, "b": b}:
                        continue    # an affine expression with these unit responses agrees with A x + b at EVERY point
                    if pts is None:
                        pts = list(itertools.product(*[range(v) for v in case["s"]["bounds"]])) + [tuple(7 + 3 * i for i in range(n))]
                    for x in pts:
                        want = [sum(a * v for a, v in zip(row, x)) + c for row, c in zip(A, b)]
                        got = [int(v) for v in m.eval(list(x), [])]
                        if got != want:
                            out.append({"what": f"to_affine_map of operand {j} (A={A}, b={b}) emits {m}, which indexes {got} "
                                                f"instead of {want} at iteration {list(x)}", "finding": None})
                            break
                    if out:
                        break
            cb = case.get("custom")
            if cb is not None and len(cb) == n and all(b > 0 for b in cb):
                # with custom bounds the box is replaced first: compare with the schedule on the custom box
                base = image_of_json(dict(case["s"], bounds=cb))
                chk(f"clear_unused_dims({cb})", lambda: s.clear_unused_dims(tuple(cb)))
        elif kind == "from_map":
            # whenever the real construction ACCEPTS a map, (A, b) must evaluate like the map (true semantics, incl.
            # floordiv / mod / ceildiv) on every point of the box; a ValueError is fine
            if "raised" in impl_out:
                if not any(has_divmod(e) for e in case["rs"]):
                    out.append({"what": f"from_affine_map raised {impl_out['raised']} on a map without floordiv/mod/ceildiv",
                                "finding": None})
                return out
            if any(has_dim_product(e) for e in case["rs"]):
                return out      # raw d_i * d_j: not an affine expression, outside the quantifier (see C19 fromMap_nonlinear_fails)
            A, b = impl_out["A"], impl_out["b"]
            pts = list(itertools.product(*[range(v) for v in case["bounds"]])) + [tuple(7 + 3 * i for i in range(case["n"]))]
            for x in pts:
                want = [ev(e, x) for e in case["rs"]]
                got = [sum(a * v for a, v in zip(row, x)) + c for row, c in zip(A, b)]
                if got != want:
                    out.append({"what": f"from_affine_map accepted ({', '.join(expr_text(e) for e in case['rs'])}) and returned A={A}, "
                                        f"b={b}, which gives {got} instead of {want} at {list(x)}", "finding": None})
                    break
        elif kind == "construct":
            # whatever the real constructor ACCEPTS must be handled correctly by everything downstream
            try:
                s = mk_sched(case["s"])
            except ValueError:
                return out          # rejected: nothing is produced, nothing can be wrong
            sj = case["s"]
            base = image_of_json(sj)
            n = len(sj["bounds"])
            d, dt, t = case["d_rot"], case["d_tile"], case["tf"]

            def chk(name, f):
                try:
                    r = f()
                    rows = image_rows(r)
                except Exception as e:
                    out.append({"what": f"constructor accepted bounds {sj['bounds']} but {name} raised {type(e).__name__}",
                                "finding": None})
                    return None
                if not same_multiset(rows, base):
                    out.append({"what": f"constructor accepted bounds {sj['bounds']} ({len(base)} iterations) and {name} "
                                        f"yields bounds {list(r[0].bounds)} with {len(rows)} iterations / other operand-index tuples",
                                "finding": None})
                return r
            if 1 <= d <= n:
                chk(f"rotate({d})", lambda: s.rotate(d))
            if dt < n and t > 0 and sj["bounds"][dt] % t == 0:
                chk(f"tile_dim({dt},{t})", lambda: s.tile_dim(dt, t))
            chk("add_dim()", lambda: s.add_dim())
            chk("clear_unused_dims()", lambda: s.clear_unused_dims())
            c = chk("canonicalize()", lambda: s.canonicalize())
            if c is not None and not out:
                from snaxc.ir.dart.scheduler import scheduler_backtrack
                try:
                    for i, r in enumerate(itertools.islice(scheduler_backtrack(mk_tmpl(case["t"]), c), 50)):
                        if not same_multiset(image_rows(r), base):
                            out.append({"what": f"constructor accepted bounds {sj['bounds']} ({len(base)} iterations) and the scheduler "
                                                f"returns result #{i} with bounds {list(r[0].bounds)} visiting other operand-index tuples",
                                        "finding": None})
                            break
                except Exception:
                    pass            # exceptions of the search are compared by the backtrack correspondence
        elif kind == "pass":
            if "raised" in impl_out:
                return out          # no schedule exists for some operation: nothing was emitted
            scheds = impl_out["schedules"]
            if len(scheds) != len(case["ops"]):
                return [{"what": f"{len(case['ops'])} operations but {len(scheds)} ops after dart-scheduler", "finding": None}]
            for key, what in (("alone", "than when it is the only operation of its module"), ("again", "than in a second run of the same module")):
                if key in impl_out:
                    for i, (a, b) in enumerate(zip(scheds, impl_out[key])):
                        if a != b:
                            out.append({"what": f"dart-scheduler keeps state: operation #{i} of {len(scheds)} (bounds {case['ops'][i]['bounds']}) "
                                                f"gets a different dart.schedule (bounds {a.get('bounds')}) {what} (bounds {b.get('bounds')})",
                                        "finding": None})
                            break
            for i, (op, sj) in enumerate(zip(case["ops"], scheds)):
                if "unscheduled" in sj:
                    if not op.get("tensor"):
                        out.append({"what": f"operation #{i} was left unscheduled", "finding": None})
                    continue
                if not same_multiset(image_of_json(sj), image_of_passop(op)):
                    desc = "".join(f"operand {k} indexed by ({', '.join(expr_text(e) for e in op_exprs(op, k))}), "
                                   for k in range(3) if op_exprs(op, k) is not None)
                    out.append({"what": f"dart-scheduler: operation #{i} of {len(scheds)} ({desc}bounds {op['bounds']}, maps {op['maps']}) got a "
                                        f"dart.schedule with bounds {sj['bounds']}, first map A={sj['ops'][0]['A']} that visits a different "
                                        f"multiset of operand-index tuples than the operation's own access patterns", "finding": None})
        elif kind == "backtrack":
            if "raised" in impl_out:
                return out
            base = image_rows(mk_sched(case["s"]))
            for i, rj in enumerate(impl_out["results"]):
                if isinstance(rj["bounds"], dict):
                    out.append({"what": f"result #{i}: operands disagree on the iteration bounds {rj['bounds']}", "finding": None})
                    continue
                if not same_multiset(image_rows(mk_sched(rj)), base):
                    out.append({"what": f"result #{i} of scheduler_backtrack visits a different multiset of operand-index "
                                        f"tuples than the input schedule (bounds {rj['bounds']})", "finding": None})
                    break
        return out

    def nontrivial(self, case, impl_out):
        if case["kind"] == "pass":
            return "schedules" in impl_out and len(case["ops"]) > 1
        if case["kind"] == "construct":
            return True
        if case["kind"] == "from_map":
            return any(e[0] not in "dc" for e in case["rs"])
        if case["kind"] == "backtrack":
            return "results" in impl_out and any(r != case["s"] for r in impl_out["results"])
        return True


PROP = C03()
