"""C18 — kernel recognition and expansion preserve the scalar function.

Passes under test: convert-linalg-to-kernel, convert-kernel-to-linalg (LowerLinalgBody, LowerRescale), dispatch-kernels.

Committed state: the model is the code WITH fixes F05 (already in /repo), FC18a (fixes/FC18a-lower-linalg-body-canonical-guard.diff:
LowerLinalgBody only fires on canonically wired single-kernel bodies) and FC18c (fixes/FC18c-lower-rescale-golden-model.diff:
LowerRescale follows the golden model, all input/result widths, double rounding, per-channel rescales left alone).
C18_LOWER=upstream / C18_RESCALE=upstream select the models of the unpatched patterns (diagnostics only).
The model of `check_kernel_equivalence` is the code WITH fix F05
(fixes/F05-kernel-structural-match.diff) applied to $SNAX_REPO. Set C18_MODEL=upstream to compare against the
unpatched matcher (diagnostics only: D14 then shows up as oracle failures on the real code).

Every case carries a body in the model's JSON format; the harness renders MLIR from it, the real parser reads it,
the real pass runs, and the result is converted back (value numbering: block arguments, then op results in order).
The oracle interprets the real IR before and after with an independent two's complement interpreter
(kernel ops by their reference meaning over the integers) on extremes + random inputs.
"""
import hashlib
import importlib.util
import itertools
import os
import random

import compat  # noqa: F401
from framework import Prop

FIXED_MODEL = os.environ.get("C18_MODEL", "fixed") != "upstream"
# fixes/FC18c-lower-rescale-golden-model.diff and fixes/FC18a-lower-linalg-body-canonical-guard.diff: the committed model
# is the FIXED code; C18_RESCALE=upstream / C18_LOWER=upstream compare against the unpatched patterns (diagnostics only)
FIXED_RESCALE = os.environ.get("C18_RESCALE", "fixed") != "upstream"
FIXED_LOWER = os.environ.get("C18_LOWER", "fixed") != "upstream"
# fixes/FD15-dispatch-operand-types.diff is shipped but NOT applied (status open): C18_DISPATCH=fixed compares with its model
FIXED_DISPATCH = os.environ.get("C18_DISPATCH", "upstream") == "fixed"
CMPI_PREDS = ["eq", "ne", "slt", "sle", "sgt", "sge", "ult", "ule", "ugt", "uge"]
WIDTHS = [8, 16, 32, 64]
BIN = ["addi", "muli", "subi"]
KERNEL_NOPS = {"mul": 2, "add": 2, "mac": 2, "qmac": 4, "rescale": 1}
N_INPUTS = 20      # input tuples evaluated by the oracle per case
N_CORR = 4         # of which are also sent to the Lean evaluator


# ------------------------------------------------------------------------------------------------
# small helpers
def case_rng(case):
    return random.Random(int(hashlib.sha1(repr(sorted(case.items(), key=str)).encode()).hexdigest()[:12], 16))


def sgn(w, v):
    v &= (1 << w) - 1
    return v - (1 << w) if v >> (w - 1) else v


def extremes(w):
    return [0, 1, (1 << w) - 1, 1 << (w - 1), (1 << (w - 1)) - 1, 2, (1 << w) - 2]


def gen_inputs(rng, widths, n):
    out = []
    for k in range(n):
        tup = []
        for w in widths:
            if k < 3 or rng.random() < 0.4:
                tup.append([w, rng.choice(extremes(w))])
            else:
                tup.append([w, rng.getrandbits(w)])
        out.append(tup)
    return out


def value_widths(body):
    ws = list(body["args"])
    for op in body["ops"]:
        ws.append(op[2])
    return ws


def ref_width(ws, r):
    return ws[r[1]] if r[0] == "v" else r[1]


# ------------------------------------------------------------------------------------------------
# rendering a case to MLIR text
def _ref_name(r, outer):
    if r[0] == "v":
        return f"%v{r[1]}"
    key = (r[1], r[2])
    if key not in outer:
        outer[key] = f"%c{len(outer)}"
    return outer[key]


def arith_line(kind, args, w, res, ws, outer):
    names = [_ref_name(a, outer) for a in args]
    if kind in ("addi", "muli", "subi", "shrsi", "minsi", "maxsi"):
        return f"  {res} = arith.{kind} {names[0]}, {names[1]} : i{w}"
    if kind in ("extsi", "trunci"):
        return f"  {res} = arith.{kind} {names[0]} : i{ref_width(ws, args[0])} to i{w}"
    if isinstance(kind, list) and kind[0] == "cmpi":
        return f"  {res} = arith.cmpi {CMPI_PREDS[kind[1]]}, {names[0]}, {names[1]} : i{ref_width(ws, args[0])}"
    if kind == "select":
        return f"  {res} = arith.select {names[0]}, {names[1]}, {names[2]} : i{w}"
    if isinstance(kind, list) and kind[0] == "const":
        return f"  {res} = arith.constant {kind[1]} : i{w}"
    if isinstance(kind, list) and kind[0] == "other":
        return f"  {res} = {kind[1]} {names[0]}, {names[1]} : i{w}"
    raise ValueError(kind)


def render_ops(body, outer):
    ws = value_widths(body)
    n = len(body["args"])
    return [arith_line(kind, args, w, f"%v{n + j}", ws, outer) for j, (kind, args, w) in enumerate(body["ops"])]


def is_kop(op):
    return op[0] == "k"


def mvalue_widths(mb):
    return list(mb["args"]) + [op[4] if is_kop(op) else op[2] for op in mb["ops"]]


def render_mbody_case(mb, accs=(), dynamic=False, library_call=None):
    """a body mixing kernel ops ["k", kernel, operands, opTypes, resWidth] and arith ops [kind, operands, width]"""
    outer = {}
    ws = mvalue_widths(mb)
    n = len(mb["args"])
    lines = []
    for j, op in enumerate(mb["ops"]):
        res = f"%v{n + j}"
        if is_kop(op):
            lines.append(kernel_line({"kernel": op[1], "operands": op[2], "opTypes": op[3], "resWidth": op[4]}, res, outer))
        else:
            lines.append(arith_line(op[0], op[1], op[2], res, ws, outer))
    ret = mb["ret"]
    y = "  linalg.yield " + ", ".join(_ref_name(r, outer) for r in ret) + " : " + ", ".join(f"i{ref_width(ws, r)}" for r in ret)
    return render_module(mb["args"], lines, y, outer, accs, dynamic, library_call)


def render_module(args, body_lines, yield_line, outer, accs=(), dynamic=False, library_call=None):
    n = len(args)
    dim = "?" if dynamic else "8"
    tys = [f"memref<{dim}xi{w}>" for w in args]
    maps = ", ".join(["affine_map<(d0) -> (d0)>"] * n)
    head = [f'"accfg.accelerator"() <{{name = @{a}, fields = {{}}, launch_fields = {{}}, barrier = 0 : i32}}> : () -> ()'
            for a in accs]
    head.append(f'{", ".join(f"%m{i}" for i in range(n))} = "test.op"() : () -> ({", ".join(tys)})')
    for (w, c), name in outer.items():
        head.append(f"{name} = arith.constant {sgn(w, c)} : i{w}")
    lib = f', library_call = "{library_call}"' if library_call else ""
    blockargs = ", ".join(f"%v{i} : i{w}" for i, w in enumerate(args))
    return "\n".join(head + [
        f'linalg.generic {{indexing_maps = [{maps}], iterator_types = ["parallel"]{lib}}} '
        f'ins({", ".join(f"%m{i}" for i in range(n - 1))} : {", ".join(tys[:-1])}) outs(%m{n - 1} : {tys[-1]}) {{',
        f"^bb0({blockargs}):"] + body_lines + [yield_line, "}"]) + "\n"


def render_body_case(body):
    outer = {}
    lines = render_ops(body, outer)
    ws = value_widths(body)
    ret = body["ret"]
    y = "  linalg.yield " + ", ".join(_ref_name(r, outer) for r in ret) + " : " + ", ".join(f"i{ref_width(ws, r)}" for r in ret)
    return render_module(body["args"], lines, y, outer)


def kernel_line(kb, res, outer):
    names = [_ref_name(a, outer) for a in kb["operands"]]
    tys = [f"i{w}" for w in kb["opTypes"]]
    k = kb["kernel"]
    if k == "qmac":
        return (f"  {res} = kernel.qmac {names[0]}, {names[1]} zp_lhs : {names[2]} zp_rhs : {names[3]} : "
                f"{', '.join(tys)} -> i{kb['resWidth']}")
    return f"  {res} = kernel.{k} {names[0]}, {names[1]} : {tys[0]}, {tys[1]} -> i{kb['resWidth']}"


def render_kbody_case(kb, accs=(), dynamic=False, library_call=None, fused=False):
    outer = {}
    n = len(kb["args"])
    lines = [kernel_line(kb, f"%v{n}", outer)]
    ws = list(kb["args"]) + [kb["resWidth"]]
    if fused:  # a second op between the kernel op and the yield
        lines.append(f"  %v{n + 1} = arith.addi %v{n}, %v{n} : i{kb['resWidth']}")
        ws.append(kb["resWidth"])
    ret = kb["ret"]
    y = "  linalg.yield " + ", ".join(_ref_name(r, outer) for r in ret) + " : " + ", ".join(f"i{ref_width(ws, r)}" for r in ret)
    return render_module(kb["args"], lines, y, outer, accs, dynamic, library_call)


def render_rescale_case(case):
    p = case["params"]
    a = case["args"]
    arr = lambda l: "array<i32" + (": " + ", ".join(str(x) for x in l) if l else "") + ">"
    attrs = (f'"input_zp" = {p["input_zp"]} : i32, "output_zp" = {p["output_zp"]} : i32, "multiplier" = {arr(p["multiplier"])}, '
             f'"shift" = {arr(p["shift"])}, "max_int" = {p["max_int"]} : i32, "min_int" = {p["min_int"]} : i32, '
             f'"double_round" = {"true" if p["double_round"] else "false"}')
    lines = [f"  %v2 = kernel.rescale %v0 {{{attrs}}} : (i{a[0]}) -> i{a[1]}"]
    return render_module(a, lines, f"  linalg.yield %v2 : i{a[1]}", {})


# ------------------------------------------------------------------------------------------------
# real IR -> model JSON, and the independent interpreter (oracle semantics)
ARITH_KINDS = {"arith.select": "select", "arith.addi": "addi", "arith.muli": "muli", "arith.subi": "subi", "arith.extsi": "extsi",
               "arith.trunci": "trunci", "arith.shrsi": "shrsi", "arith.minsi": "minsi", "arith.maxsi": "maxsi"}
KERNEL_NAMES = {"kernel.mul": "mul", "kernel.add": "add", "kernel.mac": "mac", "kernel.qmac": "qmac",
                "kernel.rescale": "rescale"}


class Unsupported(Exception):
    pass


def _width(t):
    from xdsl.dialects.builtin import IntegerType
    if not isinstance(t, IntegerType):
        raise Unsupported(f"non-integer type {t}")
    return t.width.data


def find_generic(mod):
    from xdsl.dialects import linalg
    gs = [op for op in mod.walk() if isinstance(op, linalg.GenericOp)]
    if len(gs) != 1:
        raise Unsupported(f"{len(gs)} linalg.generic ops")
    return gs[0]


class BlockView:
    """numbering of the values of a linalg body + conversion of operands"""

    def __init__(self, block):
        from xdsl.dialects import linalg
        self.block = block
        self.index = {}
        for a in block.args:
            self.index[a] = len(self.index)
        self.ops = list(block.ops)
        if not self.ops or not isinstance(self.ops[-1], linalg.YieldOp):
            raise Unsupported("body does not end with linalg.yield")
        for op in self.ops[:-1]:
            if len(op.results) != 1:
                raise Unsupported(f"{op.name} has {len(op.results)} results")
            self.index[op.results[0]] = len(self.index)
        self.args = [_width(a.type) for a in block.args]

    def ref(self, v):
        from xdsl.dialects import arith
        from xdsl.ir import OpResult
        if v in self.index:
            return ["v", self.index[v]]
        if isinstance(v, OpResult) and isinstance(v.op, arith.ConstantOp):
            return ["o", _width(v.type), v.op.value.value.data]
        if isinstance(v, OpResult) and v.op.name == "test.op" and "val" in v.op.attributes:
            # an outside value that is NOT a constant op (function argument, loop-carried value ...): the harness fixes the
            # value it has at run time in an attribute so that the interpreter and the model agree on it
            return ["o", _width(v.type), v.op.attributes["val"].value.data]
        raise Unsupported("operand defined outside the block is not a constant")

    def ret(self):
        return [self.ref(v) for v in self.ops[-1].operands]

    def kernel_op(self):
        """the kernel op if the body is [kernel op, yield]"""
        from snaxc.dialects.kernel import KernelOp
        if len(self.ops) == 2 and isinstance(self.ops[0], KernelOp):
            return self.ops[0]
        return None

    def body_json(self):
        from xdsl.dialects import arith
        from xdsl.traits import Commutative
        ops = []
        for op in self.ops[:-1]:
            w = _width(op.results[0].type)
            if op.name in ARITH_KINDS:
                kind = ARITH_KINDS[op.name]
            elif isinstance(op, arith.CmpiOp):
                kind = ["cmpi", op.predicate.value.data]
            elif isinstance(op, arith.ConstantOp):
                kind = ["const", op.value.value.data]
            elif op.name.startswith("kernel."):
                raise Unsupported("kernel op in an arith body")
            else:
                kind = ["other", op.name, bool(op.has_trait(Commutative))]
            ops.append([kind, [self.ref(v) for v in op.operands], w])
        return {"args": self.args, "ops": ops, "ret": self.ret()}

    def mbody_json(self):
        """mixed form: kernel ops and arith ops in any order"""
        ops = []
        for j, op in enumerate(self.ops[:-1]):
            if op.name in KERNEL_NAMES:
                if op.name == "kernel.rescale":
                    raise Unsupported("kernel.rescale in a mixed body")
                ops.append(["k", KERNEL_NAMES[op.name], [self.ref(v) for v in op.operands],
                            [_width(v.type) for v in op.operands], _width(op.results[0].type)])
            else:
                ops.append(self._arith_json(op))
        return {"args": self.args, "ops": ops, "ret": self.ret()}

    def _arith_json(self, op):
        from xdsl.dialects import arith
        from xdsl.traits import Commutative
        w = _width(op.results[0].type)
        if op.name in ARITH_KINDS:
            kind = ARITH_KINDS[op.name]
        elif isinstance(op, arith.CmpiOp):
            kind = ["cmpi", op.predicate.value.data]
        elif isinstance(op, arith.ConstantOp):
            kind = ["const", op.value.value.data]
        else:
            kind = ["other", op.name, bool(op.has_trait(Commutative))]
        return [kind, [self.ref(v) for v in op.operands], w]

    def kbody_json(self):
        k = self.kernel_op()
        return {"args": self.args, "kernel": KERNEL_NAMES[k.name], "operands": [self.ref(v) for v in k.operands],
                "opTypes": [_width(v.type) for v in k.operands], "resWidth": _width(k.results[0].type), "ret": self.ret()}


def kernel_meaning(name, vals, acc, rw):
    """reference meaning of a kernel over the integers: signed operands, accumulate on the output element,
    wrap to the result width. vals/acc = (width, unsigned value)."""
    s = [sgn(w, v) for w, v in vals]
    c = sgn(*acc)
    if name == "mul":
        r = s[0] * s[1]
    elif name == "add":
        r = s[0] + s[1]
    elif name == "mac":
        r = c + s[0] * s[1]
    elif name == "qmac":
        r = c + (s[0] - s[2]) * (s[1] - s[3])
    else:
        raise Unsupported(name)
    return (rw, r & ((1 << rw) - 1))


def kernel_typed(name, tys):
    """well-typed kernel instances (the equivalent region verifies as arith IR and yields the result type)"""
    if name in ("mul", "add") and len(tys) == 3:
        return tys[0] == tys[2] and tys[1] == tys[2]
    if name == "mac" and len(tys) == 3:
        return (tys[0] == tys[2] and tys[1] == tys[2]) or (tys[0] < tys[2] and tys[1] < tys[2])
    if name == "qmac" and len(tys) == 5:
        return tys[0] < tys[4] and tys[1] < tys[4] and tys[2] == tys[4] and tys[3] == tys[4]
    return False


def interpret(view, ins):
    """evaluate the real block on ins = [[w, unsigned v]…]; None = ill-typed / poison / no semantics"""
    from xdsl.dialects import arith
    if [w for w, _ in ins] != view.args:
        return None
    env = {}
    for a, (w, v) in zip(view.block.args, ins):
        env[a] = (w, v & ((1 << w) - 1))

    def get(v):
        if v in env:
            return env[v]
        r = view.ref(v)
        if r[0] == "o":
            return (r[1], r[2] & ((1 << r[1]) - 1))
        return None

    for op in view.ops[:-1]:
        vals = [get(v) for v in op.operands]
        if any(x is None for x in vals):
            return None
        rw = _width(op.results[0].type)
        mask = (1 << rw) - 1
        name = op.name
        if name in ("arith.addi", "arith.muli", "arith.subi", "arith.shrsi", "arith.minsi", "arith.maxsi"):
            (wa, a), (wb, b) = vals
            if wa != rw or wb != rw:
                return None
            if name == "arith.addi":
                r = (a + b) & mask
            elif name == "arith.muli":
                r = (a * b) & mask
            elif name == "arith.subi":
                r = (a - b) & mask
            elif name == "arith.shrsi":
                if b >= rw:
                    return None  # poison
                r = (sgn(rw, a) >> b) & mask
            elif name == "arith.minsi":
                r = a if sgn(rw, a) < sgn(rw, b) else b
            else:
                r = a if sgn(rw, a) > sgn(rw, b) else b
        elif name == "arith.cmpi":
            (wa, a), (wb, b) = vals
            if wa != wb or rw != 1:
                return None
            sa, sb = sgn(wa, a), sgn(wa, b)
            r = int([a == b, a != b, sa < sb, sa <= sb, sa > sb, sa >= sb, a < b, a <= b, a > b, a >= b][op.predicate.value.data])
        elif name == "arith.select":
            (wc, c), (wa, a), (wb, b) = vals
            if wc != 1 or wa != rw or wb != rw:
                return None
            r = a if c == 1 else b
        elif name == "arith.extsi":
            (wa, a), = vals
            if not wa < rw:
                return None
            r = sgn(wa, a) & mask
        elif name == "arith.trunci":
            (wa, a), = vals
            if not rw < wa:
                return None
            r = a & mask
        elif isinstance(op, arith.ConstantOp):
            r = op.value.value.data & mask
        elif name in KERNEL_NAMES and name != "kernel.rescale":
            if [w for w, _ in vals] != [_width(v.type) for v in op.operands]:
                return None
            _, r = kernel_meaning(KERNEL_NAMES[name], vals, env[view.block.args[-1]], rw)
        else:
            return None
        env[op.results[0]] = (rw, r)
    out = [get(v) for v in view.ops[-1].operands]
    if any(x is None for x in out):
        return None
    return [[w, v] for w, v in out]


def parse_checked(src):
    import snaxrun
    mod = snaxrun.parse(src)
    mod.verify()
    return mod


# ------------------------------------------------------------------------------------------------
# the dispatch tables of the real accelerator classes
_TABLE = None


def acc_table():
    global _TABLE
    if _TABLE is None:
        import snaxrun
        from snaxc.accelerators.dispatching import DispatchTemplate
        from snaxc.accelerators.snax import SNAXStreamer
        c = snaxrun.ctx()
        t = {}
        for name in c._registered_accelerators:
            a = c.get_acc(name)
            if isinstance(a, DispatchTemplate):
                t[name] = {"name": a.name, "streamer": isinstance(a, SNAXStreamer),
                           "supported": [[KERNEL_NAMES[k.kernel_type.name], [_width(x) for x in k.operand_types]]
                                         for k in a.supported_kernels]}
            else:
                t[name] = None
        _TABLE = t
    return _TABLE


_GOLDEN = None


def golden_model():
    """postprocessing_simd_golden_model of the tree under test (util/ is not a package of snaxc)"""
    global _GOLDEN
    if _GOLDEN is None:
        repo = os.environ.get("SNAX_REPO", "/repo")
        spec = importlib.util.spec_from_file_location("c18_simd_golden_model", os.path.join(repo, "util/gemmx/simd_golden_model.py"))
        m = importlib.util.module_from_spec(spec)
        spec.loader.exec_module(m)
        _GOLDEN = m.postprocessing_simd_golden_model
    return _GOLDEN


# ------------------------------------------------------------------------------------------------
# generators
def region_json(kernel, tys):
    """the canonical bodies (harness-side copy used only to build inputs)"""
    v = lambda i: ["v", i]
    if kernel in ("mul", "add"):
        return {"args": tys, "ops": [[kernel + "i", [v(0), v(1)], tys[0]]], "ret": [v(3)]}
    if kernel == "mac":
        if tys[0] == tys[2]:
            return {"args": tys, "ops": [["muli", [v(0), v(1)], tys[0]], ["addi", [v(2), v(3)], tys[2]]], "ret": [v(4)]}
        return {"args": tys, "ops": [["extsi", [v(0)], tys[2]], ["extsi", [v(1)], tys[2]], ["muli", [v(3), v(4)], tys[2]],
                                     ["addi", [v(2), v(5)], tys[2]]], "ret": [v(6)]}
    if kernel == "qmac":
        return {"args": tys, "ops": [["extsi", [v(0)], tys[2]], ["subi", [v(5), v(2)], tys[2]], ["extsi", [v(1)], tys[3]],
                                     ["subi", [v(7), v(3)], tys[3]], ["muli", [v(6), v(8)], tys[2]],
                                     ["addi", [v(4), v(9)], tys[4]]], "ret": [v(10)]}
    raise ValueError(kernel)


def gen_typed_tys(rng, kernel):
    if kernel in ("mul", "add"):
        w = rng.choice(WIDTHS)
        return [w, w, w]
    if kernel == "mac":
        if rng.random() < 0.4:
            w = rng.choice(WIDTHS)
            return [w, w, w]
        c = rng.choice([16, 32, 64])
        return [rng.choice([w for w in WIDTHS if w < c]), rng.choice([w for w in WIDTHS if w < c]), c]
    c = rng.choice([16, 32, 64])
    return [rng.choice([w for w in WIDTHS if w < c]), rng.choice([w for w in WIDTHS if w < c]), c, c, c]


def commute(rng, body):
    """swap the operands of some commutative ops (same function, must still be recognised)"""
    ops = []
    for kind, args, w in body["ops"]:
        if kind in ("addi", "muli") and rng.random() < 0.5:
            args = args[::-1]
        ops.append([kind, list(args), w])
    return dict(body, ops=ops)


def mutate(rng, body):
    """one small change of wiring / kind / type / order; the result stays op-level well-typed or is rejected
    by the real verifier (-> invalid_input)"""
    b = {"args": list(body["args"]), "ops": [[k, [list(a) for a in args], w] for k, args, w in body["ops"]],
         "ret": [list(r) for r in body["ret"]]}
    ws = value_widths(b)
    n = len(b["args"])
    m = rng.randrange(8)
    withargs = [j for j, o in enumerate(b["ops"]) if o[1]]
    if m in (0, 5) and not withargs:
        m = 3
    if m == 0:                   # rewire one operand to another value of the same width defined before
        j = rng.choice(withargs)
        k = rng.randrange(len(b["ops"][j][1]))
        w = ref_width(ws, b["ops"][j][1][k])
        cands = [i for i in range(n + j) if ws[i] == w and ["v", i] != b["ops"][j][1][k]]
        if cands:
            b["ops"][j][1][k] = ["v", rng.choice(cands)]
    elif m == 1 and b["ops"]:    # swap the operands of one binary op (changes the function only for subi)
        j = rng.randrange(len(b["ops"]))
        b["ops"][j][1] = b["ops"][j][1][::-1]
    elif m == 2 and b["ops"]:    # another binary kind
        js = [j for j, o in enumerate(b["ops"]) if o[0] in BIN]
        if js:
            j = rng.choice(js)
            b["ops"][j][0] = rng.choice([k for k in BIN if k != b["ops"][j][0]])
    elif m == 3:                 # yield another value of the same width
        w = ref_width(ws, b["ret"][0])
        cands = [i for i in range(len(ws)) if ws[i] == w and ["v", i] != b["ret"][0]]
        if cands:
            b["ret"][0] = ["v", rng.choice(cands)]
    elif m == 4 and len(b["ops"]) >= 2:   # exchange two adjacent independent ops (same function, different order)
        j = rng.randrange(len(b["ops"]) - 1)
        if ["v", n + j] not in b["ops"][j + 1][1]:
            ren = {n + j: n + j + 1, n + j + 1: n + j}
            b["ops"][j], b["ops"][j + 1] = b["ops"][j + 1], b["ops"][j]
            fix = lambda r: ["v", ren.get(r[1], r[1])] if r[0] == "v" else r
            for o in b["ops"]:
                o[1] = [fix(r) for r in o[1]]
            b["ret"] = [fix(r) for r in b["ret"]]
    elif m == 5:                 # an operand becomes a constant defined outside the block
        j = rng.choice(withargs)
        k = rng.randrange(len(b["ops"][j][1]))
        w = ref_width(ws, b["ops"][j][1][k])
        b["ops"][j][1][k] = ["o", w, rng.choice([0, 1, 3, -1])]
    elif m == 6:                 # an extra op in front (all value numbers after the arguments shift by one)
        w = b["args"][-1]
        sh = lambda r: ["v", r[1] + 1] if r[0] == "v" and r[1] >= n else r
        for o in b["ops"]:
            o[1] = [sh(r) for r in o[1]]
        b["ret"] = [sh(r) for r in b["ret"]]
        extra = rng.choice([[["const", rng.choice([0, 1, 7])], [], w], ["addi", [["v", n - 1], ["v", n - 1]], w],
                            [["other", "arith.andi", True], [["v", n - 1], ["v", n - 1]], w]])
        b["ops"].insert(0, extra)
    else:                        # change an argument width (types of the ops follow where they are derived from it)
        i = rng.randrange(n)
        b["args"][i] = rng.choice(WIDTHS)
    return b


def gen_random_body(rng, max_ops=4):
    n = rng.choice([2, 3, 3, 3, 3, 5])
    base = rng.choice(WIDTHS)
    args = [rng.choice([base, base, rng.choice(WIDTHS)]) for _ in range(n)]
    ws = list(args)
    ops = []
    for _ in range(rng.randint(1, max_ops)):
        if rng.random() < 0.3:
            src = rng.randrange(len(ws))
            wider = [w for w in WIDTHS if w > ws[src]]
            if wider:
                w = rng.choice(wider) if rng.random() < 0.3 else min(wider, key=lambda x: abs(x - args[-1]))
                ops.append(["extsi", [["v", src]], w])
                ws.append(w)
                continue
        a = rng.randrange(len(ws))
        same = [i for i in range(len(ws)) if ws[i] == ws[a]]
        if rng.random() < 0.08 and ws[a] != 1:
            b = rng.choice(same)
            ops.append([["cmpi", rng.randrange(10)], [["v", a], ["v", b]], 1])
            ws.append(1)
            ops.append(["select", [["v", len(ws) - 1], ["v", a], ["v", b]], ws[a]])
            ws.append(ws[a])
            continue
        ops.append([rng.choice(BIN), [["v", a], ["v", rng.choice(same)]], ws[a]])
        ws.append(ws[a])
    good = [i for i in range(len(ws)) if ws[i] == args[-1]]
    if good and rng.random() < 0.93:
        r = rng.choice([good[-1], rng.choice(good)])
    else:
        r = len(ws) - 1
    return {"args": args, "ops": ops, "ret": [["v", r]]}


def enum_bodies(args, nops):
    """all bodies of exactly nops ops over addi/muli/subi/extsi on the given argument widths, every wiring and
    operand order, yielding any value of the output width"""
    def rec(ws, ops):
        if len(ops) == nops:
            for i in range(len(ws)):
                if ws[i] == args[-1]:
                    yield {"args": list(args), "ops": [list(o) for o in ops], "ret": [["v", i]]}
            return
        for a in range(len(ws)):
            for w in WIDTHS:
                if w > ws[a] and w <= max(args):
                    yield from rec(ws + [w], ops + [["extsi", [["v", a]], w]])
            for b in range(len(ws)):
                if ws[a] == ws[b]:
                    for k in BIN:
                        yield from rec(ws + [ws[a]], ops + [[k, [["v", a], ["v", b]], ws[a]]])
    yield from rec(list(args), [])


def enum_wirings(args, kinds, outw):
    """all wirings of a fixed op-kind sequence (extsi always to outw)"""
    def rec(ws, ops, rest):
        if not rest:
            for i in range(len(ws)):
                if ws[i] == args[-1]:
                    yield {"args": list(args), "ops": [list(o) for o in ops], "ret": [["v", i]]}
            return
        k = rest[0]
        if k == "extsi":
            for a in range(len(ws)):
                if ws[a] < outw:
                    yield from rec(ws + [outw], ops + [["extsi", [["v", a]], outw]], rest[1:])
        else:
            for a in range(len(ws)):
                for b in range(len(ws)):
                    if ws[a] == ws[b]:
                        yield from rec(ws + [ws[a]], ops + [[k, [["v", a], ["v", b]], ws[a]]], rest[1:])
    yield from rec(list(args), [], list(kinds))


def gen_kbody(rng):
    k = rng.choice(["mul", "add", "mac", "mac", "qmac"])
    tys = gen_typed_tys(rng, k)
    n = len(tys)
    kb = {"args": tys, "kernel": k, "operands": [["v", i] for i in range(n - 1)], "opTypes": tys[:-1],
          "resWidth": tys[-1], "ret": [["v", n]]}
    r = rng.random()
    if r < 0.45:
        return kb                       # canonical wiring
    if r < 0.6:                         # permute two operands of the same type (changes the function only for qmac zero points / operands)
        pairs = [(i, j) for i in range(n - 1) for j in range(i + 1, n - 1) if tys[i] == tys[j]]
        if pairs:
            i, j = rng.choice(pairs)
            kb["operands"][i], kb["operands"][j] = kb["operands"][j], kb["operands"][i]
        return kb
    if r < 0.8:                         # rewire an operand to another block argument of the same width
        i = rng.randrange(n - 1)
        cands = [j for j in range(n) if tys[j] == tys[i] and j != i]
        if cands:
            kb["operands"][i] = ["v", rng.choice(cands)]
        return kb
    if r < 0.9:                         # the yield returns a block argument instead of the kernel's result
        cands = [j for j in range(n) if tys[j] == tys[-1]]
        kb["ret"] = [["v", rng.choice(cands)]]
        return kb
    # untyped instance (the region does not verify): widths shuffled
    kb["args"] = [rng.choice(WIDTHS) for _ in tys]
    kb["opTypes"] = kb["args"][:-1]
    kb["resWidth"] = kb["args"][-1]
    return kb


def gen_fused(rng):
    """bodies with a kernel op followed by further kernel / arith ops before the yield, or with a kernel op that is
    not the first op; every kernel instance is well typed"""
    c = rng.choice([16, 32, 32, 64])
    narrow = [w for w in WIDTHS if w < c]
    first = rng.choice(["mul", "add", "mac", "macx", "qmac", "arith", "arith"])
    if first in ("mul", "add", "mac", "arith"):
        args = [c, c, c] if rng.random() < 0.7 else [rng.choice(narrow), rng.choice(narrow), c]
    elif first == "macx":
        args = [rng.choice(narrow), rng.choice(narrow), c]
    else:
        args = [rng.choice(narrow), rng.choice(narrow), c, c, c]
    ws = list(args)
    ops = []

    def pick(w):
        return ["v", rng.choice([i for i in range(len(ws)) if ws[i] == w])]

    def add_kernel(k):
        if k in ("mul", "add"):
            ops.append(["k", k, [pick(c), pick(c)], [c, c], c])
        elif k == "mac":
            ops.append(["k", "mac", [pick(c), pick(c)], [c, c], c])
        elif k == "macx":
            cands = [i for i in range(len(ws)) if ws[i] < c]
            a, b = rng.choice(cands), rng.choice(cands)
            ops.append(["k", "mac", [["v", a], ["v", b]], [ws[a], ws[b]], c])
        else:
            cands = [i for i in range(len(ws)) if ws[i] < c]
            a, b = rng.choice(cands), rng.choice(cands)
            ops.append(["k", "qmac", [["v", a], ["v", b], pick(c), pick(c)], [ws[a], ws[b], c, c], c])
        ws.append(c)

    def add_arith():
        cands = [i for i in range(len(ws)) if ws[i] < c]
        if cands and rng.random() < 0.3:
            ops.append(["extsi", [["v", rng.choice(cands)]], c])
        else:
            ops.append([rng.choice(BIN), [pick(c), pick(c)], c])
        ws.append(c)

    def kernel_choices():
        ks = ["mul", "add", "mac"]
        if any(w < c for w in ws):
            ks += ["macx", "qmac"]
        return ks

    canonical_first = rng.random() < 0.6
    if first == "arith":
        add_arith()
    elif canonical_first and (first in ("macx", "qmac") or args == [c, c, c]):
        # the first op is exactly what convert-linalg-to-kernel writes; what follows makes the body fused
        n = len(args)
        ops.append(["k", "mac" if first == "macx" else first, [["v", i] for i in range(n - 1)], args[:-1], c])
        ws.append(c)
    else:
        add_kernel(first if first in kernel_choices() else rng.choice(kernel_choices()))
    for _ in range(rng.choice([1, 1, 1, 2, 2, 3])):
        if rng.random() < 0.5 or (first == "arith" and not any(is_kop(o) for o in ops)):
            add_kernel(rng.choice(kernel_choices()))
        else:
            add_arith()
    # mostly the later ops use the first result and the last value is yielded (a real fusion)
    if rng.random() < 0.7 and len(ops) >= 2 and not is_kop(ops[-1]) and len(ops[-1][1]) == 2:
        ops[-1][1][0] = ["v", len(args)]
    elif rng.random() < 0.7 and len(ops) >= 2 and is_kop(ops[-1]) and ops[-1][1] in ("mul", "add", "mac") and ops[-1][3] == [c, c]:
        ops[-1][2][0] = ["v", len(args)]
    r = len(ws) - 1 if rng.random() < 0.85 else rng.choice([i for i in range(len(ws)) if ws[i] == c])
    return {"kind": "fused", "mbody": {"args": args, "ops": ops, "ret": [["v", r]]}}


def gen_rescale(rng):
    s32 = lambda: rng.choice([0, 0, 1, -1, 23, -15, 127, -128, rng.randint(-1000, 1000), rng.randint(-2**31, 2**31 - 1)])
    nch = rng.choice([1, 1, 1, 1, 2, 3])
    lo, hi = sorted([rng.choice([-128, -128, -110, -1, 0, rng.randint(-128, 127)]), rng.choice([127, 127, 100, 0, rng.randint(-128, 127)])])
    if rng.random() < 0.04:
        lo, hi = hi, lo
    p = {"input_zp": s32(), "output_zp": rng.choice([0, 0, -15, 3, rng.randint(-128, 127), s32()]),
         "multiplier": [rng.choice([1, 2, 1140768826, 65536, rng.randint(1, 2**31 - 1), rng.randint(-2**31, 2**31 - 1)]) for _ in range(nch)],
         "shift": [rng.choice([1, 2, 31, 32, 40, 47, 62, 63, rng.randint(1, 63), rng.randint(1, 63), rng.choice([0, 64, 70])])
                   for _ in range(nch)],
         "max_int": hi, "min_int": lo, "double_round": rng.random() < 0.25}
    if rng.random() < 0.03:
        p["multiplier"] = []
    # input / result types: mostly the accelerator's (i32) -> i8, also rescale-up (i8) -> i32 and every other combination
    r = rng.random()
    args = [32, 8] if r < 0.6 else [8, 32] if r < 0.7 else [rng.choice([8, 16, 32]), rng.choice([8, 16, 32, 32, 64])]
    wi, wr = args
    if wr != 8 and rng.random() < 0.7:   # a clamp range that uses the wider result type
        lo_r, hi_r = -(1 << (min(wr, 32) - 1)), (1 << (min(wr, 32) - 1)) - 1
        p["min_int"], p["max_int"] = sorted([rng.choice([lo_r, lo_r, -1000, rng.randint(lo_r, 0)]), rng.choice([hi_r, hi_r, 900, rng.randint(0, hi_r)])])
    if nch > 1 and p["multiplier"] and rng.random() < 0.4:   # per-channel arrays that happen to be uniform
        p["multiplier"] = [p["multiplier"][0]] * len(p["multiplier"])
        p["shift"] = [p["shift"][0]] * len(p["shift"])
    lo_i, hi_i = -(1 << (wi - 1)), (1 << (wi - 1)) - 1
    xs = []
    for _ in range(N_INPUTS):
        r = rng.random()
        if r < 0.3:
            xs.append(rng.choice([0, 1, -1, hi_i, lo_i, 32768, -8737248, 12345, 100, -100]))
        elif r < 0.7:
            xs.append(rng.randint(-10**7, 10**7))
        else:
            xs.append(rng.randint(lo_i, hi_i))
    xs = [max(lo_i, min(hi_i, x)) for x in xs]
    return {"kind": "rescale", "params": p, "args": args, "ch": rng.randrange(nch) if rng.random() < 0.5 else 0, "xs": xs}


def uniform(l):
    return len(set(l)) == 1


# ------------------------------------------------------------------------------------------------
# tosa.rescale (+ tosa.clamp) -> kernel.rescale (convert-tosa-to-kernel)
TOSA_SRC = """%0 = "test.op"() : () -> tensor<4x8xi32>
%input_zp = "tosa.const"() <{ values = dense<@ZI@> : tensor<1xi32> }> : () -> tensor<1xi32>
%output_zp = "tosa.const"() <{ values = dense<@ZO@> : tensor<1xi32> }> : () -> tensor<1xi32>
%multiplier = "tosa.const"() <{ values = dense<@MU@> : tensor<1xi32> }> : () -> tensor<1xi32>
%shift = "tosa.const"() <{ values = dense<@SH@> : tensor<1xi32> }> : () -> tensor<1xi32>
%1 = tosa.rescale %0, %multiplier, %shift, %input_zp, %output_zp {rounding_mode = @RM@, per_channel = false, scale32 = true, input_unsigned = false, output_unsigned = false} : (tensor<4x8xi32>, tensor<1xi32>, tensor<1xi32>, tensor<1xi32>, tensor<1xi32>) -> tensor<4x8x@TY@>
@USER@
@EXTRA@"test.op"(%res) : (tensor<4x8x@TY@>) -> ()
"""


def render_tosa_case(c):
    ty = f"i{c['out']}"
    if c["clamp"] is None:
        user = f'%res = "test.op"(%1) : (tensor<4x8x{ty}>) -> tensor<4x8x{ty}>'
    else:
        user = (f"%res = tosa.clamp %1 {{max_val = {c['clamp'][1]} : {ty}, min_val = {c['clamp'][0]} : {ty}}} : "
                f"(tensor<4x8x{ty}>) -> tensor<4x8x{ty}>")
    extra = "".join(f'"test.op"(%1) : (tensor<4x8x{ty}>) -> ()\n' for _ in range(c["users"] - 1))
    return (TOSA_SRC.replace("@USER@", user).replace("@EXTRA@", extra).replace("@TY@", ty)
            .replace("@ZI@", str(c["input_zp"])).replace("@ZO@", str(c["output_zp"]))
            .replace("@MU@", str(c["multiplier"][0])).replace("@SH@", str(c["shift"][0]))
            .replace("@RM@", "DOUBLE_ROUND" if c["double_round"] else "SINGLE_ROUND")
            .replace("4x8x", "?x8x" if c.get("dynamic") else "4x8x"))


def signed_range(w):
    return -(1 << (w - 1)), (1 << (w - 1)) - 1


def gen_tosa(rng):
    out = rng.choice([8, 8, 8, 16, 32, 32])
    lo_t, hi_t = signed_range(out)
    r = rng.random()
    if r < 0.55:
        clamp = None               # the rescale's single user is not a clamp: the bounds default to the output range
    elif r < 0.75:
        clamp = [lo_t, hi_t]
    else:
        a, b = sorted([rng.randint(max(lo_t, -300), 0), rng.randint(0, min(hi_t, 300))])
        clamp = [a, b]
    s = rng.choice([1, 8, 20, 30, 31, 33, 37, 40, rng.randint(1, 45)])
    m = rng.choice([1 << 30, 1085889731, 1518500250, rng.randint(1 << 29, (1 << 31) - 1), 1, 3])
    zi = rng.choice([0, 0, 5, -7, rng.randint(-128, 127)])
    zo = rng.choice([0, 0, -3, 100, -128, rng.randint(-128, 127)])
    lo, hi = clamp if clamp is not None else (lo_t, hi_t)
    # inputs whose rescaled value reaches / exceeds the saturation bounds, sits next to them, and ordinary values
    targets = [lo - 300, lo - 2, lo - 1, lo, lo + 1, -1, 0, 1, 5, hi - 1, hi, hi + 1, hi + 2, hi + 3, hi + 300, 127, 128, 129, -128, -129]
    xs = []
    for t in targets:
        x = ((t - zo) << s) // m + zi + rng.choice([0, 0, 1])
        xs.append(max(-2**31, min(2**31 - 1, x)))
    for _ in range(6):
        xs.append(rng.choice([rng.randint(-2**31, 2**31 - 1), rng.randint(-10**6, 10**6), 2**31 - 1, -2**31]))
    return {"kind": "tosa", "out": out, "users": 1 if rng.random() < 0.92 else 2, "clamp": clamp, "input_zp": zi,
            "output_zp": zo, "multiplier": [m], "shift": [s], "double_round": rng.random() < 0.15, "xs": xs,
            "dynamic": rng.random() < 0.15}


# ------------------------------------------------------------------------------------------------
# SupportedKernel.is_same_kernel on the declarations of the real accelerators / xdma extensions
KERNEL_KINDS = ["add", "mul", "mac", "qmac", "rescale"]
_DECLS = None


def declared_kernels():
    """(owner, SupportedKernel) for every declaration of the tree under test"""
    global _DECLS
    if _DECLS is None:
        from snaxc.accelerators.snax_alu import SNAXAluAccelerator
        from snaxc.accelerators.snax_gemmx import SNAXGEMMXAccelerator
        from snaxc.accelerators.streamers.extensions import XDMA_EXT_SET
        d = [("snax_gemmx", k) for k in SNAXGEMMXAccelerator.supported_kernels]
        d += [("snax_alu", k) for k in SNAXAluAccelerator.supported_kernels]
        d += [(f"snax_xdma/{e.__name__}", e.supported_kernel) for e in XDMA_EXT_SET if getattr(e, "supported_kernel", None)]
        _DECLS = d
    return _DECLS


def type_grid(kind, template_len):
    """every i8/i16/i32/i64 combination of operand and result types when the arity fits the declaration,
    else one representative list"""
    arity = KERNEL_NOPS[kind] + 1
    if arity != template_len:
        return [[32] * arity]
    return [list(t) for t in itertools.product(WIDTHS, repeat=arity)]


def make_kernel_op(kind, tys):
    from snaxc.dialects import kernel
    from xdsl.dialects import test
    from xdsl.dialects.builtin import IntegerType
    ts = [IntegerType(w) for w in tys]
    operands = [test.TestOp(result_types=[t]).results[0] for t in ts[:-1]]
    if kind == "rescale":
        return kernel.RescaleOp(operands[0], ts[-1], 0, 0, [1073741824], [30], 127, -128, False)
    cls = {"add": kernel.AddOp, "mul": kernel.MulOp, "mac": kernel.MacOp, "qmac": kernel.QMacOp}[kind]
    return cls(operands=operands, result_types=[ts[-1]])


# ------------------------------------------------------------------------------------------------
# whole modules: several linalg.generic ops in one func (memref / dynamic memref / tensor / scalar-input forms, some inside an
# scf.for), run through pass PIPELINES in one process — state that survives from one op or pass to the next
FORMS = ["memref", "memref", "dynamic", "tensor", "scalar_in"]


def render_generic_item(k, item, indent):
    """one linalg.generic (+ the test.op producing its operands and the constants it uses), SSA names prefixed by g<k>"""
    body = item["body"]
    outer = {}
    lines = render_ops(body, outer)
    ws = value_widths(body)
    ret = body["ret"]
    lines.append("  linalg.yield " + ", ".join(_ref_name(r, outer) for r in ret) + " : " + ", ".join(f"i{ref_width(ws, r)}" for r in ret))
    args = body["args"]
    n = len(args)
    form = item["form"]
    kind, dim = ("tensor", "8") if form == "tensor" else ("memref", "?" if form == "dynamic" else "8")
    tys = [f"{kind}<{dim}xi{w}>" for w in args]
    maps = ["affine_map<(d0) -> (d0)>"] * n
    if form == "scalar_in" and n >= 2:     # the last input is a scalar, broadcast by an empty indexing map (as in the upstream qmac test)
        tys[n - 2] = f"i{args[n - 2]}"
        maps[n - 2] = "affine_map<(d0) -> ()>"
    out = [f'{", ".join(f"%m{i}" for i in range(n))} = "test.op"() : () -> ({", ".join(tys)})']
    for (w, c), name in outer.items():
        if item.get("free_outer"):
            out.append(f'{name} = "test.op"() {{val = {sgn(w, c)} : i{w}}} : () -> i{w}')
        else:
            out.append(f"{name} = arith.constant {sgn(w, c)} : i{w}")
    res = "%res = " if form == "tensor" else ""
    out.append(f'{res}linalg.generic {{indexing_maps = [{", ".join(maps)}], iterator_types = ["parallel"]}} '
               f'ins({", ".join(f"%m{i}" for i in range(n - 1))} : {", ".join(tys[:-1])}) outs(%m{n - 1} : {tys[-1]}) {{')
    out.append("^bb0(" + ", ".join(f"%v{i} : i{w}" for i, w in enumerate(args)) + "):")
    out += lines
    out.append("}" + (f" -> {tys[-1]}" if form == "tensor" else ""))
    if form == "tensor":
        out.append(f'"test.op"(%res) : ({tys[-1]}) -> ()')
    txt = "\n".join(indent + l for l in out)
    for pre in ("%m", "%v", "%c", "%res"):
        txt = txt.replace(pre, f"%g{k}{pre[1:]}")
    return txt


def render_multi(case):
    lines = [f'"accfg.accelerator"() <{{name = @{a}, fields = {{}}, launch_fields = {{}}, barrier = 0 : i32}}> : () -> ()'
             for a in case["accs"]]
    lines.append("func.func @f(%n : index) {")
    lines += ["  %lb = arith.constant 0 : index", "  %st = arith.constant 1 : index"]
    for k, item in enumerate(case["items"]):
        if item["in_loop"]:
            lines.append(f"  scf.for %i{k} = %lb to %n step %st {{")
            lines.append(render_generic_item(k, item, "    "))
            lines.append("  }")
        else:
            lines.append(render_generic_item(k, item, "  "))
    lines += ["  func.return", "}"]
    return "\n".join(lines) + "\n"


def gen_multi(rng):
    items = []
    for _ in range(rng.choice([2, 2, 3, 3, 4])):
        r = rng.random()
        k = rng.choice(["mul", "add", "mac", "mac", "qmac"])
        if r < 0.45:
            body = commute(rng, region_json(k, gen_typed_tys(rng, k)))
        elif r < 0.8:
            body = mutate(rng, commute(rng, region_json(k, gen_typed_tys(rng, k))))
        else:
            body = gen_random_body(rng, 4)
        items.append({"form": rng.choice(FORMS), "in_loop": rng.random() < 0.3, "body": body, "free_outer": rng.random() < 0.3})
    if rng.random() < 0.5:      # the same body twice in one module (same kernel recognised twice, constants shared by value)
        items.append(dict(items[0], form=rng.choice(FORMS)))
    accs = [a for a in ["snax_alu", "snax_gemmx"] if rng.random() < 0.6]
    rng.shuffle(accs)
    return {"kind": "multi", "items": items, "accs": accs}


def dispatch_findings(kernel, tys, accs, lc):
    """the dispatch clause of the property on one generic (shared by the single-op and the module stream)"""
    if lc is None:
        return []
    t = acc_table()
    name = lc[:-len("_stream")] if lc.endswith("_stream") else lc
    decl = t.get(name) if name in accs else None
    if decl is None:
        return [{"what": f"library_call {lc} names no dispatch template of the module {accs}", "finding": None}]
    if [kernel, tys] not in decl["supported"]:
        kinds = [x[0] for x in decl["supported"]]
        return [{"what": f"kernel.{kernel} with types {tys} dispatched to {name}, which declares {decl['supported']}",
                 "finding": "D15" if kernel in kinds else None}]
    return []


DISPATCH_ACCS = ["snax_alu", "snax_gemmx", "snax_hwpe_mult"]


def gen_dispatch(rng):
    k = rng.choice(["mul", "add", "add", "mac", "qmac"])
    r = rng.random()
    if r < 0.5:      # types some accelerator declares
        tys = rng.choice({"mul": [[64, 64, 64]], "add": [[64, 64, 64], [32, 32, 32]], "mac": [[8, 8, 32]],
                          "qmac": [[8, 8, 32, 32, 32]]}[k])
    else:
        tys = gen_typed_tys(rng, k) if rng.random() < 0.7 else [rng.choice(WIDTHS) for _ in range(KERNEL_NOPS[k] + 1)]
    n = len(tys)
    accs = [a for a in DISPATCH_ACCS if rng.random() < 0.6]
    rng.shuffle(accs)
    kb = {"args": tys, "kernel": k, "operands": [["v", i] for i in range(n - 1)], "opTypes": tys[:-1],
          "resWidth": tys[-1], "ret": [["v", n]]}
    return {"kind": "dispatch", "kbody": kb, "accs": accs, "dynamic": rng.random() < 0.3,
            "library_call": "preset" if rng.random() < 0.08 else None, "fused": rng.random() < 0.08,
            "arith_first": rng.random() < 0.06}


class C18(Prop):
    id = "C18"
    PARALLEL = True
    USES_IMPL = True
    exhaustive_thorough = True
    trusted_base = [
        "modelled (Model/Kernel.lean): check_kernel_equivalence WITH fix F05 + ParseLinalgBody, equivalent_region of "
        "MulOp/AddOp/MacOp(both variants)/QMacOp, LowerLinalgBody, LowerRescale, DispatchTemplatePattern; "
        "postprocessing_simd_golden_model as rescaleSpec",
        "value numbering abstraction: block arguments then op results in order; the matcher's value mapping is the identity on numbers",
        "arith semantics (two's complement, extsi = sign extension, shrsi >= width = poison) is the model's evalBody; it is "
        "cross-checked on every case against the harness interpreter that runs on the real xDSL IR",
        "the accelerators' supported_kernels tables are read from the real classes on every run and passed to the model",
        "convert_tosa_to_kernel.py RescaleClampPattern is modelled as tosaToKernel (constant parameters, static tensor shapes; the "
        "tensor.empty / tensor.dim plumbing is exercised, not modelled); SupportedKernel.is_same_kernel as isSameKernel",
    ]
    assumptions = [
        "bodies: one block, signless integer types i8/i16/i32/i64, ops with one result, terminated by linalg.yield; "
        "operands defined outside the block are arith.constant",
        "rescale: kernel.rescale : (i32) -> i8 inside a linalg.generic with block arguments (input, output element)",
        "committed files expect F05 (in /repo), fixes/FC18a-lower-linalg-body-canonical-guard.diff and "
        "fixes/FC18c-lower-rescale-golden-model.diff applied to $SNAX_REPO",
    ]
    rule = ("recognize: canonical bodies of mul/add/mac/qmac in all typed width combinations with random commutative swaps, "
            "single mutations of them (rewire, swap, kind, yield, order, constant, extra op, width) and random well-typed bodies "
            "of <= 4 ops over addi/muli/subi/extsi; expand: kernel-form bodies with canonical and non-canonical wiring; rescale: "
            "random parameter sets (1-3 channels, shifts 1..63 and a few outside, double_round) x 20 inputs incl. extremes; "
            "fused: bodies with a (canonical or rewired) kernel op followed by 1-3 further kernel/arith ops, or an arith op "
            "followed by kernel ops, through convert-kernel-to-linalg; dispatch: kernel kind x operand types x ordered subset of accelerators x dynamic/preset/fused. non-trivial = "
            "recognised, or same op-kind multiset as a kernel, or non-canonical kernel form, or library_call set. thorough adds "
            "the exhaustive space: every body of <= 2 ops on (32,32,32),(8,8,32),(8,16,32),(64,64,64) and every wiring of the "
            "op-kind sequence extsi,extsi,muli,addi on (8,8,32)")

    # -- generators -----------------------------------------------------------------------
    def cases(self, rng, tier):
        q = tier == "quick"
        for _ in range(220 if q else 3000):
            k = rng.choice(["mul", "add", "mac", "mac", "qmac"])
            yield {"kind": "recognize", "body": commute(rng, region_json(k, gen_typed_tys(rng, k)))}
        for _ in range(500 if q else 8000):
            k = rng.choice(["mul", "add", "mac", "mac", "qmac", "qmac"])
            b = mutate(rng, commute(rng, region_json(k, gen_typed_tys(rng, k))))
            if rng.random() < 0.25:
                b = mutate(rng, b)
            yield {"kind": "recognize", "body": b}
        for _ in range(350 if q else 8000):
            yield {"kind": "recognize", "body": gen_random_body(rng, 4 if q else 6)}
        for _ in range(200 if q else 3000):
            yield {"kind": "expand", "kbody": gen_kbody(rng)}
        for _ in range(200 if q else 3000):
            yield gen_fused(rng)
        for _ in range(120 if q else 2000):
            yield gen_multi(rng)
        for _ in range(200 if q else 3000):
            yield gen_rescale(rng)
        for _ in range(40 if q else 600):     # two or three kernel.rescale generics in ONE module (constants are hoisted per op)
            yield {"kind": "multi_rescale", "items": [gen_rescale(rng) for _ in range(rng.choice([2, 2, 3]))]}
        for _ in range(150 if q else 2500):
            yield gen_tosa(rng)
        for _ in range(10 if q else 100):    # a kernel.rescale whose parent is not a linalg.generic is not lowered
            yield dict(gen_rescale(rng), kind="rescale_nolinalg")
        for i in range(len(declared_kernels())):       # exhaustive in both tiers: every declaration x kind x type grid
            for kind in KERNEL_KINDS:
                yield {"kind": "same_kernel", "decl": i, "kernel": kind}
        for _ in range(200 if q else 3000):
            yield gen_dispatch(rng)
        if not q:
            yield from self.exhaustive()

    def exhaustive(self):
        for args in ([32, 32, 32], [8, 8, 32], [8, 16, 32], [64, 64, 64]):
            for n in (1, 2):
                for b in enum_bodies(args, n):
                    yield {"kind": "recognize", "body": b}
        for b in enum_wirings([8, 8, 32], ["extsi", "extsi", "muli", "addi"], 32):
            yield {"kind": "recognize", "body": b}

    # -- real code ------------------------------------------------------------------------
    def impl(self, case):
        k = case["kind"]
        if k == "recognize":
            return self.impl_recognize(case)
        if k == "expand":
            return self.impl_expand(case)
        if k == "fused":
            return self.impl_fused(case)
        if k == "multi":
            return self.impl_multi(case)
        if k == "multi_rescale":
            return self.impl_multi_rescale(case)
        if k == "rescale":
            return self.impl_rescale(case)
        if k == "tosa":
            return self.impl_tosa(case)
        if k == "rescale_nolinalg":
            return self.impl_rescale_nolinalg(case)
        if k == "same_kernel":
            return self.impl_same_kernel(case)
        if k == "dispatch":
            return self.impl_dispatch(case)
        raise ValueError(k)

    def _load(self, src):
        try:
            mod = parse_checked(src)
            return mod, BlockView(find_generic(mod).body.block)
        except Unsupported:
            raise
        except Exception as e:
            return None, {"invalid_input": type(e).__name__, "msg": str(e)[:200]}

    def impl_recognize(self, case):
        import snaxrun
        src = render_body_case(case["body"])
        mod, view = self._load(src)
        if mod is None:
            return view
        body = view.body_json()
        if body != case["body"]:
            raise Unsupported(f"renderer/converter round trip differs: {body} vs {case['body']}")
        before_text = snaxrun.text(mod)
        ins = gen_inputs(case_rng(case), view.args, N_INPUTS)
        before = [interpret(view, i) for i in ins]
        out = snaxrun.run_passes(src, "convert-linalg-to-kernel")
        omod = parse_checked(out)
        oview = BlockView(find_generic(omod).body.block)
        after = [interpret(oview, i) for i in ins]
        kop = oview.kernel_op()
        return {"body": body, "ins": ins[:N_CORR], "vals": before[:N_CORR],
                "kform": oview.kbody_json() if kop is not None else None,
                "unchanged": snaxrun.text(omod) == before_text,
                "_before": before, "_after": after, "_ins": ins}

    def impl_expand(self, case):
        import snaxrun
        kb = case["kbody"]
        src = render_kbody_case(kb)
        mod, view = self._load(src)
        if mod is None:
            return view
        if view.kbody_json() != kb:
            raise Unsupported("renderer/converter round trip differs (kernel form)")
        ins = gen_inputs(case_rng(case), view.args, N_INPUTS)
        before = [interpret(view, i) for i in ins]
        try:
            out = snaxrun.run_passes(src, "convert-kernel-to-linalg")
            omod = snaxrun.parse(out)
        except Exception as e:
            if kernel_typed(kb["kernel"], kb["opTypes"] + [kb["resWidth"]]):
                raise
            # an ill-typed kernel op (outside the quantifier) expands to arith ops that do not even re-parse
            return {"invalid_input": "ill-typed kernel op: " + type(e).__name__}
        oview = BlockView(find_generic(omod).body.block)
        after = [interpret(oview, i) for i in ins]
        return {"kbody": kb, "ins": ins[:N_CORR], "kvals": before[:N_CORR], "out": oview.mbody_json(),
                "fired": oview.kernel_op() is None, "vals": after[:N_CORR], "_before": before, "_after": after, "_ins": ins}

    def impl_fused(self, case):
        import snaxrun
        mb = case["mbody"]
        src = render_mbody_case(mb)
        mod, view = self._load(src)
        if mod is None:
            return view
        if view.mbody_json() != mb:
            raise Unsupported(f"renderer/converter round trip differs (mixed body): {view.mbody_json()} vs {mb}")
        before_text = snaxrun.text(mod)
        ins = gen_inputs(case_rng(case), view.args, N_INPUTS)
        before = [interpret(view, i) for i in ins]
        out = snaxrun.run_passes(src, "convert-kernel-to-linalg")
        omod = snaxrun.parse(out)
        oview = BlockView(find_generic(omod).body.block)
        after = [interpret(oview, i) for i in ins]
        return {"mbody": mb, "ins": ins[:N_CORR], "vals": before[:N_CORR], "out": oview.mbody_json(),
                "unchanged": snaxrun.text(omod) == before_text, "_before": before, "_after": after, "_ins": ins}

    def impl_multi(self, case):
        import snaxrun
        from xdsl.dialects import linalg
        src = render_multi(case)
        try:
            mod = parse_checked(src)
        except Exception as e:
            return {"invalid_input": type(e).__name__, "msg": str(e)[:200]}
        gens = [op for op in mod.walk() if isinstance(op, linalg.GenericOp)]
        views = [BlockView(g.body.block) for g in gens]
        bodies = [v.body_json() for v in views]
        if bodies != [it["body"] for it in case["items"]]:
            raise Unsupported("renderer/converter round trip differs (module)")
        rng = case_rng(case)
        ins = [gen_inputs(rng, v.args, 8) for v in views]
        before = [[interpret(v, i) for i in il] for v, il in zip(views, ins)]

        def run(passes):
            omod = parse_checked(snaxrun.run_passes(src, passes))
            og = [op for op in omod.walk() if isinstance(op, linalg.GenericOp)]
            if len(og) != len(gens):
                raise Unsupported(f"{len(og)} generics after {passes}")
            return omod, og, [BlockView(g.body.block) for g in og]

        # (1) recognition alone, (2) recognition + expansion in ONE pipeline, (3) recognition + dispatch in one pipeline
        _, _, v1 = run("convert-linalg-to-kernel")
        _, _, v2 = run("convert-linalg-to-kernel,convert-kernel-to-linalg")
        _, g3, _ = run("convert-linalg-to-kernel,dispatch-kernels")
        kforms = [v.kbody_json() if v.kernel_op() is not None else None for v in v1]
        same1 = [kf is not None or v.body_json() == b for kf, v, b in zip(kforms, v1, bodies)]
        after1 = [[interpret(v, i) for i in il] for v, il in zip(v1, ins)]
        round_trip = [v.mbody_json() for v in v2]
        after2 = [[interpret(v, i) for i in il] for v, il in zip(v2, ins)]
        calls = [g.library_call.data if g.library_call is not None else None for g in g3]
        return {"bodies": bodies, "kforms": kforms, "unrecognised_unchanged": same1, "round_trip": round_trip, "calls": calls,
                "_ins": ins, "_before": before, "_after1": after1, "_after2": after2}

    def impl_multi_rescale(self, case):
        import numpy as np
        import snaxrun
        from snaxc.dialects.kernel import RescaleOp
        from xdsl.dialects import linalg
        parts = []
        for k, it in enumerate(case["items"]):
            txt = render_rescale_case(it)
            for pre in ("%m", "%v"):
                txt = txt.replace(pre, f"%g{k}{pre[1:]}")
            parts.append(txt)
        src = "".join(parts)
        try:
            mod = parse_checked(src)
        except Exception as e:
            return {"invalid_input": type(e).__name__, "msg": str(e)[:200]}
        omod = snaxrun.parse(snaxrun.run_passes(src, "convert-kernel-to-linalg"))
        gens = [op for op in omod.walk() if isinstance(op, linalg.GenericOp)]
        if len(gens) != len(case["items"]):
            raise Unsupported("number of generics changed")
        golden = golden_model()
        outs = []
        for g, it in zip(gens, case["items"]):
            if any(isinstance(op, RescaleOp) for op in g.body.block.ops):
                outs.append({"unchanged": True})
                continue
            view = BlockView(g.body.block)
            p, (wi, wr), ch = it["params"], it["args"], it["ch"]
            vals = []
            for x in it["xs"]:
                r = interpret(view, [[wi, x & ((1 << wi) - 1)], [wr, 0]])
                e = r[0] if r is not None and len(r) == 1 else None
                gq = None
                if ch < len(p["shift"]) and ch < len(p["multiplier"]) and 1 <= p["shift"][ch] <= 63:
                    gv = golden(np.array([x], dtype=np.int64), p["input_zp"], p["output_zp"], p["shift"][ch], p["max_int"],
                                p["min_int"], int(p["double_round"]), p["multiplier"][ch])
                    gq = int(gv[0]) & 0xFFFFFFFF
                vals.append([e, gq])
            outs.append({"body": view.body_json(), "vals": vals})
        return {"items": outs}

    def impl_rescale(self, case):
        import numpy as np
        import snaxrun
        from snaxc.dialects.kernel import RescaleOp
        src = render_rescale_case(case)
        mod, view = self._load(src)
        if mod is None:
            return view
        out = snaxrun.run_passes(src, "convert-kernel-to-linalg")
        omod = snaxrun.parse(out)
        if any(isinstance(op, RescaleOp) for op in omod.walk()):
            return {"unchanged": snaxrun.text(omod) == snaxrun.text(mod)}
        oview = BlockView(find_generic(omod).body.block)
        p = case["params"]
        wi, wr = case["args"]
        vals = []
        golden = golden_model()
        ch = case["ch"]
        for x in case["xs"]:
            r = interpret(oview, [[wi, x & ((1 << wi) - 1)], [wr, 0]])
            e = r[0] if r is not None and len(r) == 1 else None
            g = None
            if ch < len(p["shift"]) and ch < len(p["multiplier"]) and 1 <= p["shift"][ch] <= 63:
                gv = golden(np.array([x], dtype=np.int64), p["input_zp"], p["output_zp"], p["shift"][ch], p["max_int"],
                            p["min_int"], int(p["double_round"]), p["multiplier"][ch])
                g = int(gv[0]) & 0xFFFFFFFF
            vals.append([e, g])
        return {"body": oview.body_json(), "vals": vals}

    def impl_rescale_nolinalg(self, case):
        import snaxrun
        body = render_rescale_case(case).split("\n")
        line = [l for l in body if "kernel.rescale" in l][0].replace("%v0", "%x").replace("%v2", "%r")
        wi, wr = case["args"]
        src = f'%x = "test.op"() : () -> i{wi}\n{line}\n"test.op"(%r) : (i{wr}) -> ()\n'
        try:
            mod = parse_checked(src)
        except Exception as e:
            return {"invalid_input": type(e).__name__}
        omod = snaxrun.parse(snaxrun.run_passes(src, "convert-kernel-to-linalg"))
        return {"unchanged": snaxrun.text(omod) == snaxrun.text(mod)}

    def impl_tosa(self, case):
        import numpy as np
        import snaxrun
        from snaxc.dialects.kernel import RescaleOp
        src = render_tosa_case(case)
        try:
            mod = snaxrun.parse(src)
            mod.verify()
        except Exception as e:
            return {"invalid_input": type(e).__name__, "msg": str(e)[:200]}
        omod = snaxrun.parse(snaxrun.run_passes(src, "convert-tosa-to-kernel"))
        ks = [op for op in omod.walk() if isinstance(op, RescaleOp)]
        if not ks:
            return {"kernel": None, "unchanged": snaxrun.text(omod) == snaxrun.text(mod)}
        assert len(ks) == 1
        kop = ks[0]
        params = {"input_zp": kop.input_zp.value.data, "output_zp": kop.output_zp.value.data,
                  "multiplier": [int(x) for x in kop.multiplier.get_values()], "shift": [int(x) for x in kop.shift.get_values()],
                  "max_int": kop.max_int.value.data, "min_int": kop.min_int.value.data,
                  "double_round": bool(kop.double_round.value.data)}
        res = _width(kop.results[0].type)
        leftover = any(op.name in ("tosa.rescale", "tosa.clamp") for op in omod.walk())
        # tosa -> kernel -> arithmetic, interpreted on the inputs
        lmod = snaxrun.parse(snaxrun.run_passes(src, "convert-tosa-to-kernel,convert-kernel-to-linalg"))
        lview = BlockView(find_generic(lmod).body.block)
        vals = []
        for x in case["xs"]:
            r = interpret(lview, [[32, x & 0xFFFFFFFF], [res, 0]])
            vals.append(r[0] if r is not None and len(r) == 1 else None)
        # reference: the tree's golden model, saturating to the clamp bounds / the signed range of the output type
        lo, hi = case["clamp"] if case["clamp"] is not None else signed_range(case["out"])
        ref = []
        s, m = case["shift"][0], case["multiplier"][0]
        golden = golden_model()
        for x in case["xs"]:
            if 1 <= s <= 63:
                gv = golden(np.array([x], dtype=np.int64), case["input_zp"], case["output_zp"], s, hi, lo,
                            int(case["double_round"]), m)
                ref.append(sgn(32, int(gv[0])))
            else:
                ref.append(None)
        return {"kernel": {"params": params, "res": res}, "leftover_tosa_ops": leftover, "vals": vals, "_ref": ref}

    def impl_same_kernel(self, case):
        owner, sk = declared_kernels()[case["decl"]]
        template = [_width(t) for t in sk.operand_types]
        grid = type_grid(case["kernel"], len(template))
        accepted = [tys for tys in grid if sk.is_same_kernel(make_kernel_op(case["kernel"], tys))]
        return {"owner": owner, "supported": [KERNEL_NAMES[sk.kernel_type.name], template], "n": len(grid), "accepted": accepted,
                "rejects_no_op": sk.is_same_kernel(None) is False}

    def impl_dispatch(self, case):
        import snaxrun
        from xdsl.dialects import linalg
        kb = case["kbody"]
        if case.get("arith_first"):   # the first op of the body is not a kernel op: the pattern returns
            n = len(kb["args"])
            sh = lambda r: ["v", r[1] + 1] if r[0] == "v" and r[1] >= n else r
            mb = {"args": kb["args"], "ops": [["addi", [["v", n - 1], ["v", n - 1]], kb["args"][-1]],
                                              ["k", kb["kernel"], kb["operands"], kb["opTypes"], kb["resWidth"]]],
                  "ret": [sh(r) for r in kb["ret"]]}
            src = render_mbody_case(mb, case["accs"], case["dynamic"], case["library_call"])
        else:
            src = render_kbody_case(kb, case["accs"], case["dynamic"], case["library_call"], case["fused"])
        mod, view = self._load(src)
        if mod is None:
            return view
        out = snaxrun.run_passes(src, "dispatch-kernels")
        omod = snaxrun.parse(out)
        g = find_generic(omod)
        lc = g.library_call.data if g.library_call is not None else None
        # everything but the library_call must be as before
        g.library_call = find_generic(mod).library_call
        return {"library_call": lc, "rest_unchanged": snaxrun.text(omod) == snaxrun.text(mod)}

    # -- model ----------------------------------------------------------------------------
    def requests(self, case, impl_out):
        if "raised" in impl_out or "invalid_input" in impl_out:
            if case["kind"] == "rescale":
                return [{"fn": "c18.rescale_body", "args": {"fixed": FIXED_RESCALE, "params": case["params"], "args": case["args"]}}]
            if case["kind"] == "dispatch" and "raised" in impl_out:
                return self._dispatch_req(case)
            return []
        k = case["kind"]
        if k == "recognize":
            return [{"fn": "c18.recognize", "args": {"fixed": FIXED_MODEL, "body": impl_out["body"]}},
                    {"fn": "c18.eval", "args": {"body": impl_out["body"], "ins": impl_out["ins"]}}]
        if k == "expand":
            kb = impl_out["kbody"]
            single = {"args": kb["args"], "ops": [["k", kb["kernel"], kb["operands"], kb["opTypes"], kb["resWidth"]]], "ret": kb["ret"]}
            return [{"fn": "c18.lower", "args": {"mbody": single, "fixed": FIXED_LOWER}},
                    {"fn": "c18.keval", "args": {"kbody": kb, "ins": impl_out["ins"]}},
                    {"fn": "c18.meval", "args": {"mbody": impl_out["out"], "ins": impl_out["ins"]}}]
        if k == "fused":
            return [{"fn": "c18.lower", "args": {"mbody": impl_out["mbody"], "fixed": FIXED_LOWER}},
                    {"fn": "c18.meval", "args": {"mbody": impl_out["mbody"], "ins": impl_out["ins"]}}]
        if k == "multi_rescale":
            reqs = []
            for it in case["items"]:
                reqs.append({"fn": "c18.rescale_body", "args": {"fixed": FIXED_RESCALE, "params": it["params"], "args": it["args"]}})
                reqs.append({"fn": "c18.rescale_eval", "args": {"fixed": FIXED_RESCALE, "params": it["params"], "ch": it["ch"],
                                                                "wi": it["args"][0], "wr": it["args"][1], "xs": it["xs"]}})
            return reqs
        if k == "multi":
            reqs = []
            t = acc_table()
            accs = [t[a] for a in case["accs"] if t.get(a) is not None]
            for body, item in zip(impl_out["bodies"], case["items"]):
                reqs.append({"fn": "c18.recognize_pipeline", "args": {"body": body, "accs": accs, "dynamic": item["form"] == "dynamic",
                                                                      "fixed_dispatch": FIXED_DISPATCH}})
            return reqs
        if k == "rescale":
            return [{"fn": "c18.rescale_body", "args": {"fixed": FIXED_RESCALE, "params": case["params"], "args": case["args"]}},
                    {"fn": "c18.rescale_eval", "args": {"fixed": FIXED_RESCALE, "params": case["params"], "ch": case["ch"],
                                                        "wi": case["args"][0], "wr": case["args"][1], "xs": case["xs"]}}]
        if k == "tosa":
            reqs = [{"fn": "c18.tosa", "args": {"out": case["out"], "users": case["users"], "clamp": case["clamp"],
                                                "input_zp": case["input_zp"], "output_zp": case["output_zp"],
                                                "multiplier": case["multiplier"], "shift": case["shift"],
                                                "double_round": case["double_round"]}}]
            if impl_out.get("kernel") is not None:   # the expansion of the kernel the real pass produced
                reqs.append({"fn": "c18.rescale_eval", "args": {"fixed": FIXED_RESCALE, "params": impl_out["kernel"]["params"], "ch": 0,
                                                                "wi": 32, "wr": impl_out["kernel"]["res"], "xs": case["xs"]}})
            return reqs
        if k == "same_kernel":
            sup = impl_out["supported"]
            return [{"fn": "c18.same_kernel", "args": {"supported": sup, "kernel": case["kernel"],
                                                       "grid": type_grid(case["kernel"], len(sup[1]))}}]
        if k == "dispatch":
            return self._dispatch_req(case)
        return []

    def _dispatch_req(self, case):
        t = acc_table()
        accs = [t[a] for a in case["accs"] if t.get(a) is not None]
        kb = case["kbody"]
        return [{"fn": "c18.dispatch", "args": {"accs": accs, "kernel": kb["kernel"], "tys": kb["opTypes"] + [kb["resWidth"]],
                                                "dynamic": case["dynamic"], "fixed": FIXED_DISPATCH}}]

    def model(self, case, answers, impl_out):
        for a in answers:
            if "err" in a:
                return {"model_error": a["err"]}
        k = case["kind"]
        if "invalid_input" in impl_out:
            return impl_out
        if "raised" in impl_out:
            if k == "rescale" and isinstance(answers[0]["ok"], dict) and "raised" in answers[0]["ok"]:
                return {"raised": answers[0]["ok"]["raised"]}
            if k == "dispatch" and isinstance(answers[0]["ok"], dict) and "raised" in answers[0]["ok"]:
                return {"raised": answers[0]["ok"]["raised"]}
            return {"model_error": "the real code raised, the model did not", "model": [a["ok"] for a in answers][:1]}
        if k == "recognize":
            kf = answers[0]["ok"]
            return {"body": impl_out["body"], "ins": impl_out["ins"], "vals": answers[1]["ok"], "kform": kf,
                    "unchanged": kf is None}
        if k == "expand":
            return {"kbody": impl_out["kbody"], "ins": impl_out["ins"], "kvals": answers[1]["ok"], "out": answers[0]["ok"]["out"],
                    "fired": answers[0]["ok"]["fired"], "vals": answers[2]["ok"]}
        if k == "fused":
            r = answers[0]["ok"]
            return {"mbody": impl_out["mbody"], "ins": impl_out["ins"], "vals": answers[1]["ok"], "out": r["out"],
                    "unchanged": not r["fired"]}
        if k == "rescale":
            b = answers[0]["ok"]
            if isinstance(b, dict) and "raised" in b:
                return {"raised": b["raised"]}
            if isinstance(b, dict) and "unchanged" in b:
                return {"unchanged": True}
            ew = case["args"][1] if FIXED_RESCALE else 8
            vals = []
            for (e, s) in answers[1]["ok"]:
                vals.append([[ew, e] if e is not None else None, s])
            # the golden model is only called for shifts 1..63 and an existing channel: the model's spec is `none` exactly there
            return {"body": b, "vals": vals}
        if k == "multi_rescale":
            outs = []
            for j, it in enumerate(case["items"]):
                b = answers[2 * j]["ok"]
                if isinstance(b, dict) and "unchanged" in b:
                    outs.append({"unchanged": True})
                    continue
                ew = it["args"][1] if FIXED_RESCALE else 8
                outs.append({"body": b, "vals": [[[ew, e] if e is not None else None, sp] for (e, sp) in answers[2 * j + 1]["ok"]]})
            return {"items": outs}
        if k == "multi":
            rs = [a["ok"] for a in answers]
            return {"bodies": impl_out["bodies"], "kforms": [r["kform"] for r in rs], "unrecognised_unchanged": [True] * len(rs),
                    "round_trip": [r["round_trip"] for r in rs], "calls": [r["call"] for r in rs]}
        if k == "rescale_nolinalg":
            return {"unchanged": True}   # LowerRescale's first guard; the model of the pattern starts inside a linalg.generic
        if k == "tosa":
            r = answers[0]["ok"]
            if r is None:
                return {"kernel": None, "unchanged": True}
            vals = None
            if len(answers) > 1:
                ew = impl_out["kernel"]["res"] if FIXED_RESCALE else 8
                vals = [[ew, e] if e is not None else None for (e, _) in answers[1]["ok"]]
            return {"kernel": r, "leftover_tosa_ops": False, "vals": vals}
        if k == "same_kernel":
            return {"owner": impl_out["owner"], "supported": impl_out["supported"], "n": impl_out["n"],
                    "accepted": answers[0]["ok"], "rejects_no_op": True}
        if k == "dispatch":
            r = answers[0]["ok"]
            if isinstance(r, dict):
                return {"raised": r["raised"]}
            if case["library_call"] or case["fused"] or case.get("arith_first"):
                r = case["library_call"]     # already dispatched / fused body: the pattern returns before the search
            return {"library_call": r, "rest_unchanged": True}

    def compare(self, case, impl_out, model_out):
        if isinstance(impl_out, dict) and isinstance(model_out, dict):
            if "raised" in impl_out and "raised" in model_out:
                return None if impl_out["raised"] == model_out["raised"] else \
                    f"impl raised {impl_out['raised']}, model {model_out['raised']}"
            impl_out = {k: v for k, v in impl_out.items() if not k.startswith("_") and k != "msg"}
            model_out = {k: v for k, v in model_out.items() if not k.startswith("_") and k != "msg"}
        return super().compare(case, impl_out, model_out)

    # -- the property on the real code's output ---------------------------------------------
    def oracle(self, case, impl_out):
        if "invalid_input" in impl_out:
            return []
        k = case["kind"]
        if "raised" in impl_out:
            if k == "rescale" and impl_out["raised"] == "IndexError" and (not case["params"]["multiplier"] or not case["params"]["shift"]):
                return []   # no parameters at all: outside the quantifier
            return [{"what": f"{k}: the pass raised {impl_out['raised']}: {impl_out.get('msg')}", "finding": None}]
        if k == "recognize":
            out = []
            body = impl_out["body"]
            ws = value_widths(body)
            welltyped = len(body["ret"]) == 1 and ref_width(ws, body["ret"][0]) == body["args"][-1]
            if impl_out["kform"] is None:
                if not impl_out["unchanged"]:
                    out.append({"what": "the body was not replaced by a kernel op but the module changed", "finding": None})
                return out
            if not welltyped:
                return out   # yield type != output element type: not a valid linalg body (xDSL does not verify this)
            for i, b, a in zip(impl_out["_ins"], impl_out["_before"], impl_out["_after"]):
                if b is not None and a != b:
                    out.append({"what": f"body {body} was replaced by kernel.{impl_out['kform']['kernel']} but on inputs {i} "
                                        f"it computes {b} and the kernel {a}", "finding": "D14"})
                    break
            return out
        if k == "expand":
            kb = impl_out["kbody"]
            tys = kb["opTypes"] + [kb["resWidth"]]
            if not kernel_typed(kb["kernel"], tys):
                return []    # the kernel op itself is ill-typed
            n = len(kb["args"])
            canonical = (kb["operands"] == [["v", i] for i in range(n - 1)] and tys == kb["args"] and kb["ret"] == [["v", n]])
            for i, b, a in zip(impl_out["_ins"], impl_out["_before"], impl_out["_after"]):
                if b is not None and a != b:
                    return [{"what": f"kernel form {kb} computes {b} on inputs {i}, after convert-kernel-to-linalg it is {impl_out['out']} and computes {a}",
                             "finding": None if canonical else "DC18a"}]
            return []
        if k == "fused":
            # whatever the pass does to a body mixing kernel and arith ops, its function must stay the same
            mb = impl_out["mbody"]
            single = len(mb["ops"]) == 1 and is_kop(mb["ops"][0])
            for i, b, a in zip(impl_out["_ins"], impl_out["_before"], impl_out["_after"]):
                if b is not None and a != b:
                    return [{"what": f"body {mb} computes {b} on inputs {i}; after convert-kernel-to-linalg it is "
                                     f"{impl_out['out']} and computes {a}", "finding": "DC18a" if single else None}]
            return []
        if k == "multi_rescale":
            out = []
            for j, (it, o) in enumerate(zip(case["items"], impl_out["items"])):
                for v in self.oracle(it, o):
                    out.append(dict(v, what=f"rescale generic #{j} of a module with {len(case['items'])}: " + v["what"]))
            return out
        if k == "multi":
            out = []
            for j, body in enumerate(impl_out["bodies"]):
                ws = value_widths(body)
                welltyped = len(body["ret"]) == 1 and ref_width(ws, body["ret"][0]) == body["args"][-1]
                kf = impl_out["kforms"][j]
                if kf is None and not impl_out["unrecognised_unchanged"][j]:
                    out.append({"what": f"generic #{j} of the module was not recognised but its body changed", "finding": None})
                if not welltyped:
                    continue
                for tag, after in (("convert-linalg-to-kernel", impl_out["_after1"][j]),
                                   ("convert-linalg-to-kernel,convert-kernel-to-linalg", impl_out["_after2"][j])):
                    for i, b, a in zip(impl_out["_ins"][j], impl_out["_before"][j], after):
                        if b is not None and a != b:
                            out.append({"what": f"generic #{j} of a module with {len(impl_out['bodies'])} generics: body {body} computes {b} on "
                                                f"inputs {i}, after {tag} it computes {a}", "finding": None})
                            break
                lc = impl_out["calls"][j]
                if kf is None:
                    if lc is not None:
                        out.append({"what": f"generic #{j} holds no kernel op but got library_call {lc}", "finding": None})
                else:
                    out += dispatch_findings(kf["kernel"], kf["opTypes"] + [kf["resWidth"]], case["accs"], lc)
            return out
        if k == "rescale_nolinalg":
            return [] if impl_out["unchanged"] else [{"what": "a kernel.rescale outside a linalg.generic was rewritten", "finding": None}]
        if k == "same_kernel":
            kind, template = impl_out["supported"]
            want = [template] if kind == case["kernel"] else []
            out = []
            if impl_out["accepted"] != want:
                wrong = [t for t in impl_out["accepted"] if t not in want] or want
                out.append({"what": f"{impl_out['owner']} declares kernel.{kind} with element types {template} but "
                                    f"is_same_kernel accepts kernel.{case['kernel']} with types {impl_out['accepted'][:4]} "
                                    f"(first wrong: {wrong[0]}; exactly {want} expected out of {impl_out['n']} combinations)",
                            "finding": None})
            if not impl_out["rejects_no_op"]:
                out.append({"what": "is_same_kernel(None) is not False", "finding": None})
            return out
        if k == "tosa":
            kern = impl_out["kernel"]
            if kern is None:
                return [] if impl_out["unchanged"] else [{"what": "tosa.rescale not converted but the module changed", "finding": None}]
            out = []
            p = kern["params"]
            lo, hi = case["clamp"] if case["clamp"] is not None else signed_range(case["out"])
            if case["users"] != 1:
                out.append({"what": "a tosa.rescale whose result has several users was replaced", "finding": None})
            if kern["res"] != case["out"] or impl_out["leftover_tosa_ops"]:
                out.append({"what": f"kernel.rescale result i{kern['res']} for a tosa.rescale to i{case['out']} / tosa ops left over",
                            "finding": None})
            if (p["min_int"], p["max_int"]) != (lo, hi):
                out.append({"what": f"tosa.rescale -> i{case['out']} with clamp {case['clamp']} became kernel.rescale with "
                                    f"(min_int, max_int) = ({p['min_int']}, {p['max_int']}); tosa semantics saturate to ({lo}, {hi})",
                            "finding": None})
            for key in ("input_zp", "output_zp", "multiplier", "shift", "double_round"):
                if p[key] != case[key]:
                    out.append({"what": f"kernel.rescale {key} = {p[key]}, tosa.rescale had {case[key]}", "finding": None})
            # value level: tosa -> kernel -> arithmetic against the saturating reference
            seen = set()
            s, m = case["shift"][0], case["multiplier"][0]
            for x, val, ref in zip(case["xs"], impl_out["vals"], impl_out["_ref"]):
                if val is None or ref is None:
                    continue
                w, v = val
                if sgn(w, v) == ref:
                    continue
                d = x - case["input_zp"]
                if case["double_round"]:
                    tag = "D20"
                elif w != case["out"] and not (-(1 << (w - 1)) <= ref < (1 << (w - 1))):
                    tag = "DC18c"
                elif not (-2**31 <= d < 2**31 and -2**31 <= ((d * m) >> (s - 1)) < 2**31):
                    tag = "DC18b"
                else:
                    tag = None
                if tag in seen:
                    continue
                seen.add(tag)
                out.append({"what": f"tosa.rescale(zp_in={case['input_zp']}, zp_out={case['output_zp']}, mult={m}, shift={s}) -> "
                                    f"i{case['out']}, clamp {case['clamp']}: input {x}: tosa->kernel->arith gives {sgn(w, v)} (i{w}), "
                                    f"saturating reference {ref}", "finding": tag})
            return out
        if k == "rescale":
            p = case["params"]
            wi, wr = case["args"]
            ch = case["ch"]
            if "unchanged" in impl_out:
                # leaving the kernel op in place is always safe; it is only expected for parameters a scalar body cannot express
                out = []
                if not impl_out["unchanged"]:
                    out.append({"what": "kernel.rescale was not lowered but the module changed", "finding": None})
                if p["shift"] and p["multiplier"] and uniform(p["shift"]) and uniform(p["multiplier"]) and wi < 64:
                    out.append({"what": f"kernel.rescale (i{wi}) -> i{wr} with one shift/multiplier for all channels was not lowered",
                                "finding": None})
                return out
            out = []
            seen = set()
            body = impl_out["body"]
            yw = ref_width(value_widths(body), body["ret"][0])
            if yw != wr:
                seen.add("DC18c")
                out.append({"what": f"kernel.rescale (i{wi}) -> i{wr} expands to a body that yields i{yw} (hard-coded truncation to i8)",
                            "finding": "DC18c"})
            lo_r, hi_r = -(1 << (min(wr, 32) - 1)), (1 << (min(wr, 32) - 1)) - 1
            for x, (e, g) in zip(case["xs"], impl_out["vals"]):
                if g is None or e is None:
                    continue   # shift outside 1..63 (golden model undefined / shrsi poison)
                if p["min_int"] > p["max_int"] or not (lo_r <= p["min_int"] and p["max_int"] <= hi_r):
                    continue   # clamp range outside the result type or empty
                if not (-2**31 <= p["input_zp"] < 2**31 and -2**31 <= p["output_zp"] < 2**31):
                    continue
                if sgn(e[0], e[1]) == sgn(32, g):
                    continue
                s, m = p["shift"][ch], p["multiplier"][ch]
                d = x - p["input_zp"]
                if p["double_round"]:
                    tag = "D20"
                elif ch != 0 and (s, m) != (p["shift"][0], p["multiplier"][0]):
                    tag = "D20"
                elif e[0] != wr and not (-(1 << (e[0] - 1)) <= sgn(32, g) < (1 << (e[0] - 1))):
                    tag = "DC18c"
                elif not (-2**31 <= d < 2**31 and -2**31 <= ((d * m) >> (s - 1)) < 2**31):
                    tag = "DC18b"
                else:
                    tag = None
                if tag in seen:
                    continue
                seen.add(tag)
                out.append({"what": f"rescale {p} (i{wi}) -> i{wr} channel {ch}: input {x}: expansion gives {sgn(e[0], e[1])} (i{e[0]}), "
                                    f"golden model {sgn(32, g)}", "finding": tag})
            return out
        if k == "dispatch":
            out = []
            lc = impl_out["library_call"]
            if not impl_out["rest_unchanged"]:
                out.append({"what": "dispatch-kernels changed more than the library_call", "finding": None})
            if case["library_call"] or case["fused"] or case.get("arith_first"):
                if lc != case["library_call"]:
                    out.append({"what": f"library_call of an already dispatched / fused generic changed to {lc}", "finding": None})
                return out
            if lc is None:
                return out
            kb = case["kbody"]
            tys = kb["opTypes"] + [kb["resWidth"]]
            t = acc_table()
            name = lc[:-len("_stream")] if lc.endswith("_stream") else lc
            decl = t.get(name) if name in case["accs"] else None
            if decl is None:
                out.append({"what": f"library_call {lc} names no dispatch template of the module {case['accs']}", "finding": None})
            elif [kb["kernel"], tys] not in decl["supported"]:
                kinds = [s[0] for s in decl["supported"]]
                out.append({"what": f"kernel.{kb['kernel']} with types {tys} dispatched to {name}, which declares {decl['supported']}",
                            "finding": "D15" if kb["kernel"] in kinds else None})
            return out
        return []

    def nontrivial(self, case, impl_out):
        if not isinstance(impl_out, dict) or "invalid_input" in impl_out:
            return False
        k = case["kind"]
        if k == "recognize":
            if impl_out.get("kform") is not None:
                return True
            kinds = sorted(str(o[0]) for o in case["body"]["ops"])
            return kinds in (["muli"], ["addi"], ["addi", "muli"], ["addi", "extsi", "extsi", "muli"],
                             ["addi", "extsi", "extsi", "muli", "subi", "subi"])
        if k == "multi":
            return any(kf is not None for kf in impl_out.get("kforms", []))
        if k == "dispatch":
            return impl_out.get("library_call") is not None
        return True

    def stats_key(self, case, impl_out):
        k = case["kind"]
        if isinstance(impl_out, dict) and "raised" in impl_out:
            return f"{k}:raised:{impl_out['raised']}"
        if isinstance(impl_out, dict) and "invalid_input" in impl_out:
            return f"{k}:invalid_input"
        if k == "recognize":
            kf = impl_out.get("kform")
            return f"recognize:{kf['kernel'] if kf else 'none'}"
        if k == "dispatch":
            return f"dispatch:{impl_out.get('library_call')}"
        if k == "multi":
            return f"multi:{sum(kf is not None for kf in impl_out.get('kforms', []))}-recognised-of-{len(case['items'])}"
        if k == "fused":
            return "fused:kernel-first" if is_kop(case["mbody"]["ops"][0]) else "fused:arith-first"
        if k == "tosa":
            if impl_out.get("kernel") is None:
                return "tosa:not-converted"
            return f"tosa:i{case['out']}:" + ("clamp" if case["clamp"] is not None else "no-clamp")
        if k == "same_kernel":
            return "same_kernel:" + ("own-kind" if impl_out.get("supported", [None])[0] == case["kernel"] else "other-kind")
        if k == "rescale":
            return "rescale:double_round" if case["params"]["double_round"] else "rescale"
        return k

    def shrink(self, case):
        k = case["kind"]
        if k == "recognize":
            b = case["body"]
            n = len(b["args"])
            for j in range(len(b["ops"]) - 1, -1, -1):   # drop an op nobody uses
                idx = n + j
                used = any(["v", idx] in o[1] for o in b["ops"]) or ["v", idx] in b["ret"]
                if not used:
                    sh = lambda r: ["v", r[1] - 1] if r[0] == "v" and r[1] > idx else r
                    ops = [[o[0], [sh(r) for r in o[1]], o[2]] for i, o in enumerate(b["ops"]) if i != j]
                    yield dict(case, body={"args": b["args"], "ops": ops, "ret": [sh(r) for r in b["ret"]]})
        elif k == "rescale":
            if len(case["xs"]) > 1:
                yield dict(case, xs=case["xs"][:len(case["xs"]) // 2])
                yield dict(case, xs=case["xs"][len(case["xs"]) // 2:])
        elif k == "dispatch":
            if len(case["accs"]) > 1:
                for i in range(len(case["accs"])):
                    yield dict(case, accs=case["accs"][:i] + case["accs"][i + 1:])


PROP = C18()
