"""C14 — dispatch runs each operation on exactly the cores it belongs to.

case  = a generated MODULE as a small JSON tree (rendered to MLIR here) + nb_cores: 1-3 functions with bodies of every
        visibility (public / private / no keyword), possibly an external declaration, calls between them
impl  = the REAL pass DispatchRegions(nb_cores) applied in-process to the parsed module (every op of the input
        carries an id attribute), converted to the model AST; the REAL rules evaluated on every op; per-core
        executions of the emitted IR (interpreter below)
model = Lean: c14.rules on the op descriptors, c14.dispatch on the converted input, c14.run on the model's output
oracle= per function with a body (each is an entry point, callees are entered), per core id: execute the emitted IR (core-id call, constants, compares and guards interpreted concretely)
        and compare the executed op ids with the original execution filtered by the real rules; the same after
        xDSL's function-constant-pinning (whole module and every pinned specialisation)
"""
import random

import compat  # noqa: F401
import snaxrun
from framework import Prop

ID = "c14_id"
T64 = "memref<16xi64>"
T32 = "memref<16xi32>"
T8 = "memref<16xi8>"
TT = "tensor<16xi32>"
FUEL = 6

# ------------------------------------------------------------------------------------------------
# rendering of a case tree to MLIR
# ------------------------------------------------------------------------------------------------


def _dart(ind, acc, ty, first_generic=True, kernel="kernel.add", form="operation"):
    """a dart streaming region: form = operation (unscheduled) | schedule | access_pattern -- the three subclasses of
    dart.StreamingRegionOpBase; in the snaxc pipeline dispatch-regions sees the scheduled forms"""
    mt = f"memref<16x{ty}>"
    a, b, c = {"i64": ("%a", "%b", "%c"), "i32": ("%x", "%y", "%z"), "i8": ("%p", "%q", "%r")}[ty]
    accp = f', accelerator = "{acc}"' if acc else ""
    pre = f'{ind}    "test.op"() : () -> ()\n' if not first_generic else ""
    return (
        f'{ind}"dart.{form}"({a}, {b}, {c}) <{{' + {"operation": "", "schedule": "bounds = [16 : index], tiles = [[16 : index]], ",
                                                  "access_pattern": "bounds = [16 : index], "}[form] +
        f'patterns = [affine_map<(d0) -> (d0)>, affine_map<(d0) -> (d0)>, '
        f'affine_map<(d0) -> (d0)>]{accp}, operandSegmentSizes = array<i32: 2, 1>}}> ({{\n'
        f'{ind}  ^bb0(%s0 : !dart.stream<{ty}>, %s1 : !dart.stream<{ty}>, %s2 : !dart.stream<{ty}>):\n'
        f'{pre}'
        f'{ind}    %s3 = "dart.generic"(%s0, %s1) <{{library_call = "k"}}> ({{\n'
        f'{ind}    ^bb1(%k0 : {ty}, %k1 : {ty}, %k2 : {ty}):\n'
        f'{ind}      %k3 = {kernel} %k0, %k1 : {ty}, {ty} -> {ty}\n'
        f'{ind}      dart.yield %k3 : {ty}\n'
        f'{ind}    }}) : (!dart.stream<{ty}>, !dart.stream<{ty}>) -> !dart.stream<{ty}>\n'
        f'{ind}    dart.yield %s3 : !dart.stream<{ty}>\n'
        f'{ind}  }}) : ({mt}, {mt}, {mt}) -> ()'
    )


MEM_OF = {"i64": ("%a", "%b"), "i32": ("%x", "%y"), "i8": ("%p", "%q")}


def _dart_rescale(ind, acc, tin, tout):
    """a streaming region with one input and one output whose kernel is kernel.rescale (tin) -> tout"""
    src = MEM_OF[tin][0]
    dst = MEM_OF[tout][1]
    return (
        f'{ind}"dart.operation"({src}, {dst}) <{{patterns = [affine_map<(d0) -> (d0)>, affine_map<(d0) -> (d0)>], '
        f'accelerator = "{acc}", operandSegmentSizes = array<i32: 1, 1>}}> ({{\n'
        f'{ind}  ^bb0(%s0 : !dart.stream<{tin}>, %s1 : !dart.stream<{tout}>):\n'
        f'{ind}    %s2 = "dart.generic"(%s0) <{{library_call = "k"}}> ({{\n'
        f'{ind}    ^bb1(%k0 : {tin}, %k1 : {tout}):\n'
        f'{ind}      %k2 = kernel.rescale %k0 {{input_zp = 0 : i32, output_zp = 0 : i32, multiplier = array<i32: 1>, '
        f'shift = array<i32: 1>, max_int = 127 : i32, min_int = -128 : i32, double_round = true}} : ({tin}) -> {tout}\n'
        f'{ind}      dart.yield %k2 : {tout}\n'
        f'{ind}    }}) : (!dart.stream<{tin}>) -> !dart.stream<{tout}>\n'
        f'{ind}    dart.yield %s2 : !dart.stream<{tout}>\n'
        f'{ind}  }}) : (memref<16x{tin}>, memref<16x{tout}>) -> ()'
    )


class Render:
    def __init__(self, retval=False):
        self.n = 0
        self.retval = retval  # the functions of the module return an i32

    def fresh(self, p="v"):
        self.n += 1
        return f"%{p}{self.n}"

    def leaf(self, node, ind, vis):
        k = node[0]
        if k == "copy":
            return f'{ind}"memref.copy"(%a, %b) : ({T64}, {T64}) -> ()'
        if k == "gen":
            return (f'{ind}linalg.generic {{indexing_maps = [affine_map<(d0) -> (d0)>, affine_map<(d0) -> (d0)>], '
                    f'iterator_types = ["parallel"]}} ins(%a : {T64}) outs(%b : {T64}) {{\n'
                    f'{ind}^bb0(%g0: i64, %g1: i64):\n{ind}  linalg.yield %g0 : i64\n{ind}}}')
        if k == "gent":  # dispatchable op WITH a result (tensor form); node[1] = whether a later op uses it
            r = self.fresh("t")
            s = (f'{ind}{r} = linalg.generic {{indexing_maps = [affine_map<(d0) -> (d0)>, affine_map<(d0) -> (d0)>], '
                 f'iterator_types = ["parallel"]}} ins(%t : {TT}) outs(%t : {TT}) {{\n'
                 f'{ind}^bb0(%g0: i32, %g1: i32):\n{ind}  linalg.yield %g0 : i32\n{ind}}} -> {TT}')
            if node[1]:
                vis.append((r, TT))
            return s
        if k == "alu":
            return _dart(ind, "snax_alu", "i64")
        if k == "xadd32":
            return _dart(ind, "snax_xdma", "i32")
        if k == "xadd64":
            return _dart(ind, "snax_xdma", "i64")
        if k == "xresc":  # ["xresc", tin, tout, accelerator]: kernel.rescale on the xDMA (or elsewhere) for every type combination
            return _dart_rescale(ind, node[3], node[1], node[2])
        if k == "xadd8":
            return _dart(ind, "snax_xdma", "i8")
        if k == "dartform":  # ["dartform", form, base]: the scheduled forms of a streaming region
            acc, ty, fg = {"alu": ("snax_alu", "i64", True), "xadd32": ("snax_xdma", "i32", True), "xadd64": ("snax_xdma", "i64", True),
                           "xnogen": ("snax_xdma", "i32", False)}[node[2]]
            return _dart(ind, acc, ty, first_generic=fg, form=node[1])
        if k == "xmul32":
            return _dart(ind, "snax_xdma", "i32", kernel="kernel.mul")
        if k == "xnogen":
            return _dart(ind, "snax_xdma", "i32", first_generic=False)
        if k == "noacc":
            return _dart(ind, None, "i64")
        if k == "unreg":
            return _dart(ind, "snax_nonexistent", "i64")
        if k == "call":  # ["call", callee name]: a call of another function of the module (or of a declaration)
            if self.retval and node[1] != "ext":
                r = self.fresh()
                vis.append((r, "i32"))
                return f'{ind}{r} = func.call @{node[1]}({", ".join(ARG_NAMES)}) : ({", ".join(ARG_TYPES)}) -> i32'
            return f'{ind}func.call @{node[1]}({", ".join(ARG_NAMES)}) : ({", ".join(ARG_TYPES)}) -> ()'
        if k == "corecall":  # a call of snax_cluster_core_idx that is part of the program; its result may be used
            r = self.fresh()
            vis.append((r, "i32"))
            return f'{ind}{r} = func.call @snax_cluster_core_idx() : () -> i32'
        if k == "sync":
            return f'{ind}"snax.cluster_sync_op"() : () -> ()'
        if k == "op":  # ["op", nres, nuses]
            uses = vis[len(vis) - min(node[2], len(vis)):]
            res = [self.fresh() for _ in range(node[1])]
            s = (f'{ind}{", ".join(res) + " = " if res else ""}"test.op"({", ".join(u for u, _ in uses)}) : '
                 f'({", ".join(t for _, t in uses)}) -> ({", ".join("i32" for _ in res)})')
            vis.extend((r, "i32") for r in res)
            return s
        raise ValueError(f"bad node {k}")

    def ops(self, nodes, ind, vis):
        out = []
        vis = list(vis)
        for node in nodes:
            k = node[0]
            if k == "if":  # ["if", c, then, else|None, has_result]
                _, c, th, el, hasres = node
                if hasres:
                    r = self.fresh()
                    va, vb = self.fresh(), self.fresh()
                    out.append(f'{ind}{r} = scf.if %c{c} -> (i32) {{')
                    out += self.ops(th, ind + "  ", vis)
                    out.append(f'{ind}  {va} = "test.op"() : () -> (i32)')
                    out.append(f'{ind}  scf.yield {va} : i32')
                    out.append(f'{ind}}} else {{')
                    out += self.ops(el or [], ind + "  ", vis)
                    out.append(f'{ind}  {vb} = "test.op"() : () -> (i32)')
                    out.append(f'{ind}  scf.yield {vb} : i32')
                    out.append(f'{ind}}}')
                    vis.append((r, "i32"))
                else:
                    out.append(f'{ind}scf.if %c{c} {{')
                    out += self.ops(th, ind + "  ", vis)
                    if el is not None:
                        out.append(f'{ind}}} else {{')
                        out += self.ops(el, ind + "  ", vis)
                    out.append(f'{ind}}}')
            elif k == "for":  # ["for", body]
                iv = self.fresh("i")
                out.append(f'{ind}scf.for {iv} = %lb to %ub step %st {{')
                out += self.ops(node[1], ind + "  ", vis)
                out.append(f'{ind}}}')
            elif k == "top":  # ["top", [region, ...], terminated]   unknown op with regions
                out.append(f'{ind}"test.op"() ({{')
                for i, rg in enumerate(node[1]):
                    if i:
                        out.append(f'{ind}}}, {{')
                    out += self.ops(rg, ind + "  ", vis)
                    if node[2]:
                        out.append(f'{ind}  "test.termop"() : () -> ()')
                out.append(f'{ind}}}) : () -> ()')
            else:
                out.append(self.leaf(node, ind, vis))
        return out

    def func(self, blocks, name="f", vis="public"):
        body = []
        for bi, bb in enumerate(blocks):
            if bi > 0:
                body.append(f"^bb{bi}:")
            body += self.ops(bb["ops"], "  ", [])
            t = bb["term"]
            if t[0] == "ret" and self.retval:
                rv = self.fresh("rv")
                body.append(f'  {rv} = "test.op"() : () -> i32')
                body.append(f"  func.return {rv} : i32")
            elif t[0] == "ret":
                body.append("  func.return")
            elif t[0] == "br":
                body.append(f"  cf.br ^bb{t[1]}")
            elif t[0] == "cbr":
                body.append(f"  cf.cond_br %c{t[1]}, ^bb{t[2]}, ^bb{t[3]}")
            elif t[0] == "none":
                pass
            else:
                raise ValueError("bad term")
        vis_kw = f"{vis} " if vis else ""
        hdr = (f"func.func {vis_kw}@{name}(%a : {T64}, %b : {T64}, %c : {T64}, %x : {T32}, %y : {T32}, %z : {T32}, %p : {T8}, %q : {T8}, %r : {T8}, %t : {TT}, "
               f"%c0 : i1, %c1 : i1, %lb : index, %ub : index, %st : index) {'-> i32 ' if self.retval else ''}{{\n")
        return hdr + "\n".join(body) + "\n}\n"


ARG_TYPES = [T64, T64, T64, T32, T32, T32, T8, T8, T8, TT, "i1", "i1", "index", "index", "index"]
ARG_NAMES = ["%a", "%b", "%c", "%x", "%y", "%z", "%p", "%q", "%r", "%t", "%c0", "%c1", "%lb", "%ub", "%st"]


def case_funcs(case):
    """the functions of a case: new format {"funcs": [{"name", "vis", "blocks" | None}]}; old format = one public @f"""
    if "funcs" in case:
        return case["funcs"]
    return [{"name": "f", "vis": "public", "blocks": case["blocks"]}]


def render(case):
    if "src" in case:
        return case["src"]
    out = []
    for fn in case_funcs(case):
        if fn["blocks"] is None:  # external declaration
            vis_kw = f"{fn['vis']} " if fn["vis"] else ""
            out.append(f"func.func {vis_kw}@{fn['name']}({', '.join(ARG_TYPES)}) -> ()\n")
        else:
            out.append(Render(bool(case.get("retval"))).func(fn["blocks"], fn["name"], fn["vis"]))
    if case.get("predeclared"):  # the module already declares snax_cluster_core_idx (e.g. it went through the pass before)
        out.insert(0 if case["predeclared"] == "first" else len(out), "func.func private @snax_cluster_core_idx() -> i32\n")
    return "".join(out)


# ------------------------------------------------------------------------------------------------
# generator
# ------------------------------------------------------------------------------------------------

LEAVES = [("copy", 20), ("gen", 15), ("alu", 5), ("xadd32", 5), ("xadd64", 2), ("xadd8", 1), ("xmul32", 2), ("xnogen", 3), ("gent", 3),
          ("xresc", 12), ("dartform", 8),
          ("sync", 4), ("corecall", 2), ("op", 35)]


def gen_leaf(rng, mal):
    if mal and rng.random() < 0.15:
        return [rng.choice(["noacc", "unreg"])]
    r = rng.random() * sum(w for _, w in LEAVES)
    for k, w in LEAVES:
        r -= w
        if r < 0:
            break
    if k == "op":
        return ["op", rng.choice([0, 0, 1, 1, 2]), rng.choice([0, 0, 1, 2])]
    if k == "gent":
        return ["gent", rng.random() < 0.5]
    if k == "dartform":
        return ["dartform", rng.choice(["schedule", "access_pattern"]), rng.choice(["alu", "alu", "xadd32", "xadd32", "xadd64", "xnogen"])]
    if k == "xresc":
        # the two extension kernels (down i32->i8, up i8->i32) get most of the weight, the other combinations the rest
        tin, tout = rng.choice([("i32", "i8"), ("i32", "i8"), ("i8", "i32"), ("i8", "i32"), ("i32", "i32"), ("i8", "i8"),
                                ("i64", "i8"), ("i32", "i64")])
        return ["xresc", tin, tout, "snax_xdma" if rng.random() < 0.85 else "snax_alu"]
    return [k]


def gen_ops(rng, depth, n, mal):
    out = []
    for _ in range(n):
        k = rng.random()
        if depth == 0 or k < 0.66:
            out.append(gen_leaf(rng, mal))
            # adjacent runs of the same class are what the grouping is about
            while rng.random() < 0.3:
                out.append([out[-1][0]] + out[-1][1:] if rng.random() < 0.6 else gen_leaf(rng, mal))
        elif k < 0.80:
            out.append(["if", rng.randint(0, 1), gen_ops(rng, depth - 1, rng.randint(0, 3), mal),
                        gen_ops(rng, depth - 1, rng.randint(0, 2), mal) if rng.random() < 0.5 else None,
                        False])
            if rng.random() < 0.15:
                out[-1][4] = True
                out[-1][3] = out[-1][3] or []
        elif k < 0.93:
            out.append(["for", gen_ops(rng, depth - 1, rng.randint(0, 3), mal)])
        else:
            out.append(["top", [gen_ops(rng, depth - 1, rng.randint(0, 2), mal) for _ in range(rng.randint(1, 3))],
                        (not mal) or rng.random() < 0.7])
    return out


def gen_blocks(rng, tier, mal):
    nblocks = rng.choice([1, 1, 1, 2, 2, 3]) if tier == "quick" else rng.choice([1, 1, 2, 2, 3, 3, 4])
    depth = rng.choice([1, 2, 2, 3]) if tier == "quick" else rng.choice([1, 2, 3, 3, 4])
    blocks = []
    for bi in range(nblocks):
        ops = gen_ops(rng, depth, rng.randint(0, 4), mal)
        if bi == nblocks - 1:
            term = ["ret"] if rng.random() < 0.8 or nblocks == 1 else ["br", rng.randrange(1, nblocks)]
            if mal and rng.random() < 0.1:
                term = ["none"]
        else:
            k = rng.random()
            if k < 0.6:
                term = ["br", bi + 1]
            elif k < 0.9:
                term = ["cbr", rng.randint(0, 1), rng.randrange(1, nblocks), rng.randrange(1, nblocks)]
            else:
                term = ["ret"]
        blocks.append({"ops": ops, "term": term})
    return blocks


def insert_call(rng, ops, callee):
    """put a call of `callee` somewhere in the op tree (any depth)"""
    if ops and rng.random() < 0.5:
        cands = [n for n in ops if n[0] in ("if", "for", "top")]
        if cands:
            n = rng.choice(cands)
            sub = n[2] if n[0] == "if" else n[1] if n[0] == "for" else rng.choice(n[1])
            return insert_call(rng, sub, callee)
    ops.insert(rng.randint(0, len(ops)), ["call", callee])


def gen_case(rng, tier, mal=False):
    """a module: 1-3 functions with bodies (public / private / no visibility keyword; a function may call later ones)
    and possibly an external declaration (which may be called too)"""
    nf = rng.choice([1, 1, 1, 2, 2, 3])
    funcs = []
    for i in range(nf):
        vis = rng.choice(["public", "public", "private", "private", None])
        funcs.append({"name": f"f{i}", "vis": vis, "blocks": gen_blocks(rng, tier, mal)})
    if rng.random() < 0.3:
        # declarations must be private; the malformed stream also tries the other visibilities
        funcs.insert(rng.randint(0, len(funcs)), {"name": "ext", "vis": rng.choice(["public", None]) if mal and rng.random() < 0.3 else "private",
                                                  "blocks": None})
    names = [f["name"] for f in funcs if f["blocks"] is not None]
    for i, caller in enumerate(names[:-1]):
        for callee in names[i + 1:]:
            if rng.random() < 0.7:
                fn = next(f for f in funcs if f["name"] == caller)
                insert_call(rng, rng.choice(fn["blocks"])["ops"], callee)
    if any(f["name"] == "ext" for f in funcs) and rng.random() < 0.6:
        who = rng.choice(names)
        fn = next(f for f in funcs if f["name"] == who)
        insert_call(rng, rng.choice(fn["blocks"])["ops"], "ext")
    case = {"kind": "malformed" if mal else f"mod{nf}", "funcs": funcs, "nb": rng.choice([1, 2, 2, 2, 3, 3, 4, 5]),
            "xseed": rng.getrandbits(16)}
    if rng.random() < 0.15:
        case["retval"] = True  # functions with a result (func.return with an operand, calls with a result)
    has_cc = '"corecall"' in __import__("json").dumps(funcs)
    if has_cc or rng.random() < 0.08:
        # a program that calls snax_cluster_core_idx must declare it; "last" is where the pass itself puts the declaration
        case["predeclared"] = "first" if rng.random() < 0.7 else "last"
    return case


# ------------------------------------------------------------------------------------------------
# running the real pass, conversion of xDSL IR to the model AST
# ------------------------------------------------------------------------------------------------

_CTX = None


def the_ctx():
    """snax-opt's context plus snax_xdma (only registered from a hardware config in snaxc itself)."""
    global _CTX
    if _CTX is None:
        from snaxc.accelerators.snax_xdma import SNAXXDMAAccelerator
        c = snaxrun.fresh_ctx()
        if "snax_xdma" not in c.registered_accelerator_names:
            c.register_accelerator("snax_xdma", lambda: SNAXXDMAAccelerator())
        _CTX = c
    return _CTX


class Unsupported(Exception):
    pass


def get_id(op):
    a = op.attributes.get(ID)
    return None if a is None else a.value.data


def annotate(mod):
    """every op inside every function of the module gets a module-wide unique id"""
    from xdsl.dialects import func
    from xdsl.dialects.builtin import IntegerAttr, i64
    n = 0
    for f in mod.ops:
        if not isinstance(f, func.FuncOp):
            continue
        for op in f.walk():
            if op is f:
                continue
            n += 1
            op.attributes[ID] = IntegerAttr(n, i64)
    return n


def find_func(mod, name=None):
    """the function called `name`; without a name the first function that has a body"""
    from xdsl.dialects import func
    for o in mod.ops:
        if isinstance(o, func.FuncOp) and (o.sym_name.data == name if name else bool(o.body.blocks)):
            return o
    raise Unsupported(f"no function {name}")


def descriptor(op):
    """the facts the dispatching rules look at (is_same_kernel is evaluated by the real helper and shipped)"""
    from xdsl.dialects import linalg, memref
    from snaxc.accelerators.snax_xdma import SNAXXDMAAccelerator
    from snaxc.accelerators.streamers.extensions import XDMA_EXT_SET
    from snaxc.dialects import dart
    if isinstance(op, memref.CopyOp):
        return ["copy"]
    if isinstance(op, linalg.GenericOp):
        return ["generic"]
    if op.name == "func.call" and op.callee.string_value() == "snax_cluster_core_idx" and get_id(op) is not None:
        return ["corecall"]
    if isinstance(op, dart.StreamingRegionOpBase):
        ctx = the_ctx()
        if not op.accelerator:
            acc = "none"
        elif op.accelerator.data not in ctx.registered_accelerator_names:
            acc = "unreg"
        else:
            acc = "xdma" if isinstance(ctx.get_acc(op.accelerator.data), SNAXXDMAAccelerator) else "other"
        first = op.body.block.first_op
        fg = isinstance(first, dart.GenericOp)
        ms = []
        if fg:
            kop = first.body.block.first_op
            ms = [bool(e.supported_kernel.is_same_kernel(kop)) for e in XDMA_EXT_SET if e.supported_kernel is not None]
        return ["stream", acc, fg, ms]
    return ["other"]


class Conv:
    """xDSL function -> model AST. Ops without an id attribute were created by the pass."""

    def __init__(self, func_op):
        self.f = func_op
        self.pre_vals = {}  # SSA value -> ("call",) | ("const", v) | ("cmp", c)

    def is_term(self, op):
        from xdsl.traits import IsTerminator
        return op.has_trait(IsTerminator, value_if_unregistered=False)

    def op(self, op):
        from xdsl.dialects import scf
        i = get_id(op)
        if i is None:
            if isinstance(op, scf.IfOp):
                v = self.pre_vals.get(op.cond)
                if v is None or v[0] != "cmp":
                    raise Unsupported("inserted scf.if whose condition is not a core-id comparison of the prelude")
                if op.false_region.blocks and list(op.false_region.block.ops):
                    raise Unsupported("inserted scf.if with an else region")
                if op.results:
                    raise Unsupported("inserted scf.if with results")
                ops = list(op.true_region.block.ops)
                if not ops or not isinstance(ops[-1], scf.YieldOp) or get_id(ops[-1]) is not None or ops[-1].operands:
                    raise Unsupported("guard without its scf.yield")
                return ["guard", v[1], [self.op(o) for o in ops[:-1]]]
            raise Unsupported(f"op without id: {op.name}")
        d = descriptor(op)
        has_inner = any(True for r in op.regions for b in r.blocks for _ in b.ops)
        if d not in (["other"], ["corecall"]):
            for o in op.walk():
                if o is not op and descriptor(o) not in (["other"], ["corecall"]):
                    raise Unsupported("dispatchable op nested in a dispatchable op")
            return ["leaf", i, d, has_inner]
        if not op.regions:
            return ["leaf", i, d, False]
        kind = 0 if isinstance(op, scf.IfOp) else 1 if isinstance(op, scf.ForOp) else 2
        regs = []
        for r in op.regions:
            if len(r.blocks) > 1:
                raise Unsupported("multi-block nested region")
            regs.append(self.block_ops(list(r.block.ops)) if r.blocks else [])
        return ["reg", i, kind, regs]

    def block_ops(self, ops):
        if ops and self.is_term(ops[-1]) and not ops[-1].regions:
            ops = ops[:-1]
        return [self.op(o) for o in ops]

    def func(self):
        from xdsl.dialects import arith, cf, func
        blocks = list(self.f.body.blocks)
        pre = []
        out = []
        for bi, b in enumerate(blocks):
            ops = list(b.ops)
            if bi == 0:
                while ops and get_id(ops[0]) is None and isinstance(ops[0], (func.CallOp, arith.ConstantOp, arith.CmpiOp)):
                    o = ops.pop(0)
                    if isinstance(o, func.CallOp):
                        if o.callee.string_value() != "snax_cluster_core_idx" or len(o.results) != 1 or str(o.results[0].type) != "i32":
                            raise Unsupported("unexpected call in the prelude")
                        pa = o.attributes.get("pin_to_constants")
                        extra = set(o.attributes) - {"pin_to_constants"}
                        if pa is None or extra:
                            raise Unsupported("core-id call without / with unexpected attributes")
                        for a in pa.data:
                            if str(a.type) != "i32":
                                raise Unsupported("pin constant is not i32")
                        pre.append(["call", [a.value.data for a in pa.data]])
                        self.pre_vals[o.results[0]] = ("call",)
                    elif isinstance(o, arith.ConstantOp):
                        if str(o.result.type) != "i32":
                            raise Unsupported("prelude constant is not i32")
                        pre.append(["const", o.value.value.data])
                        self.pre_vals[o.result] = ("const", o.value.value.data)
                    else:
                        l, r = self.pre_vals.get(o.lhs), self.pre_vals.get(o.rhs)
                        if o.predicate.value.data != 0 or l != ("call",) or r is None or r[0] != "const":
                            raise Unsupported("prelude compare is not `eq core_id, const`")
                        pre.append(["cmp", r[1]])
                        self.pre_vals[o.result] = ("cmp", r[1])
            if not ops:
                raise Unsupported("block without terminator")
            t = ops[-1]
            if isinstance(t, func.ReturnOp):
                term = ["ret"]
            elif isinstance(t, cf.BranchOp):
                term = ["br", blocks.index(t.successor)]
            elif isinstance(t, cf.ConditionalBranchOp):
                term = ["cbr", get_id(t), blocks.index(t.then_block), blocks.index(t.else_block)]
            else:
                raise Unsupported(f"block ends with {t.name}")
            if get_id(t) is None:
                raise Unsupported("terminator without id")
            out.append({"body": [self.op(o) for o in ops[:-1]], "term": term})
        return {"pre": pre, "blocks": out}


def layout(mod):
    """module order of the func.func ops: function names, "coredecl" for the declaration of snax_cluster_core_idx"""
    from xdsl.dialects import func
    return ["coredecl" if o.sym_name.data == "snax_cluster_core_idx" else o.sym_name.data
            for o in mod.ops if isinstance(o, func.FuncOp)]


def has_decl(mod):
    return count_decl(mod) > 0


def count_decl(mod):
    from xdsl.dialects import func
    return sum(1 for o in mod.ops if isinstance(o, func.FuncOp) and o.sym_name.data == "snax_cluster_core_idx")


# ------------------------------------------------------------------------------------------------
# the decision oracle shared with the Lean driver (Model/Dispatch.lean: mix, stdOrc)
# ------------------------------------------------------------------------------------------------


def mix(seed, k, path):
    a = (seed * 7919 + k * 104729 + 17) % 1000003
    for x in path:
        a = (a * 31 + x + 1) % 1000003
    return a


def std_orc(seed, k, kind, path):
    h = mix(seed, k, path)
    if kind in (0, 3):
        return [h % 2]
    if kind == 1:
        return [0] * (h % 3)
    return [(h // 3 + i) % 3 for i in range(h % 3)]


# ------------------------------------------------------------------------------------------------
# per-core interpreter on xDSL IR
# ------------------------------------------------------------------------------------------------


class Interp:
    """Executes a function of `mod` on one core. Ops carrying an id are program ops: leaves are logged, control
    decisions come from std_orc(seed, id, kind, dynamic path). Ops without id (inserted by dispatch-regions or by
    function-constant-pinning) are interpreted concretely."""

    def __init__(self, mod, core, seed, follow=True):
        # follow: execute the body of a called function of the module (the Lean model has no calls: follow=False there)
        self.mod, self.core, self.seed, self.follow = mod, core, seed, follow
        self.trace = []
        self.calls = 0

    def run_func(self, name, fuel=FUEL, entry=0, base=()):
        f = find_func(self.mod, name)
        blocks = list(f.body.blocks)
        env = {"__base__": list(base)}
        cur = entry
        n = fuel
        while n > 0 and 0 <= cur < len(blocks):
            n -= 1
            r = self.block(blocks[cur], env, [n] + list(base), blocks)
            if r is None or r[0] == "ret":
                return
            cur = r[1]

    def block(self, block, env, path, blocks=None):
        from xdsl.dialects import arith, cf, func, scf
        from xdsl.traits import IsTerminator
        for op in block.ops:
            i = get_id(op)
            if i is None:
                if isinstance(op, func.CallOp):
                    name = op.callee.string_value()
                    if name == "snax_cluster_core_idx":
                        env[op.results[0]] = self.core
                    else:
                        self.calls += 1
                        if self.calls > 20000:
                            raise Unsupported("call budget")
                        self.run_func(name, base=env["__base__"])  # a pinned clone continues the same activation
                elif isinstance(op, arith.ConstantOp):
                    env[op.result] = op.value.value.data
                elif isinstance(op, arith.CmpiOp):
                    if op.predicate.value.data != 0:
                        raise Unsupported("inserted compare is not eq")
                    env[op.result] = int(env[op.lhs] == env[op.rhs])
                elif isinstance(op, scf.IfOp):
                    reg = op.true_region if env[op.cond] else op.false_region
                    if reg.blocks:
                        self.block(reg.block, env, path)
                elif isinstance(op, scf.YieldOp):
                    return None
                elif isinstance(op, func.ReturnOp):
                    return ("ret",)
                else:
                    raise Unsupported(f"cannot interpret inserted op {op.name}")
                continue
            if isinstance(op, func.ReturnOp):
                return ("ret",)
            if isinstance(op, cf.BranchOp):
                return ("br", blocks.index(op.successor))
            if isinstance(op, cf.ConditionalBranchOp):
                d = std_orc(self.seed, i, 3, path)[0]
                return ("br", blocks.index(op.then_block if d != 0 else op.else_block))
            if op.has_trait(IsTerminator, value_if_unregistered=False) and not op.regions:
                return None
            if descriptor(op) not in (["other"], ["corecall"]) or not op.regions:
                self.trace.append(i)
                if self.follow and isinstance(op, func.CallOp):
                    callee = has_body(self.mod, op.callee.string_value())
                    if callee:
                        self.calls += 1
                        if self.calls > 20000:
                            raise Unsupported("call budget")
                        self.run_func(callee, base=[i] + path)
                continue
            self.trace.append(i)
            kind = 0 if isinstance(op, scf.IfOp) else 1 if isinstance(op, scf.ForOp) else 2
            for it, r in enumerate(std_orc(self.seed, i, kind, path)):
                if r < len(op.regions) and op.regions[r].blocks:
                    self.block(op.regions[r].block, env, [it] + path)
        return None


def has_body(mod, name):
    from xdsl.dialects import func
    for o in mod.ops:
        if isinstance(o, func.FuncOp) and o.sym_name.data == name and o.body.blocks:
            return name
    return None


def trace_of(mod, core, seed, name=None, follow=True):
    it = Interp(mod, core, seed, follow)
    it.run_func(name or find_func(mod).sym_name.data)
    return it.trace


def funcs_of(mod):
    """all func.func ops of the module except the declaration the pass inserts"""
    from xdsl.dialects import func
    return [o for o in mod.ops if isinstance(o, func.FuncOp) and o.sym_name.data != "snax_cluster_core_idx"]


def guard_core(if_op):
    """core id tested by an inserted scf.if: its condition must be `arith.cmpi eq, <core-id call>, <constant>`"""
    from xdsl.dialects import arith, func
    c = if_op.cond.owner
    if not isinstance(c, arith.CmpiOp) or c.predicate.value.data != 0:
        return None
    call, cst = c.lhs.owner, c.rhs.owner
    if not (isinstance(call, func.CallOp) and get_id(call) is None and call.callee.string_value() == "snax_cluster_core_idx"):
        return None
    if not isinstance(cst, arith.ConstantOp):
        return None
    return cst.value.value.data


def static_guards(f, nb, cls):
    """None if every program op of f is enclosed by exactly the guards its class asks for, else a description"""
    from xdsl.dialects import scf
    for op in f.walk():
        i = get_id(op)
        if i is None:
            continue
        stack = []
        cur = op
        while cur.parent_op() is not None and cur.parent_op() is not f:
            par = cur.parent_op()
            if get_id(par) is None:
                if not isinstance(par, scf.IfOp):
                    return f"op {i} ({op.name}) is nested in an inserted {par.name}"
                blk = cur.parent_block()
                if blk.parent_region() is not par.true_region:
                    return f"op {i} ({op.name}) was put in the ELSE branch of an inserted scf.if (runs on every OTHER core)"
                g = guard_core(par)
                if g is None:
                    return f"op {i} ({op.name}) is under an inserted scf.if whose condition is not `core_id == constant`"
                stack.append(g)
            cur = par
        stack.reverse()
        # the guards of an enclosing dispatched op (e.g. linalg.generic) also enclose the ops nested in it
        want = []
        for anc in list(reversed(ancestors(op, f))) + [op]:
            if get_id(anc) is not None:
                dm, cp = cls[get_id(anc)]
                want += ([nb - 1] if dm else []) + ([0] if cp else [])
        if stack != want:
            return (f"op {i} ({op.name}) is guarded by core conditions {stack} (outermost first); the rules ask for {want}")
    return None


def ancestors(op, f):
    out = []
    cur = op.parent_op()
    while cur is not None and cur is not f:
        out.append(cur)
        cur = cur.parent_op()
    return out


def skeleton(f):
    """the function with every op that carries no id erased (bodies of erased scf.if kept in place): nested lists of ids"""
    def blk(b):
        out = []
        for op in b.ops:
            i = get_id(op)
            if i is None:
                for r in op.regions:
                    for bb in r.blocks:
                        out += blk(bb)
            else:
                out.append([i, [[blk(bb) for bb in r.blocks] for r in op.regions]])
        return out
    return [blk(b) for b in f.body.blocks]


def block_dominators(f):
    """strict-or-equal dominator sets of the blocks of a function body (entry = first block; unreachable blocks are
    dominated by everything, as in MLIR)"""
    blocks = list(f.body.blocks)
    if not blocks:
        return {}
    succ = {id(b): [id(s) for s in (b.last_op.successors if b.last_op is not None else [])] for b in blocks}
    ids = [id(b) for b in blocks]
    reach = set()
    todo = [ids[0]]
    while todo:
        x = todo.pop()
        if x not in reach:
            reach.add(x)
            todo += succ[x]
    pred = {x: [] for x in ids}
    for x in ids:
        for y in succ[x]:
            pred[y].append(x)
    dom = {x: set(ids) for x in ids}
    dom[ids[0]] = {ids[0]}
    changed = True
    while changed:
        changed = False
        for x in ids[1:]:
            if x not in reach:
                continue
            ps = [dom[p] for p in pred[x] if p in reach]
            new = (set.intersection(*ps) if ps else set()) | {x}
            if new != dom[x]:
                dom[x] = new
                changed = True
    return dom


def value_dominates(v, user, dom):
    """SSA dominance of one operand (xDSL's verifier does not check it): the definition is an earlier op of the same block,
    or an argument of / an earlier op in an enclosing block, or lives in a function block that dominates the user's"""
    from xdsl.ir import BlockArgument
    if isinstance(v, BlockArgument):
        dop, dblock = None, v.block
    else:
        dop = v.owner
        dblock = dop.parent_block()
    if dblock is None:
        return False
    cur = user
    while cur is not None and cur.parent_block() is not None and cur.parent_block().parent_region() is not dblock.parent_region():
        cur = cur.parent_op()
    if cur is None or cur.parent_block() is None:
        return False  # the definition sits in a region that does not enclose the use
    ublock = cur.parent_block()
    if ublock is dblock:
        if dop is None:
            return True
        return dop is not cur and dop.is_before_in_block(cur)
    return id(dblock) in dom.get(id(ublock), set())


def describe_op(op, f):
    blocks = list(f.body.blocks)
    top = op
    while top.parent_op() is not None and top.parent_op() is not f:
        top = top.parent_op()
    bi = blocks.index(top.parent_block()) if top.parent_block() in blocks else "?"
    i = get_id(op)
    return f"{'inserted ' if i is None else ''}{op.name}{'' if i is None else f' (op {i})'} in block {bi}"


def dominance_violations(f):
    """[(user op, operand index, value)] of every operand of every op in f that its definition does not dominate"""
    dom = block_dominators(f)
    out = []
    for op in f.walk():
        if op is f:
            continue
        for k, v in enumerate(op.operands):
            if not value_dominates(v, op, dom):
                out.append((op, k, v))
    return out


def real_rules(func_op):
    """id -> (dm, cp) by the REAL rules, for every op (with an id) inside func_op / the module"""
    from snaxc.util.dispatching_rules import dispatch_to_compute, dispatch_to_dm
    ctx = the_ctx()
    out = {}
    for op in func_op.walk():
        i = get_id(op)
        if i is not None:
            out[i] = (bool(dispatch_to_dm(op, ctx)), bool(dispatch_to_compute(op, ctx)))
    return out


def declared_dm_kernels(acc_name):
    """the kernels the accelerator itself declares to provide through its streamer extensions
    (SNAXXDMAAccelerator.supported_kernels, collected from the extensions of its streamers) -- taken from the accelerator
    object, not from dispatching_rules.py / XDMA_EXT_SET"""
    from snaxc.accelerators.snax_xdma import SNAXXDMAAccelerator
    ctx = the_ctx()
    if acc_name not in ctx.registered_accelerator_names:
        return None
    acc = ctx.get_acc(acc_name)
    return list(acc.supported_kernels) if isinstance(acc, SNAXXDMAAccelerator) else None


def spec_class(op):
    """who should execute the op according to the PROPERTY, independent of dispatching_rules.py:
    'dm' = data movement, 'cp' = accelerator/compute, 'all' = every core. A streaming region on the xDMA whose kernel
    is one of the kernels the xDMA accelerator declares (its extensions) is data-mover work; every other streaming
    region names an accelerator and is compute work."""
    if op.name == "memref.copy":
        return "dm"
    if op.name == "linalg.generic":
        return "cp"
    from snaxc.dialects import dart
    if isinstance(op, dart.StreamingRegionOpBase):
        first = op.body.block.first_op
        kernels = declared_dm_kernels(op.accelerator.data) if op.accelerator else None
        if kernels is not None and first is not None and first.name == "dart.generic":
            k = first.body.block.first_op
            if k is not None and any(sk.is_same_kernel(k) for sk in kernels):
                return "dm"
        return "cp"
    return "all"


def kernel_sig(op):
    """(kernel op name, operand + result types) of the kernel of a streaming region, None if its body is not a dart.generic"""
    from snaxc.dialects import dart
    first = op.body.block.first_op
    if not isinstance(first, dart.GenericOp):
        return None
    k = first.body.block.first_op
    if k is None:
        return None
    return [k.name, [str(t) for t in [*k.operand_types, *k.result_types]]]


def rule_outcome(fn, op):
    try:
        return bool(fn(op, the_ctx()))
    except BaseException as e:
        return {"raised": type(e).__name__}


def allowed(nb, core, dmcp):
    dm, cp = dmcp
    return (not dm or core == nb - 1) and (not cp or core == 0)


def seeds_of(case, n):
    r = random.Random(case.get("xseed", 0))
    return [r.randrange(1, 10 ** 6) for _ in range(n)]


class Invalid(Exception):
    pass


def parse_input(case):
    from xdsl.parser import Parser
    try:
        mod = Parser(the_ctx(), render(case)).parse_module()
        mod.verify()
    except BaseException as e:
        raise Invalid(type(e).__name__)
    annotate(mod)
    return mod


def apply_dispatch(mod, nb):
    from snaxc.transforms.dispatch_regions import DispatchRegions
    DispatchRegions(nb_cores=nb).apply(the_ctx(), mod)


def apply_pinning(mod):
    from xdsl.transforms.experimental.function_constant_pinning import FunctionConstantPinningPass
    FunctionConstantPinningPass().apply(the_ctx(), mod)


class C14(Prop):
    id = "C14"
    PARALLEL = True
    USES_IMPL = True
    FIXED = True  # the committed files expect fixes/F04-dispatch-regions-all-blocks.diff applied to the tree under test

    @property
    def RULES_FIXED(self):
        """which dispatch_to_compute the tree under test is expected to have: the one with fixes/FC14a iff finding DC14a is
        listed as fixed in known_findings.json (single switch: flip the status there when the fix is committed to /repo)"""
        if not hasattr(self, "_rules_fixed"):
            import framework
            _, fixed = framework.load_findings(self.id)
            self._rules_fixed = any(f["id"] == "DC14a" for f in fixed)
        return self._rules_fixed
    trusted_base = [
        "modelled: DispatchRegions.apply on a whole module (both patterns in module order, InsertFunctionDeclaration incl. the "
        "replace-existing-declaration crash DC14b), DispatchRegionsRewriter.match_and_rewrite incl. dispatcher (dispatch_regions.py WITH fix F04) and "
        "dispatch_to_dm / dispatch_to_compute (dispatching_rules.py) as decision tables over op kind, accelerator class, "
        "first body op and the per-extension is_same_kernel results (those are evaluated by the real helper and shipped)",
        "xDSL's function-constant-pinning is NOT modelled (model: the annotated call becomes the constant); its output is "
        "executed per core by the oracle on every single-block case",
        "harness/props/c14.py: renderer, xDSL->AST converter (ops without the id attribute = created by the pass), per-core "
        "interpreter; the Lean runF is compared with that interpreter on every case",
    ]
    assumptions = [
        "control decisions (branch taken, trip count, regions executed by an unknown op, cf.cond_br) are an arbitrary function of "
        "the static op and the dynamic path; they do not depend on the core id or on the results of dispatched ops",
        "no dispatchable op is nested inside another dispatchable op; nested regions are single-block; every function block ends "
        "in func.return / cf.br / cf.cond_br",
        "SSA validity of the output is outside the property: a dispatchable op whose result is used after it is moved under the "
        "guard without yielding the result (observed, reported in the notes)",
    ]
    rule = ("modules that already declare snax_cluster_core_idx (before or after the functions) and/or call it from the program, with and "
            "without anything to dispatch (enumerated every run, and in ~10% of the random modules); random modules of 1-3 functions with bodies (public / private / no visibility keyword, earlier functions may call later "
            "ones at any depth) and optionally an external declaration (which may be called); every (visibility x small body), "
            "caller/callee visibility pair and declaration module enumerated on every run; per function: 1-3 (thorough 1-4) blocks with cf.br/cf.cond_br incl. back edges, nested scf.if (with/without else, "
            "with results) / scf.for / unknown ops with 1-3 regions, leaves memref.copy, linalg.generic (memref and tensor form), "
            "dart.operation on snax_alu / snax_xdma (every extension kernel: rescale i32->i8, rescale i8->i32, add i32; non-matching type "
            "combinations and other kernels; non-generic body; all kernel x type x accelerator combinations enumerated every run), cluster_sync, test.op with "
            "results and uses, runs of adjacent equal ops; nb_cores 1..5; malformed stream: streaming regions without / with an "
            "unregistered accelerator, blocks without terminator; non-trivial = at least one dispatchable op and (a region op or "
            ">= 2 blocks)")

    def cases(self, rng, tier):
        n = 500 if tier == "quick" else 10000
        for i in range(n):
            yield gen_case(random.Random(rng.getrandbits(48)), tier, mal=(i % 12 == 11))
        yield from self.upstream()
        yield from self.visibilities()
        yield from self.xdma_kernels()
        yield from self.declarations()
        if tier == "thorough":
            yield from self.exhaustive()

    exhaustive_thorough = True

    def upstream(self):
        """the maintainers' own inputs of tests/filecheck/transforms/dispatch_regions.mlir"""
        import os
        p = os.path.join(os.environ.get("SNAX_REPO", "/repo"), "tests/filecheck/transforms/dispatch_regions.mlir")
        try:
            txt = open(p).read()
        except OSError:
            return
        for i, chunk in enumerate(txt.split("// -----")):
            src = "\n".join(l for l in chunk.split("\n") if not l.strip().startswith("//"))
            if src.strip():
                for nb in (2, 3):
                    yield {"kind": "upstream", "src": src, "nb": nb, "xseed": i}

    def declarations(self):
        """InsertFunctionDeclaration: modules that already call / already declare snax_cluster_core_idx, with and without
        anything to dispatch, one and two functions"""
        bodies = [[["op", 0, 0]], [["corecall"], ["op", 0, 1]], [["copy"]], [["corecall"], ["gen"], ["copy"]],
                  [["for", [["corecall"], ["op", 0, 1]]]]]
        i = 0
        for pre in (None, "first", "last"):
            for ops in bodies:
                if pre is None and any(n[0] == "corecall" or (n[0] == "for" and any(m[0] == "corecall" for m in n[1])) for n in ops):
                    continue
                i += 1
                c = {"kind": "decl", "blocks": [{"ops": ops, "term": ["ret"]}], "nb": 2, "xseed": 200 + i}
                if pre:
                    c["predeclared"] = pre
                yield c
            if pre is None:
                continue
            i += 1
            c = {"kind": "decl", "nb": 3, "xseed": 200 + i, "funcs": [
                {"name": "f0", "vis": "public", "blocks": [{"ops": [["op", 0, 0], ["call", "f1"]], "term": ["ret"]}]},
                {"name": "f1", "vis": "private", "blocks": [{"ops": [["corecall"], ["op", 0, 1]], "term": ["ret"]}]}]}
            if pre:
                c["predeclared"] = pre
            yield c

    def xdma_kernels(self):
        """every kernel x type combination on the xDMA (the extension kernels rescale down i32->i8, rescale up i8->i32, add i32
        and all the non-matching combinations), the same kernels on another accelerator, alone and inside a loop next to a copy"""
        leaves = [["xresc", ti, to, acc] for ti in ("i8", "i32", "i64") for to in ("i8", "i32", "i64") for acc in ("snax_xdma", "snax_alu")]
        leaves += [["xadd8"], ["xadd32"], ["xadd64"], ["xmul32"], ["xnogen"], ["alu"]]
        leaves += [["dartform", fm, b] for fm in ("schedule", "access_pattern") for b in ("alu", "xadd32", "xadd64", "xnogen")]
        for i, lf in enumerate(leaves):
            yield {"kind": "xdmak", "blocks": [{"ops": [lf], "term": ["ret"]}], "nb": 2, "xseed": 30 + i}
            yield {"kind": "xdmak", "blocks": [{"ops": [["copy"], ["for", [lf, ["op", 0, 0], lf]], ["gen"]], "term": ["ret"]}], "nb": 3,
                   "xseed": 60 + i}

    def visibilities(self):
        """every visibility (public / private / no keyword) x {copy, gen, copy in a loop} for a single function, a caller/callee
        pair of every visibility combination, and a module with an external declaration"""
        bodies = [[["copy"]], [["gen"]], [["for", [["copy"], ["op", 0, 0], ["gen"]]]]]
        viss = ["public", "private", None]
        for v in viss:
            for ops in bodies:
                yield {"kind": "vis1", "funcs": [{"name": "f0", "vis": v, "blocks": [{"ops": ops, "term": ["ret"]}]}], "nb": 2, "xseed": 11}
        for v0 in viss:
            for v1 in viss:
                yield {"kind": "vis2", "nb": 3, "xseed": 12, "funcs": [
                    {"name": "f0", "vis": v0, "blocks": [{"ops": [["copy"], ["sync"], ["call", "f1"], ["sync"], ["copy"]], "term": ["ret"]}]},
                    {"name": "f1", "vis": v1, "blocks": [{"ops": [["for", [["copy"], ["sync"], ["gen"], ["sync"]]], ["copy"]], "term": ["ret"]}]}]}
        for v in viss:
            yield {"kind": "visdecl", "nb": 2, "xseed": 13, "funcs": [
                {"name": "ext", "vis": "private", "blocks": None},
                {"name": "f0", "vis": v, "blocks": [{"ops": [["call", "ext"], ["copy"], ["gen"]], "term": ["ret"]}]}]}
        yield {"kind": "visdecl", "nb": 2, "xseed": 14, "funcs": [{"name": "ext", "vis": "private", "blocks": None}]}

    def exhaustive(self):
        """every straight-line block of <= 4 ops over {copy, gen, op, alu} x nb in {2,3}, and every 2-block split of it"""
        import itertools
        alph = [["copy"], ["gen"], ["op", 0, 0], ["alu"]]
        for n in range(0, 5):
            for seq in itertools.product(alph, repeat=n):
                for nb in (2, 3):
                    yield {"kind": "exh1", "blocks": [{"ops": [list(s) for s in seq], "term": ["ret"]}], "nb": nb, "xseed": 1}
                    if 2 <= n <= 3:
                        for cut in range(1, n):
                            yield {"kind": "exh2", "blocks": [{"ops": [list(s) for s in seq[:cut]], "term": ["br", 1]},
                                                              {"ops": [list(s) for s in seq[cut:]], "term": ["ret"]}],
                                   "nb": nb, "xseed": 1}

    @property
    def DECL_FIXED(self):
        """fixes/FC14b expected in the tree under test iff finding DC14b is listed as fixed in known_findings.json"""
        if not hasattr(self, "_decl_fixed"):
            import framework
            _, fixed = framework.load_findings(self.id)
            self._decl_fixed = any(f["id"] == "DC14b" for f in fixed)
        return self._decl_fixed

    # -- implementation ------------------------------------------------------------------------
    def impl(self, case):
        from xdsl.traits import IsTerminator
        from snaxc.util.dispatching_rules import dispatch_to_compute, dispatch_to_dm
        try:
            mod = parse_input(case)
        except Invalid as e:
            return {"invalid_input": str(e)}
        names = [f.sym_name.data for f in funcs_of(mod)]
        try:
            inputs = [Conv(f).func() for f in funcs_of(mod)]
        except Unsupported as e:
            return {"invalid_input": f"outside the model: {e}"}
        rules = []
        for op in mod.walk():
            i = get_id(op)
            if i is not None and not op.has_trait(IsTerminator, value_if_unregistered=False):
                d = descriptor(op)
                if d != ["other"] or not op.regions:
                    rules.append([i, d, rule_outcome(dispatch_to_dm, op), rule_outcome(dispatch_to_compute, op)])
        from snaxc.dialects import dart
        # kernel signature of every streaming region with a generic body + the REAL per-extension is_same_kernel results
        ksigs = []
        for op in mod.walk():
            if get_id(op) is not None and isinstance(op, dart.StreamingRegionOpBase):
                sig = kernel_sig(op)
                if sig is not None:
                    ksigs.append([get_id(op)] + sig + [descriptor(op)[3]])
        nb = case["nb"]
        orig = mod.clone()
        base = {"names": names, "inputs": inputs, "rules": rules, "ksigs": ksigs, "layout_in": layout(mod)}
        try:
            apply_dispatch(mod, nb)
        except BaseException as e:
            return dict(base, raised=type(e).__name__)
        after = funcs_of(mod)
        if [f.sym_name.data for f in after] != names:
            return dict(base, convert_error=f"functions after the pass: {[f.sym_name.data for f in after]}")
        try:
            outs = [Conv(f).func() for f in after]
        except Unsupported as e:
            return dict(base, convert_error=str(e))
        # per function (without entering callees: the model has no calls), per core, per decision seed
        traces = []
        for fi, f in enumerate(after):
            if not f.body.blocks:
                continue
            for s in seeds_of(case, 2):
                for core in range(nb):
                    traces.append([fi, core, s, trace_of(mod, core, s, names[fi], follow=False)])
                traces.append([fi, -1, s, trace_of(orig, 0, s, names[fi], follow=False)])
        vis = [None if f.sym_visibility is None else f.sym_visibility.data for f in after]
        vis0 = [None if f.sym_visibility is None else f.sym_visibility.data for f in funcs_of(orig)]
        return dict(base, funcs=outs, layout_out=layout(mod), traces=traces, filtered=traces, visibility_kept=(vis == vis0))

    # -- model ---------------------------------------------------------------------------------
    def requests(self, case, impl_out):
        if "inputs" not in impl_out:
            return []
        rf = self.RULES_FIXED
        reqs = [{"fn": "c14.rules", "args": {"kind": r[1], "rules": rf}} for r in impl_out["rules"]]
        # the whole pass on the module: both patterns, functions and the core-id declaration in module order
        by_name = dict(zip(impl_out["names"], impl_out["inputs"]))
        items = ["coredecl" if n == "coredecl" else {"fn": by_name[n]} for n in impl_out["layout_in"]]
        reqs.append({"fn": "c14.module", "args": {"nb": case["nb"], "items": items, "rules": rf, "declfix": self.DECL_FIXED}})
        for fi, core, s, _ in impl_out.get("traces", []):
            # the Lean semantics on the converted REAL output (ties runF to the interpreter) ...
            fn = impl_out["inputs"][fi] if core < 0 else impl_out["funcs"][fi]
            reqs.append({"fn": "c14.run", "args": {"func": fn, "core": max(core, 0), "seed": s, "fuel": FUEL, "entry": 0}})
            # ... and the right-hand side of C14_dispatch on the input (the theorem instance itself)
            reqs.append({"fn": "c14.filtered", "args": {"func": impl_out["inputs"][fi], "nb": case["nb"] if core >= 0 else 1, "rules": rf,
                                                       "core": max(core, 0), "seed": s, "fuel": FUEL, "entry": 0}})
        for k in impl_out["ksigs"]:  # last: the Lean table of extension kernels against XDMA_EXT_SET's is_same_kernel
            reqs.append({"fn": "c14.matches", "args": {"name": k[1], "tys": k[2]}})
        return reqs

    def model(self, case, answers, impl_out):
        if "inputs" not in impl_out:
            return impl_out
        nr = len(impl_out["rules"])
        rules = []
        for r, a in zip(impl_out["rules"], answers[:nr]):
            if "err" in a:
                return {"model_error": a["err"]}
            rules.append([r[0], r[1], a["ok"]["dm"], a["ok"]["cp"]])
            if r[1][0] == "stream" and r[1][2] and False not in r[1][3]:
                return {"model_error": "hypothesis OneExtDiffers of rules_exclusive / rules_match_spec_partial does not hold for XDMA_EXT_SET"}
        nk = len(impl_out["ksigs"])
        ksigs = []
        for k, a in zip(impl_out["ksigs"], answers[len(answers) - nk:] if nk else []):
            if "err" in a:
                return {"model_error": a["err"]}
            ksigs.append([k[0], k[1], k[2], a["ok"]])
        base = {"names": impl_out["names"], "inputs": impl_out["inputs"], "rules": rules, "ksigs": ksigs,
                "layout_in": impl_out["layout_in"]}
        d = answers[nr]
        if "err" in d:
            return {"model_error": d["err"]}
        if "raised" in d["ok"]:  # a rule raises in the first function (module order) that has such an op / the walker trips (DC14b)
            return dict(base, raised=d["ok"]["raised"])
        outs = [it["fn"] for it in d["ok"]["items"] if it != "coredecl"]
        names = iter(impl_out["names"])
        lay = ["coredecl" if it == "coredecl" else next(names) for it in d["ok"]["items"]]
        out = dict(base, funcs=outs, layout_out=lay, visibility_kept=True)
        if "traces" in impl_out:
            rest = answers[nr + 1:]
            out["traces"] = [[fi, core, s, a.get("ok", a)] for (fi, core, s, _), a in zip(impl_out["traces"], rest[0::2])]
            out["filtered"] = [[fi, core, s, a.get("ok", a)] for (fi, core, s, _), a in zip(impl_out["traces"], rest[1::2])]
        return out

    # -- property on the implementation ----------------------------------------------------------
    def oracle(self, case, impl_out):
        if "invalid_input" in impl_out:
            return []
        try:
            mod = parse_input(case)
        except Invalid:
            return []
        nb = case["nb"]
        try:
            cls = real_rules(mod)
        except BaseException as e:
            from snaxc.dialects import dart
            names = set(the_ctx().registered_accelerator_names)
            if any(isinstance(o, dart.StreamingRegionOpBase) and (not o.accelerator or o.accelerator.data not in names) for o in mod.walk()):
                return []  # malformed program (streaming region without a registered accelerator): the pass cannot run
            return [{"what": f"a dispatching rule raised {type(e).__name__} on a well-formed program: {str(e)[:200]}", "finding": None}]
        orig = mod.clone()
        try:
            apply_dispatch(mod, nb)
        except BaseException as e:
            # DC14b: the module already declares snax_cluster_core_idx AFTER a function that calls it once the first pattern ran
            lay = layout(orig)
            late = False
            if "coredecl" in lay:
                for n in lay[:lay.index("coredecl")]:
                    late = late or any(cls[get_id(o)] != (False, False) or descriptor(o) == ["corecall"]
                                       for o in find_func(orig, n).walk() if get_id(o) is not None)
            if late and isinstance(e, ValueError) and "insertion point" in str(e) and not self.DECL_FIXED:
                return [{"what": "dispatch-regions raises ValueError (the walker visits the detached old declaration) instead of dispatching: the "
                                 "module declares snax_cluster_core_idx after a function that calls it -- e.g. any module that went through "
                                 "dispatch-regions before", "finding": "DC14b"}]
            return [{"what": f"dispatch-regions raised {type(e).__name__} on a program on which the rules do not raise: {str(e)[:200]}",
                     "finding": None}]
        try:
            mod.verify()
        except BaseException as e:
            return [{"what": f"output of dispatch-regions does not verify: {type(e).__name__}: {str(e)[:200]}", "finding": None}]
        res = []
        # SSA dominance of every operand of the output (xDSL's verifier does not check it): a guard whose condition is not
        # computed on every path to it, or a value that is only defined on some cores, means no core "executes exactly its ops"
        from xdsl.ir import BlockArgument
        for f in funcs_of(mod):
            if not f.body.blocks:
                continue
            before = {(get_id(o), k) for o, k, _ in dominance_violations(find_func(orig, f.sym_name.data))}
            for o, k, v in dominance_violations(f):
                if get_id(o) is not None and (get_id(o), k) in before:
                    continue  # the input was already ill-formed there
                d = None if isinstance(v, BlockArgument) else v.owner
                dtxt = "a block argument" if d is None else f"the result of the {describe_op(d, f)}"
                what = (f"function @{f.sym_name.data}: operand {k} of the {describe_op(o, f)} uses {dtxt}, which does not dominate it in the "
                        f"output of dispatch-regions (use before / without definition)")
                escaped = (d is not None and get_id(d) is not None and cls.get(get_id(d), (False, False)) != (False, False)
                           and get_id(o) is not None)
                if escaped:
                    if not any(x.get("finding") == "DC14c" for x in res):
                        res.append({"what": "a dispatched op whose result is used after it is moved under its core guard without yielding the "
                                            f"result: the use is left without a dominating definition ({what})", "finding": "DC14c"})
                    continue
                return [{"what": what, "finding": None}]
        # no state survives from one run / one function to the next: the same input gives the same output again, and every
        # function comes out exactly as when it is dispatched in a module of its own (the other bodies removed)
        again = orig.clone()
        try:
            apply_dispatch(again, nb)
            same = snaxrun.text(again) == snaxrun.text(mod)
        except BaseException:
            same = False
        if not same:
            return [{"what": "running dispatch-regions a second time on a fresh copy of the same module gives a different result (state "
                             "survives from one run of the pass to the next)", "finding": None}]
        with_body = [f.sym_name.data for f in funcs_of(orig) if f.body.blocks]
        if len(with_body) >= 2:
            from xdsl.dialects import func as fdial0
            from xdsl.rewriter import Rewriter
            for fn in with_body:
                iso = orig.clone()
                for g in list(funcs_of(iso)):
                    if g.sym_name.data != fn and g.body.blocks:
                        Rewriter.replace_op(g, fdial0.FuncOp.external(g.sym_name.data, list(g.function_type.inputs),
                                                                      list(g.function_type.outputs)))
                try:
                    apply_dispatch(iso, nb)
                    a, b = snaxrun.text(find_func(iso, fn)), snaxrun.text(find_func(mod, fn))
                except BaseException as e:
                    a, b = f"raised {type(e).__name__}", None
                if a != b:
                    return [{"what": f"function @{fn} is dispatched differently inside the module than in a module of its own (the result for one "
                                     f"function depends on the other functions of the module)", "finding": None}]
        # the rules against the classes of the property
        for op in mod.walk():
            i = get_id(op)
            if i is None:
                continue
            want = spec_class(op)
            got = {(True, False): "dm", (False, True): "cp", (False, False): "all", (True, True): "dm+cp"}[cls[i]]
            if got != want:
                foreign = (want == "cp" and got == "all" and descriptor(op)[:3] == ["stream", "xdma", True])
                if foreign and not self.RULES_FIXED:
                    if not res:
                        res.append({"what": f"a streaming region on snax_xdma with a kernel no extension provides is an accelerator operation "
                                            f"but is claimed by neither dispatching rule: it executes on every core (op {i}, {op.name})",
                                    "finding": "DC14a"})
                else:
                    from snaxc.dialects import dart
                    what = op.name
                    if isinstance(op, dart.StreamingRegionOpBase):
                        sig = kernel_sig(op)
                        what += f" on {op.accelerator.data if op.accelerator else None}" + (f", kernel {sig[0]} {sig[1]}" if sig else "")
                    runs = {"all": "it is left unguarded and executes on EVERY core", "dm": f"it executes only on the data-mover core {nb - 1}",
                            "cp": "it executes only on compute core 0", "dm+cp": "it is guarded twice and executes on no core"}[got]
                    return [{"what": f"op {i} ({what}) is classified '{got}' by the dispatching rules, so {runs}; the property says '{want}'",
                             "finding": None}]
        from xdsl.dialects import arith
        from xdsl.dialects import func as fdial
        seeds = seeds_of(case, 3)
        bodies = [f for f in funcs_of(mod) if f.body.blocks]
        fnames = [f.sym_name.data for f in bodies]
        if sorted(f.sym_name.data for f in funcs_of(orig) if f.body.blocks) != sorted(fnames):
            return [{"what": "the pass added or removed a function with a body", "finding": None}]
        # every function with a body is an entry point: executed per core (entering the functions it calls) it must run
        # exactly the original execution filtered by the rule -- whatever its visibility
        exp = {}
        exp_own = {}
        for fn in fnames:
            vis = find_func(orig, fn).sym_visibility
            desc = f"@{fn} ({'no visibility keyword' if vis is None else vis.data})"
            for s in seeds:
                t0 = trace_of(orig, 0, s, fn)
                t0own = trace_of(orig, 0, s, fn, follow=False)
                for core in range(nb):
                    exp[(fn, core, s)] = [i for i in t0 if allowed(nb, core, cls[i])]
                    exp_own[(fn, core, s)] = [i for i in t0own if allowed(nb, core, cls[i])]
                    got = trace_of(mod, core, s, fn)
                    if got != exp[(fn, core, s)]:
                        return [{"what": f"function {desc}, nb_cores={nb}: core {core} (decisions seed {s}) executes ops {got} after "
                                         f"dispatching; the original filtered by the rules is {exp[(fn, core, s)]}", "finding": None}]
        # static form (also covers ops no sampled execution reaches): every program op sits under exactly the guards the
        # rules ask for -- `core == nb-1` iff dm, `core == 0` iff compute, always in the THEN branch of the inserted scf.if --
        # and erasing the inserted ops gives back the original function
        for f in bodies:
            bad = static_guards(f, nb, cls)
            if bad:
                return [{"what": f"function @{f.sym_name.data}, nb_cores={nb}: {bad}", "finding": None}]
            a, b = skeleton(f), skeleton(find_func(orig, f.sym_name.data))
            if a != b:
                return [{"what": f"function @{f.sym_name.data}: after erasing the inserted guards/prelude the ops are {a}, the original "
                                 f"function is {b} (an op was lost, duplicated, reordered or moved to another region)", "finding": None}]
        # the pin_to_constants annotation, per function
        any_call = False
        for f in bodies:
            fn = f.sym_name.data
            calls = [o for o in f.walk() if isinstance(o, fdial.CallOp) and get_id(o) is None]
            own = [get_id(o) for o in f.walk() if get_id(o) is not None]
            if any(cls[i][0] or cls[i][1] for i in own):
                if len(calls) != 1:
                    return [{"what": f"function @{fn} has dispatchable ops but {len(calls)} core-id calls were emitted", "finding": None}]
                pa = calls[0].attributes.get("pin_to_constants")
                pins = None if pa is None else [a.value.data for a in pa.data]
                if pins != list(range(nb)):
                    return [{"what": f"@{fn}: pin_to_constants = {pins}, expected {list(range(nb))}", "finding": None}]
                any_call = True
            elif calls:
                return [{"what": f"function @{fn} has no dispatchable op but got a core-id call", "finding": None}]
        prog_call = any(descriptor(o) == ["corecall"] for o in mod.walk())
        want_decl = 1 if (any_call or prog_call or has_decl(orig)) else 0
        if count_decl(mod) != want_decl:
            return [{"what": f"the module has {count_decl(mod)} declarations of snax_cluster_core_idx after the pass, expected {want_decl} "
                             f"(emitted call: {any_call}, call in the program: {prog_call}, declared before: {has_decl(orig)})",
                     "finding": None}]
        for f in funcs_of(mod):
            if not f.body.blocks and snaxrun.text(find_func(orig, f.sym_name.data)) != snaxrun.text(f):
                return [{"what": f"the external declaration @{f.sym_name.data} was changed", "finding": None}]
        # pinning (xDSL's pass handles single-block functions only, and trips over any multi-block function of the module)
        if any_call and all(len(f.body.blocks) == 1 for f in bodies):
            try:
                apply_pinning(mod)
                mod.verify()
            except BaseException as e:
                return [{"what": f"function-constant-pinning failed on the dispatched module: {type(e).__name__}: {str(e)[:200]}",
                         "finding": None}]
            for fn in fnames:
                for s in seeds[:2]:
                    for core in range(nb):
                        got = trace_of(mod, core, s, fn)
                        if got != exp[(fn, core, s)]:
                            return [{"what": f"after pinning, function @{fn}, nb_cores={nb}: core {core} (seed {s}) executes {got}; filtered "
                                             f"original is {exp[(fn, core, s)]}", "finding": None}]
                own = [get_id(o) for o in find_func(mod, fn).walk() if get_id(o) is not None]
                if not any(cls[i][0] or cls[i][1] for i in own):
                    continue
                seen = set()
                for o in mod.ops:
                    if isinstance(o, fdial.FuncOp) and o.sym_name.data.startswith(fn + "_pinned") and o.body.blocks:
                        first = o.body.block.first_op
                        if not isinstance(first, arith.ConstantOp):
                            return [{"what": f"{o.sym_name.data} does not start with the pinned constant", "finding": None}]
                        k = first.value.value.data
                        seen.add(k)
                        s = seeds[0]
                        # the specialisation's own ops (callees keep asking for the real core id) on a DIFFERENT core
                        got = trace_of(mod, (k + 1) % (nb + 1), s, o.sym_name.data, follow=False)
                        if 0 <= k < nb and got != exp_own[(fn, k, s)]:
                            return [{"what": f"specialisation {o.sym_name.data} (core id pinned to {k}) executes {got}; the original "
                                             f"filtered for core {k} is {exp_own[(fn, k, s)]}", "finding": None}]
                if seen != set(range(nb)):
                    return [{"what": f"pinned specialisations of @{fn} exist for {sorted(seen)}, expected every core id below {nb}",
                             "finding": None}]
        return res

    def nontrivial(self, case, impl_out):
        if "funcs" not in impl_out:
            return False
        disp = any(r[2] is True or r[3] is True for r in impl_out["rules"])
        regs = "reg" in str(impl_out["inputs"])
        return disp and (regs or any(len(i["blocks"]) >= 2 for i in impl_out["inputs"]) or len(impl_out["inputs"]) >= 2)

    def stats_key(self, case, impl_out):
        k = case.get("kind", "case")
        if "invalid_input" in impl_out:
            return f"{k}:invalid_input"
        if "raised" in impl_out:
            return f"{k}:raised:{impl_out['raised']}"
        return f"{k}:nb{case['nb']}"

    def shrink(self, case):
        if "src" in case:
            return
        if case["nb"] > 2:
            yield dict(case, nb=2)
        if "funcs" not in case:
            for v in self.shrink_blocks(case["blocks"]):
                yield dict(case, blocks=v)
            return
        funcs = case["funcs"]

        def calls(ops, name):
            return any(n[0] == "call" and n[1] == name or
                       (n[0] == "if" and (calls(n[2], name) or calls(n[3] or [], name))) or
                       (n[0] == "for" and calls(n[1], name)) or
                       (n[0] == "top" and any(calls(r, name) for r in n[1])) for n in ops)

        for i, fn in enumerate(funcs):  # drop a function nobody calls
            if len(funcs) > 1 and not any(g["blocks"] and any(calls(b["ops"], fn["name"]) for b in g["blocks"]) for g in funcs):
                yield dict(case, funcs=funcs[:i] + funcs[i + 1:])
        for i, fn in enumerate(funcs):
            if fn["blocks"] is not None:
                for v in self.shrink_blocks(fn["blocks"]):
                    yield dict(case, funcs=funcs[:i] + [dict(fn, blocks=v)] + funcs[i + 1:])

    def shrink_blocks(self, blocks):
        # drop a block (never the entry block); branches into it fall through to its successor index or return
        for bi in range(1, len(blocks)):
            nb_ = []
            for j, b in enumerate(blocks):
                if j == bi:
                    continue
                t = list(b["term"])
                for q in range(2 if t[0] == "cbr" else 1, len(t)):
                    if t[q] > bi:
                        t[q] -= 1
                    elif t[q] == bi:
                        t[q] = bi if bi < len(blocks) - 1 else 0
                if any(x == 0 for x in t[(2 if t[0] == "cbr" else 1):]):
                    t = ["ret"]
                nb_.append(dict(b, term=t))
            yield nb_

        def variants(ops):
            for i, node in enumerate(ops):
                yield ops[:i] + ops[i + 1:]
                if node[0] == "if":
                    yield ops[:i] + node[2] + (node[3] or []) + ops[i + 1:]
                    for v in variants(node[2]):
                        yield ops[:i] + [["if", node[1], v, node[3], node[4]]] + ops[i + 1:]
                    if node[3] is not None:
                        for v in variants(node[3]):
                            yield ops[:i] + [["if", node[1], node[2], v, node[4]]] + ops[i + 1:]
                elif node[0] == "for":
                    yield ops[:i] + node[1] + ops[i + 1:]
                    for v in variants(node[1]):
                        yield ops[:i] + [["for", v]] + ops[i + 1:]
                elif node[0] == "top":
                    for ri, rg in enumerate(node[1]):
                        yield ops[:i] + rg + ops[i + 1:]
                        for v in variants(rg):
                            yield ops[:i] + [["top", node[1][:ri] + [v] + node[1][ri + 1:], node[2]]] + ops[i + 1:]

        for bi, b in enumerate(blocks):
            for v in variants(b["ops"]):
                yield blocks[:bi] + [dict(b, ops=v)] + blocks[bi + 1:]


PROP = C14()
