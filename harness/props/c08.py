"""C08 — generated configuration values line up with field names.

Correspondence: for enumerated streamer configurations / gemmx geometries / kernel bodies a real
`snax_stream.streaming_region` (or, for hwpe, a `linalg.generic`) is built with the repo's own constructors,
carrying pairwise distinct marker bounds and strides; the accelerator's real `convert_to_acc_ops` is run, the
`(field, value)` list is read from `SetupOp.iter_params()`, every value is turned into the expression tree of
the `arith` ops defining it, and the list is compared with the Lean model's (`fields` and `vals` are two
separately written model functions, as in the Python).

Oracle: `meaning_of_name` below is an independent Python transcription of what each register NAME means; it
is evaluated against the real values only (never against the model).
"""
import os
import random
import re

import compat  # noqa: F401
from framework import Prop

MASK = (1 << 32) - 1
ZERO_ADDRESS = 0x1000_0040
# Repairs the tree under test is expected to contain. Committed state: all of them (F11 and F14 are in /repo; FC08a, FC08b
# and FC08c are shipped under fixes/ and must be applied). `C08_UNFIXED=FC08a,FC08c` (comma separated) tells the model that
# these are NOT applied (then the corresponding findings D80 / D83 / D82 reappear as violations: they are listed "fixed").
ALL_FIXES = ["F11", "F14", "FC08a", "FC08b", "FC08c"]
_unfixed = [x for x in os.environ.get("C08_UNFIXED", "").split(",") if x]
if os.environ.get("C08_PRISTINE", "") != "":
    _unfixed = list(ALL_FIXES)
FIXES = [f for f in ALL_FIXES if f not in _unfixed]

REG_OPTS = ["a", "c", "b", "t"]
XDMA_OPTS = ["maxpool_ext", "add_ext", "add_ext_long", "rescale_down_ext", "rescale_up_ext", "memset_ext", "t",
             "c", "bm", "b"]
CSR_LEN = {"maxpool_ext": 1, "add_ext": 1, "add_ext_long": 1, "rescale_down_ext": 4, "rescale_up_ext": 4,
           "memset_ext": 1, "t": 1}


# ------------------------------------------------------------------------------------------------
# building the real objects
# ------------------------------------------------------------------------------------------------
_DR = {}


def dr_data(r):
    """`double_round.value.data` as the installed xDSL stores it (i1 true is -1 there)"""
    if r is None:
        return None
    if "t" not in _DR:
        from xdsl.dialects.builtin import IntegerAttr
        _DR["t"] = IntegerAttr(1, 1).value.data
    return dict(r, dr=_DR["t"] if r["dr"] else 0)


def mk_opt(name):
    from snaxc.accelerators.streamers.extensions import STREAMER_OPT_MAP
    return STREAMER_OPT_MAP[name]()


def mk_cfg(cfg, xdma=False):
    from snaxc.accelerators.streamers.streamers import Streamer, StreamerConfiguration, StreamerSystemType, StreamerType
    sts = []
    for i, s in enumerate(cfg):
        ty = StreamerType.Writer if i == len(cfg) - 1 else StreamerType.Reader
        sts.append(Streamer(ty, list(s["t"]), list(s["s"]), [mk_opt(o) for o in s["o"]]))
    return StreamerConfiguration(sts, StreamerSystemType.DmaExt if xdma else StreamerSystemType.Regular)


def mk_operands(zero, src=None):
    """Pointer operands of the region -> (SSA values, ops/blocks kept alive).

    `src[i]` says where pointer i comes from: "zero" (`arith.constant 0 : index`, the zero pointer), "res" (result of
    an opaque op), "const" (`arith.constant 64 : index`: a constant op result that is NOT the zero pointer), "arg"
    (function argument) or "iter" (loop-carried block argument of an enclosing scf.for). Block arguments are not
    `OpResult`s, which is what the zero-pointer test of the generators looks at first."""
    from xdsl.dialects import arith, scf, test
    from xdsl.dialects.builtin import IndexType
    from xdsl.ir import Block, Region
    idx = IndexType()
    if src is None:
        src = ["zero" if z else "res" for z in zero]
    n_arg = sum(1 for x in src if x == "arg")
    n_iter = sum(1 for x in src if x == "iter")
    fblock = Block(arg_types=[idx] * n_arg)
    keep = [fblock]
    inner = fblock
    iter_args = []
    if n_iter:
        lb, ub, st = (arith.ConstantOp.from_int_and_width(v, idx) for v in (0, 4, 1))
        inits = [test.TestOp(result_types=[idx]) for _ in range(n_iter)]
        body = Block(arg_types=[idx] * (1 + n_iter))
        loop = scf.ForOp(lb, ub, st, [i.res[0] for i in inits], Region(body))
        fblock.add_ops([lb, ub, st, *inits, loop])
        iter_args = list(body.args[1:])
        inner = body
        keep.append(loop)
    vals, ops = [], []
    ai = ii = 0
    for x in src:
        if x == "arg":
            vals.append(fblock.args[ai])
            ai += 1
        elif x == "iter":
            vals.append(iter_args[ii])
            ii += 1
        else:
            if x == "zero":
                o = arith.ConstantOp.from_int_and_width(0, idx)
            elif x == "const":
                o = arith.ConstantOp.from_int_and_width(64, idx)
            else:
                o = test.TestOp(result_types=[idx])
            ops.append(o)
            vals.append(o.results[0])
    inner.add_ops(ops)
    return vals, (keep, ops, inner)


def mk_patterns(pats):
    from snaxc.dialects import snax_stream
    return [snax_stream.StridePattern(p["ub"], p["ts"], p["ss"]) for p in pats]


def mk_rescale(inp, out_ty, r):
    from snaxc.dialects import kernel
    return kernel.RescaleOp(inp, out_ty, r["in_zp"], r["out_zp"], r["mults"], r["shifts"], r["max"], r["min"],
                            bool(r["dr"]))


def mk_generic(inputs, arg_types, mk_body_op, res_elem):
    """dart.generic with an inner block of `arg_types`; `mk_body_op(args)` creates the kernel op."""
    from snaxc.dialects import dart
    from xdsl.ir import Block, Region
    inner = Block(arg_types=arg_types)
    k = mk_body_op(inner.args)
    inner.add_ops([k, dart.YieldOp(k)])
    return dart.GenericOp(inputs, Region(inner), result_types=[dart.StreamType(res_elem)])


def build_region(case, acc_name):
    """-> (StreamingRegionOp, operand ops, first generic | None, extra value-defining ops)"""
    from snaxc.dialects import dart, kernel, snax_stream
    from xdsl.dialects import test
    from xdsl.dialects.builtin import i8, i32, i64
    from xdsl.ir import Block, Region
    vals, opnds = mk_operands(case["op"]["zero"], case["op"].get("src"))
    nop = len(vals)
    kind = case["kind"]
    outer = Block(arg_types=[dart.StreamType(i8)] * nop)
    body_ops = []
    first_generic = None
    zps = []
    if kind == "alu":
        g = mk_generic(list(outer.args[:2]), [i64, i64, i64],
                       lambda a: kernel.AddOp(operands=[a[0], a[1]], result_types=[i64]), i64)
        body_ops = [g, dart.YieldOp(g)]
        first_generic = g
    elif kind == "gemmx":
        k = case["kernel"]
        out_elem = i8 if case["i8out"] else i32
        if k[0] == "mac":
            if k[1] is None:
                g = mk_generic(list(outer.args[:2]), [i8, i8, i32],
                               lambda a: kernel.MacOp(operands=[a[0], a[1]], result_types=[i32]),
                               out_elem if case["post"] is None and not case.get("mid", 0) else i32)
            else:
                za, zb = k[1]
                nin = case["nin"]
                zps = [test.TestOp(result_types=[i32]) for _ in range(nin - 2)]
                g = mk_generic(list(outer.args[:2]) + [z.res[0] for z in zps], [i8, i8] + [i32] * (nin - 2) + [i32],
                               lambda a: kernel.QMacOp(operands=[a[0], a[1], a[za], a[zb]], result_types=[i32]),
                               out_elem if case["post"] is None and not case.get("mid", 0) else i32)
            body_ops = [g]
            last = g
            for _ in range(case.get("mid", 0)):
                # fused bias add: (matmul result, C stream) -> i32, possibly the last generic of the region
                is_last = case["post"] is None and _ == case.get("mid", 0) - 1
                cin = outer.args[3] if nop > 3 else outer.args[0]
                ga = mk_generic([last.results[0], cin], [i32, i32, i32],
                                lambda a: kernel.AddOp(operands=[a[0], a[1]], result_types=[i32]),
                                out_elem if is_last else i32)
                body_ops.append(ga)
                last = ga
            if case["post"] is not None:
                r = case["post"]
                g2 = mk_generic([last.results[0]], [i32, out_elem], lambda a: mk_rescale(a[0], out_elem, r), out_elem)
                body_ops.append(g2)
                last = g2
            body_ops.append(dart.YieldOp(last))
            first_generic = g
        elif k[0] == "rescale":
            r = k[1]
            g = mk_generic([outer.args[0]], [i32, i8], lambda a: mk_rescale(a[0], i8, r), out_elem)
            body_ops = [g, dart.YieldOp(g)]
            first_generic = g
        else:
            g = mk_generic(list(outer.args[:2]), [i32, i32, i32],
                           lambda a: kernel.AddOp(operands=[a[0], a[1]], result_types=[i32]), out_elem)
            body_ops = [g, dart.YieldOp(g)]
            first_generic = g
    elif kind == "xdma":
        k = case["kernel"]
        if k[0] == "notgeneric":
            body_ops = [test.TestOp(result_types=[i32])]
        elif k[0] == "add":
            g = mk_generic([outer.args[0], outer.args[0]], [i32, i32, i32],
                           lambda a: kernel.AddOp(operands=[a[0], a[1]], result_types=[i32]), i32)
            body_ops = [g, dart.YieldOp(g)]
        elif k[0] == "rescale":
            _, down, in_zp, mult, out_zp, shift = k
            ity, oty = (i32, i8) if down else (i8, i32)
            r = {"in_zp": in_zp, "out_zp": out_zp, "mults": [mult], "shifts": [shift], "max": 127, "min": -128, "dr": 0}
            g = mk_generic([outer.args[0]], [ity, oty], lambda a: mk_rescale(a[0], oty, r), oty)
            body_ops = [g, dart.YieldOp(g)]
        else:
            g = mk_generic([outer.args[0], outer.args[0]], [i64, i64, i64],
                           lambda a: kernel.MulOp(operands=[a[0], a[1]], result_types=[i64]), i64)
            body_ops = [g, dart.YieldOp(g)]
    outer.add_ops(body_ops)
    op = snax_stream.StreamingRegionOp(vals[:-1], vals[-1:], mk_patterns(case["op"]["pats"]), acc_name, Region(outer))
    opnds[2].add_ops([*zps, op])        # the region sits where its pointers are visible (function or loop body)
    return op, opnds, first_generic, zps


def tree_of(v, region_op, first_generic, hw_refs=None):
    """Expression tree of the arith ops defining SSA value `v` (no folding: the shape is compared too)."""
    from xdsl.dialects import arith, memref
    from xdsl.ir import OpResult
    if region_op is not None:
        for i, o in enumerate(region_op.operands):
            if v is o:
                return ["opnd", i]
    if first_generic is not None:
        for i, o in enumerate(first_generic.inputs):
            if v is o:
                return ["inp", i]
    if not isinstance(v, OpResult):
        raise ValueError(f"value is a block argument: {v}")
    d = v.op
    if isinstance(d, arith.ConstantOp):
        return ["c", d.value.value.data]
    for cls, tag in ((arith.AndIOp, "and"), (arith.ShLIOp, "shl"), (arith.OrIOp, "or")):
        if isinstance(d, cls):
            return [tag, tree_of(d.lhs, region_op, first_generic), tree_of(d.rhs, region_op, first_generic)]
    if hw_refs is not None and isinstance(d, arith.IndexCastOp):
        s = d.input.owner
        if isinstance(s, memref.DimOp):
            idx = s.index.owner
            if isinstance(idx, arith.ConstantOp) and idx.value.value.data == 0:
                for i, r in enumerate(hw_refs):
                    if s.source is r:
                        return ["dim", i]
        if isinstance(s, arith.DivUIOp):
            dm, four = s.lhs.owner, s.rhs.owner
            if (isinstance(dm, memref.DimOp) and isinstance(four, arith.ConstantOp) and four.value.value.data == 4
                    and isinstance(dm.index.owner, arith.ConstantOp) and dm.index.owner.value.value.data == 0):
                for i, r in enumerate(hw_refs):
                    if dm.source is r:
                        return ["dimdiv4", i]
        if isinstance(s, arith.AddiOp):
            p, off = s.lhs.owner, s.rhs.owner
            if isinstance(p, memref.ExtractAlignedPointerAsIndexOp) and isinstance(off, arith.MuliOp):
                md, eb = off.lhs.owner, off.rhs.owner
                if (isinstance(md, memref.ExtractStridedMetaDataOp) and md.source is p.source
                        and off.lhs is md.offset and isinstance(eb, arith.ConstantOp)
                        and eb.value.value.data == p.source.type.element_type.size):   # bytes per element
                    for i, r in enumerate(hw_refs):
                        if p.source is r:
                            return ["ptr", i]
    raise ValueError(f"unsupported defining op {d.name}")


HWPE_SRC = """
func.func public @simple_mult(%A: memref<?xi32>, %B: memref<?xi32>, %D: memref<?xi32>) -> () {
  linalg.generic { indexing_maps = [], iterator_types = ["parallel"], library_call = "snax_hwpe_mult" }
  ins(%A, %B: memref<?xi32>, memref<?xi32>) outs(%D: memref<?xi32>) {
  ^bb0(%a: i32, %b: i32, %d: i32):
    %r0 = arith.muli %a, %b : i32
    linalg.yield %r0 : i32
  }
  func.return
}
"""


def region_verifies(acc, op, opnds):
    """Run the real `StreamingRegionOp.verify_` (the module verifier runs it between all passes): the region is put
    in a function next to the accelerator's own `accfg.accelerator` op (which carries the streamer configuration)."""
    from xdsl.dialects import builtin, func
    from xdsl.ir import Region
    from xdsl.utils.exceptions import VerifyException
    fblock = opnds[0][0]
    f = func.FuncOp("region_under_test", ([a.type for a in fblock.args], []), Region(fblock))
    mod = builtin.ModuleOp([acc.generate_acc_op(), f])
    opnds[0].append(mod)
    try:
        op.verify_()
        for pat in op.stride_patterns.data:
            pat.verify()
        return True
    except VerifyException:
        return False


def launch_of(ops):
    """[(launch field, constant written)] of the accfg.launch"""
    from snaxc.dialects import accfg
    from xdsl.dialects import arith
    launch = next(o for o in ops if isinstance(o, accfg.LaunchOp))
    res = []
    for name, v in launch.iter_params():
        d = v.owner
        if not isinstance(d, arith.ConstantOp):
            raise ValueError("launch value is not a constant")
        res.append([name, d.value.value.data])
    return res


def launch_attrs_of(ops):
    """the attributes gemmx attaches to the launch for channel-wise requantisation"""
    from snaxc.dialects import accfg
    from xdsl.dialects.builtin import DenseArrayBase, IntegerAttr
    launch = next(o for o in ops if isinstance(o, accfg.LaunchOp))
    res = {}
    for k, a in launch.attributes.items():
        if isinstance(a, DenseArrayBase):
            res[k] = [int(x) for x in a.get_values()]
        elif isinstance(a, IntegerAttr):
            res[k] = [a.value.data]
        else:
            raise ValueError(f"unexpected launch attribute {k}")
    return res


def _c20():
    import importlib
    try:
        return importlib.import_module("props.c20")
    except ImportError:
        return importlib.import_module("c20")


def phs_element(case, keep):
    """the accelerator's processing element: the real encoder on every kernel of the history, merged with the real
    `append_to_abstract_graph` -> (abstract PEOp, [concrete PEOp per kernel]) or None if the history is not mergeable"""
    from snaxc.phs.combine import append_to_abstract_graph
    c20 = _c20()
    try:
        ks = []
        for b in case["bodies"]:
            pe, owner = c20.real_encode(b, "acc1")
            keep.append(owner)
            pe.verify()
            ks.append(pe)
        abst, owner = c20.real_encode(case["bodies"][0], "acc1")
        keep.append(owner)
        for k in ks[1:]:
            append_to_abstract_graph(k, abst)
        abst.verify()
    except Exception:  # noqa: BLE001  (outside C08: the history is C20's business)
        return None
    return abst


def run_real_phs(case, sess=None):
    from snaxc.accelerators.snax_phs import SNAXPHSAccelerator
    from snaxc.dialects import accfg, snax_stream
    from snaxc.phs.decode import MappingNotFoundError, decode_abstract_graph
    from snaxc.phs.template_spec import TemplateSpec
    from xdsl.ir import Block, Region
    from xdsl.ir.affine import AffineMap
    c20 = _c20()
    if not all(c20.well_typed(b) for b in case["bodies"] + [case["kernel"]]):
        return {"invalid_input": True}
    if sess is None:
        sess = {}
    keep = sess.setdefault("keep", [])
    if sess.get("acc") is not None:
        acc, abst = sess["acc"], sess["abst"]
    else:
        abst = phs_element(case, keep)
        if abst is None:
            return {"invalid_input": True}
        t = case["tmpl"]
        ident = AffineMap.identity(len(t["bounds"]))
        acc = SNAXPHSAccelerator(abst, TemplateSpec(tuple([ident] * t["nin"]), (ident,), tuple(t["bounds"])))
        sess["acc"], sess["abst"] = acc, abst
    real_cfg = [{"t": [str(f.value) for f in st.temporal_dims], "s": list(st.spatial_dims), "o": []}
                for st in acc.streamer_config.data.streamers]
    if real_cfg != case["cfg"]:
        raise RuntimeError(f"harness: template configuration {real_cfg} differs from the case's {case['cfg']}")
    out = {"fields": list(acc.fields), "true": abst.get_true_switches(), "wf": True}
    vals, opnds = mk_operands(case["op"]["zero"], case["op"].get("src"))
    mod, gen = c20.build_generic(case["kernel"])
    keep.append(mod)
    gen.detach()
    outer = Block(arg_types=[])
    outer.add_op(gen)
    op = snax_stream.StreamingRegionOp(vals[:-1], vals[-1:], mk_patterns(case["op"]["pats"]), acc.name, Region(outer))
    opnds[2].add_op(op)
    out["accepts"] = region_verifies(acc, op, opnds)
    try:
        ops = acc.convert_to_acc_ops(op)
    except (IndexError, AssertionError, ValueError, ZeroDivisionError, NotImplementedError, MappingNotFoundError) as e:
        out["raised"] = type(e).__name__
        return out
    setup = next(o for o in ops if isinstance(o, accfg.SetupOp))
    out["vals"] = [tree_of(v, op, None) for v in setup.values]
    out["names"] = [p.data for p in setup.param_names]
    out["launch"] = launch_of(ops)
    # for the oracle only (not compared with the model): a fresh decode of a fresh encoding of the kernel
    k2, owner = c20.real_encode(case["kernel"], "acc1")
    keep.append(owner)
    out["_decoded"] = [int(x) for x in decode_abstract_graph(abst, k2)]
    return out


ALU_LINALG_SRC = """
func.func public @streamer_add(%A: memref<?xi64>, %B: memref<?xi64>, %D: memref<?xi64>) -> () {
  linalg.generic { indexing_maps = [], iterator_types = ["parallel"], library_call = "snax_alu" }
  ins(%A, %B: memref<?xi64>, memref<?xi64>) outs(%D: memref<?xi64>) {
  ^bb0(%a: i64, %b: i64, %d: i64):
    %r0 = arith.addi %a, %b : i64
    linalg.yield %r0 : i64
  }
  func.return
}
"""


def run_real_pass(case):
    """Several operations of one MODULE lowered by the real pass `convert-linalg-to-accfg` (ConvertSnaxStreamToAccelerator
    + ConnectStatesThroughControlFlow): every region in its own function (pointer sources decide whether it sits in an
    scf.for), regions without block-argument pointers appended to the first function ("several regions in one function").
    The accelerators are registered in an AccContext the way snaxc's config flow does (`lambda: instance`, case["objects"]
    == "pass-instance") or the way snax-opt does (a factory building a fresh object per lookup, "pass-factory").
    -> {"steps": [per-operation output, same shape as run_real]} | {"pass_raised": cls}"""
    from types import SimpleNamespace
    from snaxc.accelerators import AccContext
    from snaxc.dialects import accfg
    from snaxc.transforms.convert_linalg_to_accfg import ConvertLinalgToAccPass
    from xdsl.dialects import builtin, func, scf
    from xdsl.ir import Region

    def make(st):
        k = st["kind"]
        if k == "alu":
            from snaxc.accelerators.snax_alu import SNAXAluAccelerator
            return SNAXAluAccelerator(mk_cfg(st["cfg"]))
        if k == "gemmx":
            from snaxc.accelerators.snax_gemmx import SNAXGEMMXAccelerator
            return SNAXGEMMXAccelerator(mk_cfg(st["cfg"]), st["m"], st["n"], st["k"])
        if k == "xdma":
            from snaxc.accelerators.snax_xdma import SNAXXDMAAccelerator
            return SNAXXDMAAccelerator(mk_cfg(st["cfg"], xdma=True))
        raise ValueError(k)

    steps = case["steps"]
    first_of_kind = {}
    for st in steps:
        first_of_kind.setdefault(st["kind"], st)
    ctx = AccContext(allow_unregistered=True)
    insts = {}
    for k, st in first_of_kind.items():
        inst = make(st)
        insts[k] = inst
        if case["objects"] == "pass-instance":
            ctx.register_accelerator(inst.name, lambda inst=inst: inst)
        else:
            ctx.register_accelerator(inst.name, lambda st=st: make(st))
    funcs, info = [], []
    shared_block = None
    for i, st in enumerate(steps):
        acc = insts[st["kind"]]
        op, opnds, first_generic, zps = build_region(st, acc.name)
        keep, ops, inner = opnds
        fblock = keep[0]
        rec = SimpleNamespace(operands=list(op.operands), inputs=list(first_generic.inputs) if first_generic is not None else [],
                              op=op, acc=acc, keep=keep)
        info.append(rec)
        if len(keep) > 1:                                   # the region sits in an scf.for: close its body
            inner.add_op(scf.YieldOp(*inner.args[1:]))
        movable = not fblock.args and len(keep) == 1
        if shared_block is not None and movable and st.get("share", True):
            for o in list(fblock.ops):
                o.detach()
                shared_block.add_op(o)
            rec.func = shared_idx
            continue
        if shared_block is None and movable:
            shared_block, shared_idx = fblock, len(funcs)
        rec.func = len(funcs)
        funcs.append(fblock)
    fops = []
    for j, b in enumerate(funcs):
        fops.append(func.FuncOp(f"f{j}", ([a.type for a in b.args], []), Region(b)))
    for b in funcs:
        b.add_op(func.ReturnOp())
    mod = builtin.ModuleOp([*(a.generate_acc_op() for a in insts.values()), *fops])
    for rec in info:
        rec.accepts = _verifies(rec.op)
    try:
        ConvertLinalgToAccPass().apply(ctx, mod)
    except (IndexError, AssertionError, ValueError, ZeroDivisionError, NotImplementedError) as e:
        return {"pass_raised": type(e).__name__}
    # the i-th non-empty setup of a function belongs to the i-th region placed in it
    per_func = {}
    for f in fops:
        setups = [o for o in f.walk() if isinstance(o, accfg.SetupOp) and len(o.param_names.data)]
        launches = [o for o in f.walk() if isinstance(o, accfg.LaunchOp)]
        per_func[fops.index(f)] = (setups, launches)
    # regions of the shared function were appended in step order; others are alone in their function
    cursor = {}
    outs = []
    for st, rec in zip(steps, info):
        setups, launches = per_func[rec.func]
        c = cursor.get(rec.func, 0)
        cursor[rec.func] = c + 1
        out = {"fields": list(rec.acc.fields), "accepts": rec.accepts}
        if c >= len(setups) or c >= len(launches):
            out["raised"] = "MissingSetup"
            outs.append(out)
            continue
        setup, launch = setups[c], launches[c]
        out["vals"] = [tree_of(v, rec, rec) for v in setup.values]
        out["names"] = [p.data for p in setup.param_names]
        out["launch"] = launch_of([launch])
        if st["kind"] == "gemmx":
            out["launch_attrs"] = launch_attrs_of([launch])
        outs.append(out)
    return {"steps": outs}


def _verifies(op):
    from xdsl.utils.exceptions import VerifyException
    try:
        op.verify_()
        for pat in op.stride_patterns.data:
            pat.verify()
        return True
    except VerifyException:
        return False


def run_real_foreign():
    """unreached branches of the anchored functions: `convert_to_acc_ops` on an op the accelerator does not lower returns
    no ops; `StreamingRegionOp.verify_` rejects a region whose accelerator op is not in the module"""
    from snaxc.accelerators.snax_alu import SNAXAluAccelerator
    from snaxc.accelerators.snax_gemmx import SNAXGEMMXAccelerator
    from snaxc.accelerators.snax_hwpe_mult import SNAXHWPEMultAccelerator
    from snaxc.accelerators.snax_xdma import SNAXXDMAAccelerator
    from xdsl.dialects import arith, builtin, func
    from xdsl.ir import Region
    from xdsl.utils.exceptions import VerifyException
    other = arith.ConstantOp.from_int_and_width(1, 32)
    accs = {"alu": SNAXAluAccelerator(), "gemmx": SNAXGEMMXAccelerator(), "xdma": SNAXXDMAAccelerator(),
            "hwpe": SNAXHWPEMultAccelerator()}
    out = {"foreign": {k: len(list(a.convert_to_acc_ops(other))) for k, a in accs.items()}}
    case = {"kind": "alu", "cfg": [dict(x) for x in ALU_DEFAULT],
            "op": {"pats": [{"ub": [4], "ts": [32], "ss": [8]}] * 3, "zero": [False] * 3}}
    op, opnds, _, _ = build_region(case, "snax_alu")
    fblock = opnds[0][0]
    mod = builtin.ModuleOp([func.FuncOp("f", ([], []), Region(fblock))])      # no accfg.accelerator op
    opnds[0].append(mod)
    try:
        op.verify_()
        out["rejected_without_accelerator_op"] = False
    except VerifyException:
        out["rejected_without_accelerator_op"] = True
    return out


def run_real(case, sess=None):
    """-> {"fields": [...], "vals": [...]} | {"fields": [...], "raised": cls}

    `sess` (a dict) keeps the accelerator OBJECT between calls: snaxc's config flow registers `lambda: accelerator_instance`,
    so one object lowers every operation of a program; snax-opt builds a fresh object per lookup (sess=None)."""
    from snaxc.dialects import accfg
    kind = case["kind"]
    if kind == "foreign":
        return run_real_foreign()
    if sess is None:
        sess = {}
    if kind == "alu_linalg":
        # legacy path: linalg.generic handed to the ALU directly (what convert-linalg-to-accfg does for library_call)
        import snaxrun
        from snaxc.accelerators.snax_alu import SNAXAluAccelerator
        from xdsl.dialects import linalg
        mod = snaxrun.parse(ALU_LINALG_SRC)
        g = next(o for o in mod.walk() if isinstance(o, linalg.GenericOp))
        acc = sess.setdefault("acc", None) or SNAXAluAccelerator(mk_cfg(case["cfg"]))
        sess["acc"] = acc
        ops = acc.convert_to_acc_ops(g)
        setup = next(o for o in ops if isinstance(o, accfg.SetupOp))
        refs = list(g.operands)
        return {"fields": list(acc.fields), "vals": [tree_of(v, None, None, refs) for v in setup.values],
                "names": [p.data for p in setup.param_names], "launch": launch_of(ops)}
    if kind == "hwpe":
        import snaxrun
        from snaxc.accelerators.snax_hwpe_mult import SNAXHWPEMultAccelerator
        from xdsl.dialects import linalg
        mod = snaxrun.parse(HWPE_SRC)
        g = next(o for o in mod.walk() if isinstance(o, linalg.GenericOp))
        acc = sess.setdefault("acc", None) or SNAXHWPEMultAccelerator()
        sess["acc"] = acc
        ops = acc.convert_to_acc_ops(g)
        setup = next(o for o in ops if isinstance(o, accfg.SetupOp))
        refs = list(g.operands)
        return {"fields": list(acc.fields),
                "vals": [tree_of(v, None, None, refs) for v in setup.values],
                "names": [n for n, _ in setup.iter_params()], "launch": launch_of(ops)}
    if kind == "phs":
        return run_real_phs(case, sess)
    if sess.get("acc") is not None:
        acc = sess["acc"]
    elif kind == "alu":
        from snaxc.accelerators.snax_alu import SNAXAluAccelerator
        acc = SNAXAluAccelerator(mk_cfg(case["cfg"]))
    elif kind == "gemmx":
        from snaxc.accelerators.snax_gemmx import SNAXGEMMXAccelerator
        acc = SNAXGEMMXAccelerator(mk_cfg(case["cfg"]), case["m"], case["n"], case["k"])
    elif kind == "xdma":
        from snaxc.accelerators.snax_xdma import SNAXXDMAAccelerator
        acc = SNAXXDMAAccelerator(mk_cfg(case["cfg"], xdma=True))
    else:
        raise ValueError(kind)
    sess["acc"] = acc
    out = {"fields": list(acc.fields)}
    from xdsl.utils.exceptions import VerifyException
    try:
        op, opnds, first_generic, zps = build_region(case, acc.name)
    except VerifyException:
        # `StridePattern.verify`: number of upper bounds != number of temporal strides — the attribute cannot be built
        return {"raised": "VerifyException"}
    out["accepts"] = region_verifies(acc, op, opnds)
    try:
        ops = acc.convert_to_acc_ops(op)
    except (IndexError, AssertionError, ValueError, ZeroDivisionError, NotImplementedError) as e:
        out["raised"] = type(e).__name__
        return out
    setup = next(o for o in ops if isinstance(o, accfg.SetupOp))
    out["vals"] = [tree_of(v, op, first_generic) for v in setup.values]
    # the names the values are zipped with must be the accelerator's field tuple
    out["names"] = [n for n, _ in zip((p.data for p in setup.param_names), range(10 ** 6))]
    out["launch"] = launch_of(ops)
    if kind == "gemmx":
        out["launch_attrs"] = launch_attrs_of(ops)
    return out


# ------------------------------------------------------------------------------------------------
# independent transcription of what each register name means (oracle only)
# ------------------------------------------------------------------------------------------------
ENV = {"opnd": lambda i: 0x2000_0000 + 0x1000 * i + 8, "inp": lambda i: 0x155 + 37 * i,
       "ptr": lambda i: 0x3000_0000 + 0x100 * i, "dim": lambda i: 77 + i, "dimdiv4": lambda i: 19 + i}


def ev(t):
    tag = t[0]
    if tag == "c":
        return t[1] & MASK
    if tag in ENV:
        return ENV[tag](t[1]) & MASK
    a, b = ev(t[1]), ev(t[2])
    if tag == "and":
        return a & b
    if tag == "or":
        return a | b
    if tag == "shl":
        return (a << b) & MASK if b < 32 else 0
    raise ValueError(tag)


def sgn(x):
    return x - (1 << 32) if x >> 31 else x


def stream(dims, limit=4096):
    """first `limit` addresses of a loop nest, entry 0 = innermost loop"""
    import itertools
    if any(b <= 0 for b, _ in dims):
        return []
    rng_out = [range(b) for b, _ in reversed(dims)]
    strides = [t for _, t in reversed(dims)]
    return [sum(i * t for i, t in zip(idx, strides)) for idx in itertools.islice(itertools.product(*rng_out), limit)]


def same_stream(a, b):
    na = prod(max(x, 0) for x, _ in a)
    nb = prod(max(x, 0) for x, _ in b)
    return na == nb and stream(a) == stream(b)


def prod(xs):
    r = 1
    for x in xs:
        r *= x
    return r


def eff(l, n):
    return list(l) * n if len(l) == 1 else list(l)


STREAM_RE = re.compile(r"^([a-z])_(ptr_low|ptr_high|sstride|bound|tstride|address_remap|channel_mask|transpose|"
                       r"broadcast|enabled_chan|enabled_byte|bypass|[a-z_]+_ext(?:_long)?|t)(?:_(\d+))?$")


def meaning_of_name(case, name):
    """Expected 32-bit word of register `name` for this case, or None if the name means nothing here."""
    kind = case["kind"]
    if kind == "hwpe":
        return {"A": ENV["ptr"](0), "B": ENV["ptr"](1), "O": ENV["ptr"](2), "vector_length": ENV["dim"](0),
                "nr_iters": 1, "mode": 1}.get(name)
    if kind == "alu_linalg":
        # elementwise op over 1-d i64 memrefs on 4 lanes: 8 bytes between lanes, dim/4 steps of 32 bytes
        m = re.match(r"^([abc])_(ptr_low|ptr_high|sstride_0|bound_0|tstride_0)$", name)
        if m:
            s_ = ord(m.group(1)) - 97
            return {"ptr_low": ENV["ptr"](s_), "ptr_high": 0, "sstride_0": 8, "bound_0": ENV["dimdiv4"](0),
                    "tstride_0": 32}[m.group(2)]
        return {"alu_mode": 0, "loop_bound_alu": ENV["dimdiv4"](0)}.get(name)
    cfg, op = case["cfg"], case["op"]
    pats = op["pats"]
    if kind == "phs":
        m = re.match(r"^phs_switch_(\d+)$", name)
        if m:
            dec = case.get("_decoded") or []
            i = int(m.group(1))
            return dec[i] & MASK if i < len(dec) else None     # the i-th value the decoder chose for this kernel
    if kind in ("alu", "phs"):
        if name == "alu_mode" and kind == "alu":
            return 0
        if name == "loop_bound_alu":
            # the number of steps of the streams
            return prod(pats[0]["ub"]) & MASK
    if kind == "gemmx":
        n = case["n"]
        k = case["kernel"]
        i8 = case["i8out"]
        steps_a = prod(pats[0]["ub"])
        if k[0] == "mac":
            outp = pats[2] if i8 else pats[-1]
            M = prod(b for b, s in zip(outp["ub"], outp["ts"]) if s != 0)
            K = steps_a // M
            r = None
            if i8:
                r = case["post"] or {"in_zp": 0, "out_zp": 0, "max": 127, "min": -128, "dr": 0, "shifts": [9],
                                     "mults": [1]}
            zpa, zpb = (0, 0) if k[1] is None else (ENV["inp"](k[1][0]), ENV["inp"](k[1][1]))
            sub = (zpa & 255) | ((zpb & 255) << 8)
            tlb = M if i8 else 0
            byp = 0 if i8 else 1
        else:
            r = k[1]
            K, M = 1, steps_a
            sub, tlb, byp = 0, steps_a, 0
        simple = {"K": K, "N": 1, "M": M, "subtractions": sub, "temporal_loop_bound": tlb, "bypassSIMD": byp}
        if name in simple:
            return simple[name] & MASK
        if name == "csr0":
            if r is None:
                return 0
            return ((r["min"] & 255) << 24) | ((r["max"] & 255) << 16) | ((r["out_zp"] & 255) << 8) | (r["in_zp"] & 255)
        if name == "csr1":
            # double_round flag; an i1 `true` reads back as -1 under the installed xDSL, so only bit 0 is judged
            return ("bit0", 0 if r is None else r["dr"] & 1)
        m = re.match(r"^(shift|mult)_(\d+)$", name)
        if m:
            i = int(m.group(2))
            if m.group(1) == "mult":
                if i >= n:
                    return None
                if r is None:
                    return 1
                return eff(r["mults"], n)[i] & MASK      # IndexError -> not enough channels: reported by caller
            if i >= (n + 3) // 4:
                return None
            if r is None:
                return 0
            sh = eff(r["shifts"], n)
            w = mask = 0
            for j in range(4):                               # channel 4i+j in byte j; bytes of channels >= n: don't care
                if 4 * i + j < n:
                    w |= (sh[4 * i + j] << (8 * j)) & MASK
                    mask |= 255 << (8 * j)
            return ("mask", w, mask)
    m = STREAM_RE.match(name)
    if not m:
        return None
    s = ord(m.group(1)) - 97
    what = m.group(2)
    idx = None if m.group(3) is None else int(m.group(3))
    if s >= len(cfg):
        return None
    st, p, z = cfg[s], pats[s], op["zero"][s]
    if what == "ptr_low":
        return ZERO_ADDRESS if z else ENV["opnd"](s)
    if what == "ptr_high":
        return 0
    if what == "sstride":
        return p["ss"][idx] & MASK if idx < len(st["s"]) else None
    if what in ("bound", "tstride"):
        if idx >= len(st["t"]):
            return None
        b = p["ub"][idx] if idx < len(p["ub"]) else 1          # padded to the hardware dimensionality
        t = p["ts"][idx] if idx < len(p["ts"]) else 0
        if what == "tstride":
            return t & MASK
        if st["t"][idx] == "r" and t == 0 and b > 1:            # internally reused dimension collapsed
            return 1
        return b & MASK
    if what in ("address_remap", "transpose"):
        return 0
    if what in ("channel_mask", "enabled_chan", "enabled_byte"):
        return 0 if z else MASK
    if what == "broadcast":
        return 1 if any(x == 0 for x in p["ss"][:len(st["s"])]) else 0
    exts = [o for o in st["o"] if o in CSR_LEN]
    kern = case.get("kernel", ["other"])

    def matches(e):
        return ((e == "add_ext" and kern[0] == "add") or (e == "rescale_down_ext" and kern[0] == "rescale" and kern[1])
                or (e == "rescale_up_ext" and kern[0] == "rescale" and not kern[1]))
    if what == "bypass":
        return sum(1 << i for i, e in enumerate(exts) if matches(e))
    if what in CSR_LEN and kind == "xdma":
        if idx is None or idx >= CSR_LEN[what] or what not in exts:
            return None
        if matches(what):
            return ([2] if what == "add_ext" else [kern[2], kern[3], kern[4], kern[5]])[idx] & MASK
        return 0
    return None


# ------------------------------------------------------------------------------------------------
# generators
# ------------------------------------------------------------------------------------------------
class Markers:
    """pairwise distinct strides (multiples of 8) per case; bounds distinct within a pattern"""

    def __init__(self, rng):
        self.rng = rng
        self.next = 8 * rng.randint(1, 5)

    def stride(self):
        self.next += 8 * self.rng.randint(1, 3)
        return self.next


def gen_streamer(rng, pool, max_t=6):
    t = [rng.choice("nnnnir") for _ in range(rng.randint(1, max_t))]
    s = [rng.choice([2, 4, 8]) for _ in range(rng.choice([1, 1, 2]))]
    o = [x for x in pool if rng.random() < 0.45]
    rng.shuffle(o)
    if rng.random() < 0.05 and o:
        o.append(o[0])       # duplicated option
    return {"t": t, "s": s, "o": o}


def gen_pattern(rng, mk, st, tier_malformed=False):
    td = len(st["t"])
    r = rng.random()
    nt = td if r < 0.5 else rng.randint(0, td)
    if tier_malformed and rng.random() < 0.3:
        nt = td + 1                                   # rejected by the region verifier, not by the converter
    bpool = [2, 3, 4, 5, 6, 7, 9, 10, 11, 12, 13]
    rng.shuffle(bpool)
    ub, ts = [], []
    for d in range(nt):
        f = st["t"][d] if d < td else "n"
        b = bpool[d % len(bpool)] if rng.random() > 0.12 else rng.choice([1, 1, 0])
        if f == "i":
            t = 0 if (not tier_malformed or rng.random() < 0.7) else mk.stride()
        elif f == "r":
            t = 0 if rng.random() < 0.6 else mk.stride()
        else:
            t = mk.stride() if rng.random() > 0.1 else 0
        ub.append(b)
        ts.append(t)
    sd = len(st["s"])
    ns = sd
    if tier_malformed and rng.random() < 0.3:
        ns = rng.randint(0, sd)
    elif rng.random() < 0.1:
        ns = sd + 1
    ss = [mk.stride() if rng.random() > 0.2 else 0 for _ in range(ns)]
    return {"ub": ub, "ts": ts, "ss": ss}


def gen_streamop(rng, cfg, malformed=False):
    mk = Markers(rng)
    pats = [gen_pattern(rng, mk, st, malformed) for st in cfg]
    # pointer sources: zero constants in any position, op results, non-zero constants, function arguments and
    # loop-carried values (block arguments)
    src = [rng.choices(["zero", "res", "arg", "iter", "const"], [22, 30, 25, 15, 8])[0] for _ in cfg]
    zero = [x == "zero" for x in src]
    if malformed and rng.random() < 0.15 and len(pats) > 1:
        pats = pats[:-1]
    return {"pats": pats, "zero": zero, "src": src}


def gen_rescale(rng, n, short_ok=False):
    def arr(lo, hi):
        c = rng.random()
        if c < 0.35:
            return [rng.randint(lo, hi)]
        ln = n if c < 0.7 else n * rng.randint(2, 3)
        if short_ok and rng.random() < 0.5:
            ln = rng.choice([2, 4, 6, 12])
        return [rng.randint(lo, hi) for _ in range(ln)]
    return {"in_zp": rng.randint(-128, 127), "out_zp": rng.randint(-128, 127), "max": rng.choice([127, 100, 63]),
            "min": rng.choice([-128, -100, 0]), "dr": rng.randint(0, 1),
            "shifts": arr(1, 60), "mults": arr(1, 2 ** 30)}


GEMMX_DEFAULT = [
    {"t": list("nnnnnn"), "s": [8], "o": ["t", "a"]}, {"t": list("nnn"), "s": [8], "o": ["t", "a"]},
    {"t": list("rnn"), "s": [8], "o": ["a"]}, {"t": list("rnn"), "s": [8, 4], "o": ["c", "a", "b"]},
    {"t": list("rnn"), "s": [8, 4], "o": ["a"]}]
XDMA_DEFAULT = [
    {"t": list("nnnnn"), "s": [8], "o": ["maxpool_ext", "add_ext", "add_ext_long", "rescale_down_ext",
                                            "rescale_up_ext", "c"]},
    {"t": list("nnnnn"), "s": [8], "o": ["memset_ext", "t", "c", "bm"]}]
ALU_DEFAULT = [{"t": ["n"], "s": [4], "o": []}] * 3


def gen_alu(rng, malformed=False, cfg=None):
    if cfg is None:
        cfg = ALU_DEFAULT if rng.random() < 0.1 else [gen_streamer(rng, REG_OPTS) for _ in range(rng.randint(1, 4))]
    cfg = [dict(s) for s in cfg]
    return {"kind": "alu", "cfg": cfg, "op": gen_streamop(rng, cfg, malformed)}


def gen_gemmx(rng, malformed=False, short=False, cfg=None, n=None):
    if cfg is not None:
        cfg = [dict(s) for s in cfg]
    elif rng.random() < 0.3:
        cfg = [dict(s) for s in GEMMX_DEFAULT]
    else:
        cfg = [gen_streamer(rng, REG_OPTS) for _ in range(rng.randint(3, 6))]
    if n is None:
        n = rng.choice([4, 8, 8, 8, 12, 16]) if not malformed else rng.choice([1, 2, 3, 5, 6, 8])
    op = gen_streamop(rng, cfg, malformed)
    r = rng.random()
    i8 = rng.random() < 0.5
    post = None
    if r < 0.7:
        zp = None
        nin = 2
        if rng.random() < 0.6:
            nin = rng.choice([4, 4, 5])
            zp = [rng.randint(2, nin - 1), rng.randint(2, nin - 1)]
        kernel = ["mac", zp]
        # region shapes: (q)mac | (q)mac->rescale | (q)mac->add | (q)mac->add->rescale, i8 and i32 outputs
        mid = 1 if rng.random() < 0.4 else 0
        if i8 and rng.random() < 0.7:
            post = gen_rescale(rng, n, short_ok=short)
        # make the streams of one operation consistent: the output pattern walks a sub-nest of A's loops
        if not malformed or rng.random() < 0.5:
            oi = 2 if i8 else len(cfg) - 1
            if oi < len(op["pats"]) and op["pats"]:
                a = op["pats"][0]
                td = len(cfg[oi]["t"])
                mk = Markers(rng)
                mk.next = 4096
                ub, ts = [], []
                for b in a["ub"]:
                    if len(ub) >= td or b == 0:
                        break
                    c = rng.random()
                    if c < 0.5:
                        ub.append(b)
                        ts.append(mk.stride())
                    elif c < 0.75:
                        ub.append(b)
                        ts.append(0)
                op["pats"][oi] = {"ub": ub, "ts": ts, "ss": op["pats"][oi]["ss"]}
        case = {"kind": "gemmx", "cfg": cfg, "n": n, "m": rng.choice([4, 8]), "k": rng.choice([4, 8]), "op": op,
                "kernel": kernel, "i8out": i8, "post": post, "nin": nin, "mid": mid}
        return case
    if r < 0.93:
        rs = gen_rescale(rng, n)
        # the rescale-only path programs ONE shift / multiplier (element 0) for all channels: per-tensor only
        rs["shifts"] = rs["shifts"][:1] * rng.choice([1, n])
        rs["mults"] = rs["mults"][:1] * rng.choice([1, n])
        return {"kind": "gemmx", "cfg": cfg, "n": n, "m": 8, "k": 8, "op": op, "kernel": ["rescale", rs],
                "i8out": True, "post": None, "nin": 1}
    return {"kind": "gemmx", "cfg": cfg, "n": n, "m": 8, "k": 8, "op": op, "kernel": ["other"], "i8out": i8,
            "post": None, "nin": 2}


def gen_xdma(rng, malformed=False, notgeneric=False, cfg=None):
    if cfg is not None:
        cfg = [dict(s) for s in cfg]
    elif rng.random() < 0.2:
        cfg = [dict(s) for s in XDMA_DEFAULT]
    else:
        cfg = [gen_streamer(rng, XDMA_OPTS) for _ in range(2 if rng.random() < 0.8 else rng.randint(1, 3))]
    op = gen_streamop(rng, cfg, malformed)
    r = rng.random()
    if notgeneric:
        kernel = ["notgeneric"]
    elif r < 0.3:
        kernel = ["add"]
    elif r < 0.75:
        kernel = ["rescale", rng.random() < 0.5, rng.randint(-100, 100), rng.randint(1, 2 ** 20), rng.randint(-100, 100),
                  rng.randint(1, 40)]
    else:
        kernel = ["other"]
    return {"kind": "xdma", "cfg": cfg, "op": op, "kernel": kernel}


def pointer_sources(rng):
    """zero pointers in every position (first, middle, last) x where the other pointers come from (op result, function
    argument, loop-carried value), for the regular streamer (alu with channel masks, gemmx default) and xDMA"""
    import itertools
    srcs = ("zero", "res", "arg", "iter")
    for combo in itertools.product(srcs, repeat=3):
        cfg = [{"t": ["n"], "s": [4], "o": ["c"]}, {"t": ["n"], "s": [4], "o": ["a", "c"]}, {"t": ["n"], "s": [4], "o": ["c", "b"]}]
        op = gen_streamop(rng, cfg)
        op["src"], op["zero"] = list(combo), [x == "zero" for x in combo]
        yield {"kind": "alu", "cfg": cfg, "op": op}
    for combo in itertools.product(srcs, repeat=2):
        cfg = [dict(s) for s in XDMA_DEFAULT]
        op = gen_streamop(rng, cfg)
        op["src"], op["zero"] = list(combo), [x == "zero" for x in combo]
        yield {"kind": "xdma", "cfg": cfg, "op": op, "kernel": ["add"]}
    for combo in (("res", "res", "res", "zero", "arg"), ("arg", "arg", "arg", "zero", "arg"), ("zero", "iter", "res", "zero", "iter"),
                  ("zero", "zero", "arg", "arg", "iter"), ("iter", "zero", "arg", "zero", "arg")):
        cfg = [dict(s) for s in GEMMX_DEFAULT]
        op = gen_streamop(rng, cfg)
        op["src"], op["zero"] = list(combo), [x == "zero" for x in combo]
        op["pats"][4] = {"ub": op["pats"][0]["ub"][:2], "ts": [4104, 0][:len(op["pats"][0]["ub"][:2])], "ss": op["pats"][4]["ss"]}
        yield {"kind": "gemmx", "cfg": cfg, "n": 8, "m": 8, "k": 8, "op": op, "kernel": ["mac", None], "i8out": False,
               "post": None, "nin": 2, "mid": 0}


def canon_len(ub, ts, ss):
    """number of loops of the canonical form (generator-side re-implementation, used only to label cases)"""
    if 0 in ss:
        return len(ub)
    nb, nt = [], []
    for b, t in zip(ub, ts):
        if b == 0:
            nb.append(0)
            nt.append(0)
        elif b == 1:
            continue
        elif nb and nb[-1] * nt[-1] == t:
            nb[-1] *= b
        else:
            nb.append(b)
            nt.append(t)
    return len(nb)


def decanonicalise(rng, st, fits=True):
    """a hand-written, non-canonical pattern for streamer `st`: a canonical loop nest that fits (or is one loop too long)
    into which unit loops (leading / middle / trailing) are inserted and whose loops are split into contiguous pairs"""
    td = len(st["t"])
    k = rng.randint(1, td) if fits else td + 1
    ub, ts = [], []
    t = 8 * rng.randint(1, 4)
    for _ in range(k):
        b = rng.choice([2, 3, 4, 6, 8, 9, 12, 16])
        ub.append(b)
        ts.append(t)
        t = b * t + 8 * rng.randint(1, 3)          # never contiguous with the previous loop
    for _ in range(rng.randint(1, 3)):
        if rng.random() < 0.5:
            pos = rng.choice([0, len(ub), rng.randint(0, len(ub))])
            ub.insert(pos, 1)
            ts.insert(pos, rng.choice([0, 0, 8 * rng.randint(1, 50)]))
        else:
            i = rng.randrange(len(ub))
            fac = [f for f in (2, 3, 4) if ub[i] % f == 0 and ub[i] // f > 1]
            if fac:
                f = rng.choice(fac)
                b, t0 = ub[i], ts[i]
                ub[i:i + 1] = [f, b // f]
                ts[i:i + 1] = [t0, f * t0]
    ss = [8 * rng.randint(1, 9) for _ in st["s"]]
    if rng.random() < 0.1:
        ss[0] = 0                                   # canonicalize() returns such a pattern unchanged
    return {"ub": ub, "ts": ts, "ss": ss}


def gen_noncanonical(rng, kind):
    """regions as a person would write them: over-long but foldable patterns, and over-long patterns that do not fit"""
    def streamer(pool):
        return {"t": [rng.choice("nnnr") for _ in range(rng.randint(1, 4))], "s": [rng.choice([4, 8])],
                "o": [x for x in pool if rng.random() < 0.3]}
    if kind == "alu":
        cfg = [streamer(REG_OPTS) for _ in range(rng.randint(1, 3))] if rng.random() < 0.7 else [dict(x) for x in ALU_DEFAULT]
    elif kind == "xdma":
        cfg = [streamer(XDMA_OPTS) for _ in range(2)]
    else:
        cfg = [dict(x) for x in GEMMX_DEFAULT]
    op = gen_streamop(rng, cfg)
    victims = range(len(cfg)) if kind != "gemmx" else [1]       # gemmx: B (A and the output fix K, M)
    for i in victims:
        if rng.random() < 0.75:
            op["pats"][i] = decanonicalise(rng, cfg[i], fits=rng.random() < 0.7)
    case = {"kind": kind, "cfg": cfg, "op": op}
    if kind == "xdma":
        case["kernel"] = rng.choice([["add"], ["other"]])
    if kind == "gemmx":
        op["pats"][4] = {"ub": op["pats"][0]["ub"][:2], "ts": [4104, 0][:len(op["pats"][0]["ub"][:2])], "ss": op["pats"][4]["ss"]}
        case.update({"n": 8, "m": 8, "k": 8, "kernel": ["mac", None], "i8out": False, "post": None, "nin": 2, "mid": 0})
    return case


def noncanonical_small(rng):
    """the hand-written shapes by name, on 1-, 2- and 3-dimensional streamers (alu and xDMA)"""
    shapes1 = [([16], [32]), ([1, 16], [0, 32]), ([1, 16], [640, 32]), ([16, 1], [32, 0]), ([4, 4], [32, 128]),
               ([4, 4], [32, 256]), ([2, 2, 4], [32, 64, 128]), ([1, 1, 16], [0, 0, 32]), ([2, 8], [32, 64])]
    for ub, ts in shapes1:
        cfg = [dict(x) for x in ALU_DEFAULT]
        op = gen_streamop(rng, cfg)
        op["pats"] = [{"ub": list(ub), "ts": list(ts), "ss": [8]} for _ in cfg]
        yield {"kind": "alu", "cfg": cfg, "op": op}
    shapes2 = [([1, 4, 6], [0, 8, 40]), ([4, 1, 6], [8, 0, 40]), ([4, 6, 1], [8, 40, 0]), ([2, 2, 6], [8, 16, 40]),
               ([4, 2, 3], [8, 40, 80]), ([4, 6, 5], [8, 40, 400]), ([1, 1, 4, 6], [0, 0, 8, 40])]
    for flags in (["n", "n"], ["r", "n"]):
        for ub, ts in shapes2:
            cfg = [{"t": list(flags), "s": [4], "o": []}, {"t": ["n", "n", "n"], "s": [4], "o": ["c"]}]
            op = gen_streamop(rng, cfg)
            op["pats"] = [{"ub": list(ub), "ts": list(ts), "ss": [8]}, {"ub": list(ub), "ts": list(ts), "ss": [8]}]
            yield {"kind": "alu", "cfg": cfg, "op": op}
            xcfg = [{"t": list(flags), "s": [8], "o": ["c"]}, {"t": ["n", "n"], "s": [8], "o": []}]
            xop = gen_streamop(rng, xcfg)
            xop["pats"] = [{"ub": list(ub), "ts": list(ts), "ss": [8]}, {"ub": [4], "ts": [64], "ss": [8]}]
            yield {"kind": "xdma", "cfg": xcfg, "op": xop, "kernel": ["other"]}


def gen_phs(rng, tier):
    """snax_phs: a processing element merged from a random kernel history (C20's generator), a template with 1..2 dims,
    and a region whose generic is one of the kernels (or, rarely, a kernel the element was not built for)"""
    c20 = _c20()
    bodies = c20.gen_history(rng, tier, 6)
    rng.shuffle(bodies)
    nin = len(bodies[0]["arg_tys"]) - 1
    bounds = [rng.choice([2, 4, 8]) for _ in range(rng.choice([1, 1, 2]))]
    cfg = [{"t": ["n"] * len(bounds), "s": list(bounds), "o": []} for _ in range(nin + 1)]
    kernel = rng.choice(bodies)
    if rng.random() < 0.1:
        kernel = c20.gen_body(rng, bodies[0]["arg_tys"], rng.randint(1, 3))
    op = gen_streamop(rng, cfg, malformed=rng.random() < 0.1)
    return {"kind": "phs", "cfg": cfg, "op": op, "bodies": bodies, "kernel": kernel,
            "tmpl": {"nin": nin, "bounds": bounds}}


def gen_session(rng, kind):
    """ONE accelerator object lowering several operations in a row (the config flow registers `lambda: instance`): 2..4
    operations on the same configuration, broadcasting / zero-pointer / padded ones mixed with plain ones in random order,
    sometimes the same operation twice. Every operation must be lowered as if it were the only one."""
    first = {"alu": gen_alu, "gemmx": gen_gemmx, "xdma": gen_xdma}[kind](rng)
    if kind != "xdma":
        # give the option that carries per-operation state (broadcast enable) a good chance to be there
        for st in first["cfg"]:
            if "b" not in st["o"] and rng.random() < 0.6:
                st["o"] = st["o"] + ["b"]
        first = {"alu": gen_alu, "gemmx": gen_gemmx}[kind](rng, cfg=first["cfg"], **({"n": first["n"]} if kind == "gemmx" else {}))
    steps = [first]
    for _ in range(rng.randint(1, 3)):
        if rng.random() < 0.2:
            steps.append(json_copy(rng.choice(steps)))
            continue
        if kind == "alu":
            st = gen_alu(rng, cfg=first["cfg"]) if rng.random() < 0.9 else {"kind": "alu_linalg", "cfg": first["cfg"]}
        elif kind == "gemmx":
            st = gen_gemmx(rng, cfg=first["cfg"], n=first["n"])
            st["m"], st["k"] = first["m"], first["k"]
        else:
            st = gen_xdma(rng, cfg=first["cfg"])
        steps.append(st)
    # make sure stateful values differ between neighbours: flip "has a zero spatial stride" on one operand of step 1
    for a, b in zip(steps, steps[1:]):
        if "op" in a and "op" in b and a["op"]["pats"] and len(a["op"]["pats"]) == len(b["op"]["pats"]):
            i = rng.randrange(len(a["op"]["pats"]))
            if a["op"]["pats"][i]["ss"] and b["op"]["pats"][i]["ss"]:
                a["op"]["pats"][i]["ss"][-1] = 0
                if b["op"]["pats"][i]["ss"][-1] == 0:
                    b["op"]["pats"][i]["ss"][-1] = 8 * rng.randint(1, 40)
    rng.shuffle(steps) if rng.random() < 0.3 else None
    return {"kind": "seq", "steps": steps, "objects": "fresh" if rng.random() < 0.25 else "one"}


def gen_module(rng):
    """a module with 2..5 streaming regions of up to three accelerators (alu, gemmx, xdma: one configuration each), lowered by
    the real pass"""
    kinds = rng.sample(["alu", "gemmx", "xdma"], rng.randint(1, 3))
    firsts = {k: {"alu": gen_alu, "gemmx": gen_gemmx, "xdma": gen_xdma}[k](rng) for k in kinds}
    steps = []
    for _ in range(rng.randint(2, 5)):
        k = rng.choice(kinds)
        f = firsts[k]
        if k == "alu":
            st = gen_alu(rng, cfg=f["cfg"])
        elif k == "gemmx":
            st = gen_gemmx(rng, cfg=f["cfg"], n=f["n"])
            st["m"], st["k"] = f["m"], f["k"]
        else:
            st = gen_xdma(rng, cfg=f["cfg"])
        st["share"] = rng.random() < 0.7
        steps.append(st)
    # the first step of a kind defines the accelerator: keep geometry consistent
    for st in steps:
        if st["kind"] == "gemmx":
            st["m"], st["k"] = firsts["gemmx"]["m"], firsts["gemmx"]["k"]
    return {"kind": "seq", "steps": steps, "objects": rng.choice(["pass-instance", "pass-factory"])}


def json_copy(x):
    import json
    return json.loads(json.dumps(x))


def sessions_small(rng):
    """the named orders: broadcasting region then plain region (and back), same region twice, zero pointer then plain,
    on alu with the broadcast option, the default gemmx (C = bias vector [8, 0] then full matrix [8, 64]) and xDMA"""
    def alu_case(ss_b, zero=False):
        cfg = [{"t": ["n"], "s": [4], "o": ["b", "c"]}, {"t": ["n"], "s": [4], "o": ["b"]}, {"t": ["n"], "s": [4], "o": []}]
        op = {"pats": [{"ub": [16], "ts": [32], "ss": [8]}, {"ub": [16], "ts": [32], "ss": [ss_b]},
                       {"ub": [16], "ts": [32], "ss": [8]}], "zero": [zero, False, False]}
        return {"kind": "alu", "cfg": cfg, "op": op}
    for order in ([alu_case(0), alu_case(8)], [alu_case(8), alu_case(0)], [alu_case(0), alu_case(0), alu_case(8)],
                  [alu_case(8, zero=True), alu_case(8)], [alu_case(0), {"kind": "alu_linalg", "cfg": alu_case(0)["cfg"]}, alu_case(8)]):
        yield {"kind": "seq", "steps": json_copy(order), "objects": "one"}
        yield {"kind": "seq", "steps": json_copy(order), "objects": "fresh"}

    def gemm_case(c_ss):
        cfg = [dict(s) for s in GEMMX_DEFAULT]
        pats = [{"ub": [2, 2, 2], "ts": [64, 0, 128], "ss": [8]}, {"ub": [2, 2, 2], "ts": [64, 128, 0], "ss": [8]},
                {"ub": [0, 0, 0], "ts": [0, 0, 0], "ss": [0]}, {"ub": [2, 2, 2], "ts": [0, 256, 512], "ss": list(c_ss)},
                {"ub": [2, 2, 2], "ts": [0, 256, 512], "ss": [8, 64]}]
        return {"kind": "gemmx", "cfg": cfg, "n": 8, "m": 8, "k": 8, "op": {"pats": pats, "zero": [False] * 5},
                "kernel": ["mac", [2, 3]], "i8out": False, "post": None, "nin": 4, "mid": 1}
    for order in ([gemm_case([8, 0]), gemm_case([8, 64])], [gemm_case([8, 64]), gemm_case([8, 0])],
                  [gemm_case([8, 0]), gemm_case([8, 0]), gemm_case([8, 64])]):
        yield {"kind": "seq", "steps": json_copy(order), "objects": "one"}
        yield {"kind": "seq", "steps": json_copy(order), "objects": "fresh"}

    def xdma_case(zero, kernel):
        cfg = [dict(s) for s in XDMA_DEFAULT]
        return {"kind": "xdma", "cfg": cfg, "kernel": kernel,
                "op": {"pats": [{"ub": [4, 2], "ts": [64, 512], "ss": [8]}, {"ub": [8], "ts": [64], "ss": [8]}], "zero": zero}}
    for order in ([xdma_case([True, False], ["add"]), xdma_case([False, False], ["other"])],
                  [xdma_case([False, False], ["rescale", True, 3, 5, 7, 9]), xdma_case([False, False], ["add"]),
                   xdma_case([False, False], ["rescale", False, 1, 2, 3, 4])]):
        yield {"kind": "seq", "steps": json_copy(order), "objects": "one"}
        yield {"kind": "seq", "steps": json_copy(order), "objects": "fresh"}


def gemmx_shapes(rng):
    """(q)mac, (q)mac->rescale, (q)mac->add, (q)mac->add->rescale, (q)mac->add->add->rescale on the default geometry"""
    # every supported gemmx region shape x output type x per-tensor / per-channel rescale on the default geometry
    for zp in (None, [2, 3]):
        for mid in (0, 1, 2):
            for i8 in (False, True):
                for per_channel in ((None,) if not i8 else (None, False, True)):
                    cfg = [dict(s) for s in GEMMX_DEFAULT]
                    op = gen_streamop(rng, cfg)
                    op["pats"][2 if i8 else 4] = {"ub": op["pats"][0]["ub"][:2], "ts": [4104, 0][:len(op["pats"][0]["ub"][:2])],
                                                  "ss": op["pats"][2 if i8 else 4]["ss"]}
                    post = None
                    if per_channel is not None:
                        post = gen_rescale(rng, 8)
                        ln = 8 if per_channel else 1
                        post["shifts"] = [rng.randint(1, 60) for _ in range(ln)]
                        post["mults"] = [rng.randint(1, 2 ** 30) for _ in range(ln)]
                    yield {"kind": "gemmx", "cfg": cfg, "n": 8, "m": 8, "k": 8, "op": op, "kernel": ["mac", zp],
                           "i8out": i8, "post": post, "nin": 2 if zp is None else 4, "mid": mid}


def exhaustive_small(rng):
    """every option subset x (1..2 streamers) x flags in {n,i,r}^(1..2) for the regular streamer (alu wrapper) and
    every extension subset for xdma, one marker op each"""
    import itertools
    for k in range(len(REG_OPTS) + 1):
        for o in itertools.combinations(REG_OPTS, k):
            for nt in (1, 2):
                for flags in itertools.product("nir", repeat=nt):
                    for sd in ([4], [8, 4]):
                        cfg = [{"t": list(flags), "s": sd, "o": list(o)}, {"t": ["n", "r"], "s": [4], "o": list(o[::-1])}]
                        yield {"kind": "alu", "cfg": cfg, "op": gen_streamop(rng, cfg)}
    yield from gemmx_shapes(rng)
    exts = [x for x in XDMA_OPTS]
    for mask in range(1 << len(exts)):
        o = [e for i, e in enumerate(exts) if mask >> i & 1]
        cfg = [{"t": list("nn"), "s": [8], "o": o}, {"t": list("nr"), "s": [8], "o": o[::-1]}]
        for kernel in (["add"], ["rescale", True, 3, 5, 7, 9], ["rescale", False, 3, 5, 7, 9]):
            yield {"kind": "xdma", "cfg": cfg, "op": gen_streamop(rng, cfg), "kernel": kernel}


class C08(Prop):
    id = "C08"
    PARALLEL = True
    exhaustive_thorough = True
    trusted_base = [
        "modelled: SNAXStreamer._generate_streamer_setup_vals / get_streamer_setup_fields / "
        "get_xdma_streamer_setup_fields, snax_alu/_gemmx/_xdma/_hwpe_mult value generators and field tuples, the two "
        "pack_bitlist shapes in use (Model/SetupVals.lean)",
        "harness: tree_of (SSA value -> expression tree), Field.name rendering compared against the real field strings",
    ]
    assumptions = [
        "snax_phs (switch values come from the PHS decoder, property C20) and the legacy linalg path of snax_alu are not "
        "modelled",
        "at most 26 streamers (the Python names them with string.ascii_lowercase); constants fit the i32 range "
        "(arith.ConstantOp.from_int_and_width raises otherwise)",
        "streaming regions are well-formed: body = dart.generic ops followed by dart.yield (the generators assert this)",
        "extension CSR values (`get_csr_values`) of maxpool/memset/transpose are unreachable (supported_kernel is None)",
        "fix diffs fixes/F11-gemmx-rescale-mults.diff and fixes/F14-xdma-enabled-chan-field.diff are applied to the tree "
        "under test (set C08_PRISTINE=1 to compare the unrepaired tree with the pristine variant of the model)",
    ]
    rule = ("structured random configurations (1..6 temporal dims with n/i/r flags, 1..2 spatial dims, random option / "
            "extension subsets in random order, gemmx n in {4,8,12,16}, mac/qmac/rescale/post-rescale bodies, zero pointers) "
            "with marker stride patterns; sessions = 2..4 operations lowered in a row by ONE accelerator object (config flow) or by "
            "fresh objects in one process, broadcasting / zero-pointer / plain operations in both orders; hand-written non-canonical regions (unit loops leading/middle/trailing, contiguous "
            "loop pairs, over-long patterns that fold to fit and that do not) run through the real region verifier; pointer operands are a mix of op results, non-zero constants, function arguments, "
            "loop-carried values and zero constants in every position (enumerated for 3-streamer alu, xDMA, gemmx); non-trivial = values were produced and some pattern is shorter than the "
            "streamer (padding) or a reuse dimension collapses or a zero pointer/packed field is present")

    def cases(self, rng, tier):
        n = 900 if tier == "quick" else 8000
        yield {"kind": "hwpe"}
        yield {"kind": "foreign"}
        for kind in ("alu", "xdma"):            # `StridePattern.verify`: more / fewer temporal strides than upper bounds
            for dub, dts in (([4, 2], [32]), ([4], [32, 64])):
                c = gen_alu(rng) if kind == "alu" else gen_xdma(rng)
                c["op"]["pats"][0] = {"ub": dub, "ts": dts, "ss": c["op"]["pats"][0]["ss"]}
                yield c
        yield {"kind": "alu_linalg", "cfg": [dict(x) for x in ALU_DEFAULT]}
        # 17 fields by coincidence (8 + 7 + 2): same count as the table, different names
        yield {"kind": "alu_linalg", "cfg": [{"t": ["n", "n"], "s": [4, 2], "o": []}, {"t": ["n", "n"], "s": [4], "o": []}]}
        for _ in range(6):
            yield {"kind": "alu_linalg", "cfg": [gen_streamer(rng, REG_OPTS) for _ in range(rng.randint(1, 4))]}
        yield from pointer_sources(rng)
        yield from noncanonical_small(rng)
        for i in range(n // 6):
            yield gen_noncanonical(rng, ("alu", "xdma", "gemmx")[i % 3])
        for i in range(n // 6):
            yield gen_phs(rng, tier)
        yield from sessions_small(rng)
        for c in sessions_small(rng):
            if c["objects"] == "one" and all(st["kind"] != "alu_linalg" for st in c["steps"]):
                yield dict(json_copy(c), objects="pass-instance")
                yield dict(json_copy(c), objects="pass-factory")
        for i in range(n // 10):
            yield gen_module(rng)
        for i in range(n // 6):
            yield gen_session(rng, ("alu", "gemmx", "xdma")[i % 3])
        if tier != "thorough":
            yield from gemmx_shapes(rng)
        if tier == "thorough":
            yield from exhaustive_small(rng)
        for i in range(n):
            mal = i % 7 == 6
            c = i % 3
            if c == 0:
                yield gen_alu(rng, mal)
            elif c == 1:
                yield gen_gemmx(rng, mal, short=(i % 5 == 1))
            else:
                yield gen_xdma(rng, mal, notgeneric=(i % 11 == 2))

    def extra_search_cases(self, rng, tier):
        yield from exhaustive_small(rng)
        yield from self.cases(rng, "thorough")

    # -- the two sides ------------------------------------------------------------------------
    def impl(self, case):
        if case["kind"] == "seq" and str(case.get("objects", "")).startswith("pass-"):
            return run_real_pass(case)
        if case["kind"] == "seq":
            sess = {}
            outs = []
            for st in case["steps"]:
                if case.get("objects") == "fresh":
                    sess = {}       # a new accelerator object per operation, same process: class / module level state
                try:
                    outs.append(run_real(st, sess))
                except (ImportError, SyntaxError, MemoryError):
                    raise
                except Exception as e:  # noqa: BLE001   (the real code raised something the single-op path does not expect)
                    outs.append({"raised": type(e).__name__, "msg": str(e)[:200]})
            return {"steps": outs}
        return run_real(case)

    # -- sessions: one accelerator object, several operations -------------------------------------------------
    def requests(self, case):
        if case["kind"] == "seq":
            return [r for st in case["steps"] for r in self.requests1(st)]
        return self.requests1(case)

    def model(self, case, answers):
        if case["kind"] == "seq":
            # the model is a function of (configuration, operation): no state to carry from one operation to the next
            outs = [self.model1(st, [a]) for st, a in zip(case["steps"], answers)]
            if str(case.get("objects", "")).startswith("pass-") and any("raised" in o for o in outs):
                # the pass aborts at the first region whose lowering raises (walk order = step order per function)
                return {"pass_raised": next(o["raised"] for o in outs if "raised" in o)}
            return {"steps": outs}
        return self.model1(case, answers)

    def oracle(self, case, impl_out):
        if case["kind"] != "seq":
            return self.oracle1(case, impl_out)
        if "pass_raised" in impl_out:
            return []           # loud: no configuration is emitted for the module
        if "steps" not in impl_out:
            return [{"what": f"the session raised {impl_out.get('raised')}: {impl_out.get('msg')}", "finding": None}]
        out = []
        n = len(case["steps"])
        for i, (st, o) in enumerate(zip(case["steps"], impl_out["steps"])):
            for v in self.oracle1(st, o):
                how = {"fresh": "a fresh accelerator object per operation", "pass-instance": "the pass convert-linalg-to-accfg "
                       "(accelerators registered as instances)", "pass-factory": "the pass convert-linalg-to-accfg (accelerators "
                       "registered as factories)"}.get(case.get("objects"), "ONE accelerator object")
                out.append(dict(v, what=f"operation {i + 1} of {n} lowered by {how}: {v['what']}"))
        return out

    def nontrivial(self, case, impl_out):
        if case["kind"] == "seq":
            return any(self.nontrivial1(st, o) for st, o in zip(case["steps"], impl_out.get("steps", [])))
        return self.nontrivial1(case, impl_out)

    def stats_key(self, case, impl_out):
        if case["kind"] == "seq":
            if isinstance(impl_out, dict) and "steps" not in impl_out:
                return "seq:raised"
            return "seq:" + case.get("objects", "one") + ":" + case["steps"][0]["kind"] + f":{len(case['steps'])}ops"
        return self.stats_key1(case, impl_out)

    def shrink(self, case):
        if case["kind"] == "seq":
            steps = case["steps"]
            if len(steps) > 1:
                for i in range(len(steps)):
                    yield dict(case, steps=steps[:i] + steps[i + 1:])
            return
        yield from self.shrink1(case)

    def requests1(self, case):
        k = case["kind"]
        if k == "foreign":
            return []
        if k == "hwpe":
            return [{"fn": "c08.hwpe", "args": {}}]
        if k == "alu":
            return [{"fn": "c08.alu", "args": {"cfg": case["cfg"], "op": case["op"], "fixes": FIXES}}]
        if k == "gemmx":
            kern = case["kernel"]
            if kern[0] == "rescale":
                kern = ["rescale", dr_data(kern[1])]
            # the region body as a chain of generics: first kernel, fused bias adds, trailing rescale
            generics = [kern] + [["add"]] * case.get("mid", 0)
            if case["post"] is not None:
                generics.append(["rescale", dr_data(case["post"])])
            return [{"fn": "c08.gemmx", "args": {"cfg": case["cfg"], "n": case["n"], "fixes": FIXES, "op": case["op"],
                                                  "generics": generics, "i8out": case["i8out"]}}]
        if k == "alu_linalg":
            return [{"fn": "c08.alu_linalg", "args": {"cfg": case["cfg"]}}]
        if k == "phs":
            return [{"fn": "c08.phs", "args": {"cfg": case["cfg"], "op": case["op"], "fixes": FIXES,
                                                "bodies": case["bodies"], "kernel": case["kernel"]}}]
        if k == "xdma":
            return [{"fn": "c08.xdma", "args": {"cfg": case["cfg"], "fixes": FIXES, "op": case["op"],
                                                 "kernel": case["kernel"]}}]
        return []

    def model1(self, case, answers):
        if case["kind"] == "foreign":
            # not a Lean model: the documented contract of `convert_to_acc_ops` for an op the accelerator does not lower, and
            # of the region verifier for a module without the accelerator's op
            return {"foreign": {k: 0 for k in ("alu", "gemmx", "xdma", "hwpe")}, "rejected_without_accelerator_op": True}
        a = answers[0]
        if "err" in a and "ub/ts lengths differ" in str(a["err"]):
            return {"raised": "VerifyException"}       # the driver's wire-format check mirrors `StridePattern.verify`
        if "err" in a:
            return {"model_error": a["err"]}
        out = a["ok"]
        if "vals" in out:
            # the setup op zips the values with the field tuple
            out["names"] = list(out["fields"])
        return out

    def compare(self, case, impl_out, model_out):
        # keys starting with "_" are notes of the real side for the oracle, not part of the correspondence
        def strip(o):
            return {k: v for k, v in o.items() if not k.startswith("_")} if isinstance(o, dict) else o
        if isinstance(impl_out, dict) and "steps" in impl_out:
            impl_out = {"steps": [strip(o) for o in impl_out["steps"]]}
        else:
            impl_out = strip(impl_out)
        return super().compare(case, impl_out, model_out)

    # -- the property on the real output --------------------------------------------------------
    def oracle1(self, case, impl_out):
        out = []
        if case["kind"] == "foreign":
            if any(impl_out.get("foreign", {}).values()) or not impl_out.get("rejected_without_accelerator_op"):
                return [{"what": f"an op the accelerator does not lower produced ops, or a region without accelerator op was "
                                 f"accepted: {impl_out}", "finding": None}]
            return []
        if impl_out.get("raised") == "VerifyException":
            return []       # the stride pattern attribute cannot even be built
        if impl_out.get("invalid_input"):
            return []
        if "raised" in impl_out and "fields" not in impl_out:
            return [{"what": f"building the accelerator raised {impl_out['raised']}: {impl_out.get('msg')}",
                     "finding": None}]
        if "raised" in impl_out:
            return []       # loud failure: no configuration is emitted (both sides must agree on it)
        fields, vals, names = impl_out["fields"], impl_out["vals"], impl_out["names"]
        kind = case["kind"]
        if kind == "phs":
            case = dict(case, _decoded=impl_out.get("_decoded"))
            nsw = sum(1 for f in fields if f.startswith("phs_switch_"))
            if nsw != impl_out.get("true") or len(impl_out.get("_decoded") or []) != nsw:
                out.append({"what": f"{nsw} phs_switch fields, get_true_switches() = {impl_out.get('true')}, decoder "
                                    f"yields {len(impl_out.get('_decoded') or [])} values", "finding": None})
        if names != fields:
            out.append({"what": "setup op is not built from the accelerator's field tuple", "finding": None})
        if len(set(fields)) != len(fields) and not any(len(set(s["o"])) != len(s["o"]) for s in case.get("cfg", [])):
            out.append({"what": "duplicate field names", "finding": None})
        if len(vals) != len(fields):
            fid = None
            if kind == "gemmx" and case["kernel"][0] == "rescale":
                fid = "D11"
            elif kind == "gemmx" and case["kernel"][0] == "mac" and case["i8out"] and case["post"] is not None and (
                    1 < len(case["post"]["shifts"]) < case["n"] or 1 < len(case["post"]["mults"]) < case["n"]):
                fid = "D81"
            elif kind == "alu_linalg" and case["cfg"] != ALU_DEFAULT:
                fid = "DC08a"
            elif kind == "xdma" and case["kernel"][0] == "notgeneric":
                fid = "D83"
            elif kind == "xdma" and any("c" not in s["o"] for s in case["cfg"]):
                fid = "D12"
            out.append({"what": f"{len(vals)} values for {len(fields)} fields "
                                f"(register {fields[min(len(vals), len(fields) - 1)]} and all later ones are shifted or unset)",
                        "finding": fid})
            return out
        for name, v in zip(fields, vals):
            try:
                want = meaning_of_name(case, name)
            except IndexError:
                want = None
            got = ev(v)
            if isinstance(want, tuple) and want[0] == "bit0":
                got, want = got & 1, want[1]
            elif isinstance(want, tuple):
                got, want = got & want[2], want[1]
            legacy_table = kind == "alu_linalg" and case["cfg"] != ALU_DEFAULT     # DC08a: table of the default configuration
            if want is None:
                out.append({"what": f"register {name} has no meaning for this configuration/operation",
                            "finding": "DC08a" if legacy_table else None})
                break
            if got != want & MASK:
                fid = None
                if legacy_table:
                    fid = "DC08a"
                elif kind == "hwpe" and name in ("vector_length", "nr_iters"):
                    fid = "D10"
                elif kind == "xdma" and re.search(r"_enabled_(chan|byte)$", name) and len(set(case["op"]["zero"])) > 1:
                    fid = "D80"
                elif (kind == "alu" and name == "loop_bound_alu"
                      and len(case["op"]["pats"][0]["ub"]) > 1
                      and (len(case["op"]["pats"][0]["ub"]) <= len(case["cfg"][0]["t"]) or not impl_out.get("accepts", True))):
                    # D82 is about a multi-loop pattern that FITS its streamer (or a region the verifier rejects anyway);
                    # an ACCEPTED over-long pattern is a silently dropped loop, not D82
                    fid = "D82"
                elif kind == "gemmx" and name == "K" and case["kernel"][0] == "mac":
                    # inconsistent streams of one operation (output loops are not a sub-nest of A's): outside the
                    # property's quantifier, the floor division is not judged
                    continue
                out.append({"what": f"register {name} receives {got:#x}, its name means {want & MASK:#x}", "finding": fid})
                if fid is None:
                    break
        if impl_out.get("accepts") and kind not in ("hwpe", "alu_linalg") and len(vals) == len(fields):
            # A region the verifier accepts gets registers that mean exactly the pattern as written: the (bound, stride)
            # registers of every streamer generate the temporal address stream of its stride pattern (a reused dimension
            # with stride 0 visits its address once). Nothing may be dropped silently.
            byname = {n: ev(v) for n, v in zip(fields, vals)}
            for si, (st, p) in enumerate(zip(case["cfg"], case["op"]["pats"])):
                nm = chr(97 + si)
                td = len(st["t"])
                if any(f"{nm}_bound_{d}" not in byname or f"{nm}_tstride_{d}" not in byname for d in range(td)):
                    continue
                got = [(byname[f"{nm}_bound_{d}"], sgn(byname[f"{nm}_tstride_{d}"])) for d in range(td)]
                want = []
                for d, (b, t) in enumerate(zip(p["ub"], p["ts"])):
                    if d < td and st["t"][d] == "r" and t == 0 and b > 1:
                        b = 1
                    want.append((b, t))
                if not same_stream(got, want):
                    out.append({"what": f"accepted region: streamer {nm} is programmed with (bound, stride) {got}, which is not "
                                        f"the address stream of its pattern ub={p['ub']} ts={p['ts']} "
                                        f"({prod(b for b, _ in got)} instead of {prod(b for b, _ in want)} steps)",
                                "finding": None})
                    break
        # the launch: every launch field of the accelerator gets its start value
        want_launch = {"alu": [["launch_streamer", 1], ["launch_alu", 1]], "gemmx": [["launch_streamer", 1], ["launch_gemmx", 1]],
                       "xdma": [["launch_start", 1]], "phs": [["launch_streamer", 1], ["launch_alu", 1]],
                       "alu_linalg": [["launch_streamer", 1], ["launch_alu", 1]],
                       "hwpe": [["launch", 0]]}[kind]
        if impl_out.get("launch") != want_launch:
            out.append({"what": f"launch op writes {impl_out.get('launch')}, expected {want_launch}", "finding": None})
        if kind == "gemmx" and len(vals) == len(fields):
            # channel-wise requantisation with more channels than columns: the complete arrays of the kernel.rescale
            # (as written) and M travel as launch attributes, exactly when they do not fit the registers
            want = {}
            r = case["post"] if (case["kernel"][0] == "mac" and case["i8out"]) else None
            if r is not None:
                n = case["n"]
                if (len(eff(r["shifts"], n)) + 3) // 4 > (n + 3) // 4:
                    want["shift_vals"] = list(r["shifts"])
                if len(eff(r["mults"], n)) > n:
                    want["mult_vals"] = list(r["mults"])
                    want["m"] = [ev(dict(zip(fields, vals))["M"])]
            if impl_out.get("launch_attrs") != want:
                out.append({"what": f"launch attributes {impl_out.get('launch_attrs')}, the kernel needs {want}", "finding": None})
        if kind == "gemmx" and not out:
            # kernel loop counts agree with the number of temporal steps of stream A (when the streams of the
            # operation are consistent: the output loops are a sub-nest of A's, i.e. M divides steps(A))
            byname = {n: ev(v) for n, v in zip(fields, vals)}
            steps_a = prod(case["op"]["pats"][0]["ub"])
            kk, nn, mm = byname.get("K"), byname.get("N"), byname.get("M")
            if None not in (kk, nn, mm) and mm != 0 and steps_a % mm == 0 and (kk * nn * mm) & MASK != steps_a & MASK:
                out.append({"what": f"K*N*M = {kk}*{nn}*{mm} but stream A makes {steps_a} temporal steps", "finding": None})
        seen = set()
        res = []
        for o in out:
            k = (o["finding"], o["what"] if o["finding"] is None else "")
            if k not in seen:
                seen.add(k)
                res.append(o)
        return res

    def nontrivial1(self, case, impl_out):
        if case["kind"] == "foreign":
            return True
        if "vals" not in impl_out:
            return False
        if case["kind"] in ("hwpe", "alu_linalg"):
            return True
        cfg, op = case["cfg"], case["op"]
        for st, p in zip(cfg, op["pats"]):
            if len(p["ub"]) < len(st["t"]):
                return True
            if any(f == "r" and t == 0 and b > 1 for f, b, t in zip(st["t"], p["ub"], p["ts"])):
                return True
        return any(op["zero"]) or case["kind"] == "gemmx" or (case["kind"] == "phs" and impl_out.get("true", 0) > 0)

    def stats_key1(self, case, impl_out):
        k = case["kind"]
        if k == "gemmx":
            k += (":" + case["kernel"][0] + (":i8" if case["i8out"] else ":i32") + (":add" * case.get("mid", 0))
                  + (":post" if case.get("post") else ""))
        if k == "xdma":
            k += ":" + case["kernel"][0]
        if isinstance(impl_out, dict) and impl_out.get("accepts") is False:
            k += ":rejected"
            if all(canon_len(p["ub"], p["ts"], p["ss"]) <= len(st["t"]) for st, p in zip(case["cfg"], case["op"]["pats"])):
                k += "(foldable)"
        if isinstance(impl_out, dict) and "raised" in impl_out:
            return f"{k}:raised:{impl_out['raised']}"
        return k

    def shrink1(self, case):
        if case["kind"] in ("hwpe", "alu_linalg", "foreign"):
            return
        if case["kind"] == "phs":
            # the configuration is tied to the template, the kernel to the history: only the history shrinks
            for i in range(len(case["bodies"])):
                if len(case["bodies"]) > 1:
                    yield dict(case, bodies=case["bodies"][:i] + case["bodies"][i + 1:])
            return
        cfg, op = case["cfg"], case["op"]
        # drop a streamer (with its pattern and operand), except for gemmx whose operand roles are positional
        if case["kind"] != "gemmx" and len(cfg) > 1:
            for i in range(len(cfg)):
                if i < len(op["pats"]):
                    yield dict(case, cfg=cfg[:i] + cfg[i + 1:],
                               op=dict({"pats": op["pats"][:i] + op["pats"][i + 1:], "zero": op["zero"][:i] + op["zero"][i + 1:]},
                                       **({"src": op["src"][:i] + op["src"][i + 1:]} if "src" in op else {})))
        for i, s in enumerate(cfg):
            for j in range(len(s["o"])):
                yield dict(case, cfg=cfg[:i] + [dict(s, o=s["o"][:j] + s["o"][j + 1:])] + cfg[i + 1:])
            if len(s["t"]) > 1 and i < len(op["pats"]):
                p = op["pats"][i]
                nt = len(s["t"]) - 1
                yield dict(case, cfg=cfg[:i] + [dict(s, t=s["t"][:nt])] + cfg[i + 1:],
                           op=dict(op, pats=op["pats"][:i] + [dict(p, ub=p["ub"][:nt], ts=p["ts"][:nt])] + op["pats"][i + 1:]))
        if any(op["zero"]):
            yield dict(case, op=dict({k: v for k, v in op.items() if k != "src"}, zero=[False] * len(op["zero"])))
        if "src" in op and any(x not in ("zero", "res") for x in op["src"]):
            # every non-zero pointer an op result
            yield dict(case, op=dict(op, src=["zero" if z else "res" for z in op["zero"]]))
        if case.get("post") is not None:
            yield dict(case, post=None)
        if case.get("mid"):
            yield dict(case, mid=0)


PROP = C08()
